#!/bin/bash
# usage: tools/seedtest.sh <seed dir (/tmp/seed-CNN-mK)> <agent worktree (/tmp/seed-CNN)> <PID> [more PIDs...]
# 1. confirms the seeded change: builds, 10/10 ctest, demo fails with it and passes without it (agent's worktree)
# 2. runs the named checks (quick) against a scratch worktree of /repo HEAD with the change applied
# 3. stores everything under /verif/seeded/<name>/
S="$1"; W="$2"; shift 2
name=$(basename "$S" | sed -E 's/^seed[0-9]*-//')
out=/verif/seeded/$name; mkdir -p "$out"
log=$out/verification.log; : > "$log"
cd "$W" && git checkout -q -- . && git apply "$S/patch.diff" || { echo "PATCH-DOES-NOT-APPLY" | tee -a "$log"; exit 1; }
ninja -C _build > /dev/null 2>&1 || { echo "MUTANT-DOES-NOT-BUILD" | tee -a "$log"; git checkout -q -- .; exit 1; }
ct=$(ctest --test-dir _build -j8 2>&1 | grep "tests passed" ); echo "ctest with change: $ct" | tee -a "$log"
(cd "$S" && bash ./demo.sh "$W/_build/bin" "$W" "$W/_build" > "$out/demo-mutant.out" 2>&1); dm=$?; echo "demo with change: exit $dm" | tee -a "$log"
git checkout -q -- . && ninja -C _build > /dev/null 2>&1
(cd "$S" && bash ./demo.sh "$W/_build/bin" "$W" "$W/_build" > "$out/demo-clean.out" 2>&1); dc=$?; echo "demo without change: exit $dc" | tee -a "$log"
cp -r "$S"/. "$out"/ 2>/dev/null
WT=/var/tmp/wt-main
git -C $WT checkout -q -- . ; git -C $WT checkout -q --detach $(git -C /repo rev-parse HEAD)
git -C $WT apply "$S/patch.diff" || { echo "PATCH-DOES-NOT-APPLY-TO-HEAD" | tee -a "$log"; exit 1; }
cd /verif
for pid in "$@"; do
  VERIF_OUT=/var/tmp/seed-out VERIF_REPO=$WT VERIF_CACHE=/var/tmp/cache-main ./check $pid --tier quick > "$out/check-$pid.log" 2>&1; rc=$?
  keys=$(grep "^VIOLATION" "$out/check-$pid.log" | grep -o "key=[^ ]*" | sort | uniq -c | sort -rn | head -5 | tr '\n' ';')
  echo "check $pid on mutant: exit $rc  $keys" | tee -a "$log"
done
git -C $WT checkout -q -- .
