#!/bin/sh
# usage: tools/applyfix_grammar.sh <diff touching cppBison.yxx> <commit message file>
# Like applyfix.sh, but also regenerates the shipped prebuilt parser (bison 3.8.2 reproduces the shipped files
# byte for byte from the unmodified grammar, so the regenerated diff contains the grammar change only).
set -e
# one fixer at a time: the patch is applied to /repo's working tree while the baseline runs
exec 9>/var/tmp/applyfix.lock; flock 9
D="$1"; M="$2"
cd /repo
git apply --check "$D" || { echo "DOES-NOT-APPLY $D"; exit 3; }
git apply "$D"
T=$(mktemp -d /var/tmp/bison.XXXXXX)
cp src/cppparser/cppBison.yxx "$T"/
(cd "$T" && bison -o cppBison.cxx --defines=cppBison.h -p cppyy cppBison.yxx 2>/dev/null)
cp "$T"/cppBison.cxx src/cppparser/cppBison.cxx.prebuilt
cp "$T"/cppBison.h src/cppparser/cppBison.h.prebuilt
rm -rf "$T"
if (cd /verif && ./check --baseline > /var/tmp/applyfix.log 2>&1) && grep -q "100% tests passed, 0 tests failed out of 10" /var/tmp/applyfix.log; then
  git add -A src
  git commit -q -F "$M"
  echo "COMMITTED $(git rev-parse --short HEAD) $D ($(git show --stat HEAD | tail -1))"
else
  git checkout -- . ; echo "BASELINE-FAILED reverted $D"; tail -20 /var/tmp/applyfix.log; exit 4
fi
