#!/bin/bash
# usage: tools/soak.sh "<seeds>" [tier] [checks...]   -- prints only the runs that did not exit 0
seeds=${1:-"1 2 3"}; tier=${2:-quick}; shift 2 2>/dev/null
checks=${@:-$(cat /verif/manifest.d/enabled.txt)}
for sd in $seeds; do for c in $checks; do
  VERIF_SEED=$sd ./check $c --tier $tier > /var/tmp/soak-$c-$sd.log 2>&1; rc=$?
  if [ $rc -ne 0 ]; then echo "seed=$sd $c rc=$rc $(tail -1 /var/tmp/soak-$c-$sd.log | cut -c1-120)"; grep "^VIOLATION" /var/tmp/soak-$c-$sd.log | grep -o "key=$c:[^{]*" | sort | uniq -c | head -4; fi
done; done; echo soak-done
