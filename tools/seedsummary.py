#!/usr/bin/env python3
"""Summarise /verif/seeded/*/ into seeded/SUMMARY.md (which check catches which seeded change)."""
import json, os, re, glob
V = os.path.dirname(os.path.dirname(os.path.abspath(__file__)))
rows = []
for d in sorted(glob.glob(os.path.join(V, "seeded", "C*-m*"))):
    name = os.path.basename(d)
    meta = {}
    try:
        meta = json.load(open(os.path.join(d, "meta.json")))
    except Exception:
        pass
    log = open(os.path.join(d, "verification.log")).read() if os.path.exists(os.path.join(d, "verification.log")) else ""
    ct = "10/10" if "0 tests failed out of 10" in log else "?"
    dm = re.search(r"demo with change: exit (\d+)", log)
    dc = re.search(r"demo without change: exit (\d+)", log)
    caught = []
    for m in re.finditer(r"check (C\d+) on mutant: exit (\d+)\s*(.*)", log):
        keys = re.findall(r"key=([^;]+)", m.group(3))
        caught.append((m.group(1), m.group(2), keys[:2]))
    rows.append((name, meta.get("property", name[:3]), (meta.get("summary") or "")[:160].replace("\n", " ").replace("|", "/"),
                 (meta.get("needs") or "")[:140].replace("\n", " ").replace("|", "/"), ct, dm.group(1) if dm else "?", dc.group(1) if dc else "?", caught))
out = ["# Seeded changes and the checks that catch them", "",
       "Each change was produced by a sub-agent that saw only the property text and its own worktree; every one compiles, passes the 10 ctest tests, fails its own demonstration and passes it when reverted (re-confirmed by `tools/seedtest.sh`, log in each directory).", "",
       "| id | change | needs | ctest | demo (with / without) | caught by (quick tier) |", "|---|---|---|---|---|---|"]
for name, prop, summ, needs, ct, dm, dc, caught in rows:
    c = "; ".join(f"{p}: {'**caught** ' + ', '.join('`' + k + '`' for k in ks) if rc == '1' else 'missed (exit ' + rc + ')'}" for p, rc, ks in caught) or "not run"
    out.append(f"| {name} | {summ} | {needs} | {ct} | {dm} / {dc} | {c} |")
open(os.path.join(V, "seeded", "SUMMARY.md"), "w").write("\n".join(out) + "\n")
print("\n".join(out[-len(rows):])[:3000])
