#!/bin/bash
# Re-confirm every seeded change and run the relevant quick checks against it (final pass).
W=/var/tmp/wt-demo
if [ ! -d $W ]; then git -C /repo worktree add --detach $W HEAD >/dev/null 2>&1; fi
git -C $W checkout -q -- . ; git -C $W checkout -q --detach $(git -C /repo rev-parse HEAD)
if [ ! -f $W/_build/build.ninja ]; then cmake -G Ninja -S $W -B $W/_build -DCMAKE_BUILD_TYPE=RelWithDebInfo -DHAVE_PYTHON=OFF -DBUILD_SHARED_LIBS=OFF -DCMAKE_UNITY_BUILD=OFF >/dev/null; fi
ninja -C $W/_build >/dev/null 2>&1
for d in /verif/seeded/C*-m*; do
  id=$(basename $d); pid=${id%%-*}
  extra=""
  case $id in C12-m1|C11-m4) extra="C13";; C15-m1) extra="C08";; esac
  if [ -n "$1" ] && [[ ! " $* " =~ " $id " ]]; then continue; fi
  echo "== $id"; /verif/tools/seedtest.sh $d $W $pid $extra 2>&1 | tail -$((4 + ${#extra}/3))
done
