#!/usr/bin/env python3
"""Assemble MANIFEST.json from manifest.d/<PID>.json fragments (one check entry each);
properties without a fragment are listed under not_applicable with the reason in manifest.d/na.json."""
import json, os, glob
V = os.path.dirname(os.path.dirname(os.path.abspath(__file__)))
props = [json.loads(l)["id"] for l in open(os.path.join(V, "properties.jsonl"))]
base = json.load(open(os.path.join(V, "manifest.d", "base.json")))
na = json.load(open(os.path.join(V, "manifest.d", "na.json")))
enabled = set(open(os.path.join(V, "manifest.d", "enabled.txt")).read().split())
checks = []
for p in props:
    if p not in enabled:
        continue
    f = os.path.join(V, "manifest.d", p + ".json")
    if os.path.exists(f):
        checks.append(json.load(open(f)))
base["checks"] = checks
have = {c["property_id"] for c in checks}
base["not_applicable"] = [dict(property_id=p, reason=na.get(p, "check under construction; see DESIGN.md")) for p in props if p not in have]
json.dump(base, open(os.path.join(V, "MANIFEST.json"), "w"), indent=1)
print("checks:", sorted(have), "n/a:", [x["property_id"] for x in base["not_applicable"]])
