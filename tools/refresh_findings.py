#!/usr/bin/env python3
"""Replay every open finding of a property against the current tree and report which still fail.
usage: tools/refresh_findings.py CNN [--mark-fixed <commit> <substring of key> ...]"""
import importlib, json, os, sys
V = os.path.dirname(os.path.dirname(os.path.abspath(__file__)))
sys.path.insert(0, V)
from vf import core
pid = sys.argv[1]
mod = importlib.import_module("vf.props." + pid.lower())
fp = os.path.join(V, "findings", pid + ".json")
F = json.load(open(fp))
chk = core.Check(pid)
if hasattr(mod, "prepare"):
    mod.prepare(chk)
ctx = chk.ctx()
still = {}
for f in F["findings"]:
    if f["status"] != "open":
        continue
    case = f["case"]
    fn = case.get("fn", "run_case") if isinstance(case, dict) else "run_case"
    res = getattr(mod, fn)(ctx, case)
    keys = [k if k.startswith(pid + ":") else pid + ":" + k for k, _ in res.violations]
    still[f["key"]] = (f["key"] in keys, keys)
    print(("STILL-FAILS " if f["key"] in keys else "NO-LONGER   ") + f["key"], "" if f["key"] in keys else "-> now: %s" % keys[:2])
import shutil; shutil.rmtree(chk.work, ignore_errors=True)
json.dump({k: v[0] for k, v in still.items()}, open("/var/tmp/refresh-%s.json" % pid, "w"))
