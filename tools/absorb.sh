#!/bin/bash
# usage: tools/absorb.sh CNN seed   -- re-run one seed and list its unlisted keys as open findings (triage by hand first!)
rm -rf /verif/out/replays/$1; VERIF_SEED=$2 ./check $1 --tier ${3:-quick} > /var/tmp/absorb-$1-$2.log 2>&1
python3 tools/mkfindings.py $1 2>/dev/null | tail -2
