#!/bin/bash
# run every enabled check (quick by default) and print one line each
tier=${1:-quick}
for c in $(cat /verif/manifest.d/enabled.txt); do
  s=$(date +%s); ./check $c --tier $tier > /var/tmp/runall-$c.log 2>&1; rc=$?
  echo "$c rc=$rc $(( $(date +%s) - s ))s $(tail -1 /var/tmp/runall-$c.log | cut -c1-150)"
done
