#!/bin/bash
# usage: tools/recheck.sh <seeded name (e.g. C01-m5)> PID [PID...]
# Re-runs the quick tier of the named checks against /repo HEAD + seeded/<name>/patch.diff (scratch worktree) and
# replaces the corresponding "check PID on mutant" lines of seeded/<name>/verification.log.
n=$1; shift
out=/verif/seeded/$n; log=$out/verification.log
WT=/var/tmp/wt-main
git -C $WT checkout -q -- . ; git -C $WT checkout -q --detach $(git -C /repo rev-parse HEAD)
git -C $WT apply "$out/patch.diff" || { echo "PATCH-DOES-NOT-APPLY-TO-HEAD ($n)" | tee -a "$log"; exit 1; }
cd /verif
for pid in "$@"; do
  VERIF_OUT=/var/tmp/seed-out VERIF_REPO=$WT VERIF_CACHE=/var/tmp/cache-main ./check $pid --tier quick > "$out/check-$pid.log" 2>&1; rc=$?
  keys=$(grep "^VIOLATION" "$out/check-$pid.log" | grep -o "key=[^ ]*" | sort | uniq -c | sort -rn | head -5 | tr '\n' ';')
  grep -v "^check $pid on mutant" "$log" > "$log.tmp"; mv "$log.tmp" "$log"
  echo "check $pid on mutant: exit $rc  $keys" | tee -a "$log"
done
git -C $WT checkout -q -- .
