#!/usr/bin/env python3
"""Turn the replay files of the last run of a check into findings/<PID>.json entries (status open),
one per distinct key, keeping existing entries.  Summaries are placeholders to be edited by hand."""
import json, os, sys, glob
V = os.path.dirname(os.path.dirname(os.path.abspath(__file__)))
pid = sys.argv[1]
fp = os.path.join(V, "findings", pid + ".json")
cur = json.load(open(fp))["findings"] if os.path.exists(fp) else []
have = {f["key"] for f in cur}
for rp in sorted(glob.glob(os.path.join(V, "out", "replays", pid, "*.json"))):
    r = json.load(open(rp))
    if r["key"] in have:
        continue
    have.add(r["key"])
    d = r.get("detail") or {}
    summ = (d.get("summary") or d.get("detail") or json.dumps(d))[:160].replace("\n", " ")
    case = r["case"]
    if isinstance(case, dict) and "id" in case:
        case["id"] = "F%d" % (len(cur) + 1)
    cur.append(dict(property=pid, key=r["key"], status="open", summary=summ, case=case))
json.dump(dict(findings=cur), open(fp, "w"), indent=1)
print(len(cur), "findings in", fp)
for f in cur: print(" ", f["status"], f["key"])
