#!/bin/bash
# tools/mkbrief.sh PID WAVE  -> creates scratch worktree /var/tmp/seed-PID-wWAVE and brief /tmp/seed-PID.brief.txt
# (the brief holds only the property text and the worktree path; nothing from /verif)
set -e
PID=$1; W=${2:-3}
WT=/var/tmp/seed-$PID-w$W
git -C /repo worktree remove --force $WT 2>/dev/null || true
git -C /repo worktree add --detach $WT HEAD >/dev/null 2>&1
TEXT=$(python3 - "$PID" <<'PY'
import json,sys
for l in open('/verif/properties.jsonl'):
    p=json.loads(l)
    if p['id']==sys.argv[1]:
        print("Property %s — %s\n\n%s\n\nQuantified over: %s" % (p['id'], p['title'], p['statement'], p['quantifier']['text'] if isinstance(p['quantifier'], dict) else p['quantifier']))
PY
)
python3 - "$PID" "$WT" "$TEXT" "$W" <<'PY'
import sys
pid,wt,text,w=sys.argv[1:5]
s=open('/verif/docs/SEEDER.md').read()
s=s.replace('WORKTREE',wt).replace('PROPERTY_TEXT',text).replace('seed-PID-m1','seed-%s-m%d'%(pid,2*int(w)-1)).replace('seed-PID-m2','seed-%s-m%d'%(pid,2*int(w))).replace('"PID"','"%s"'%pid)
s+="\nAdditional requirement for diversity: the two mutants must be in different source files, and at least one of them should sit in code that is NOT the most obvious place for this property (an indirect cause: a helper, a comparison operator, a copy/merge/remap routine, a cache, a flag default, an escaping routine, a lookup) so that its effect on the property is a consequence rather than the direct edit. Do not delete or modify device nodes such as /dev/full (use a symlink to them if a tool may unlink its output).\n"
open('/tmp/seed-%s.brief.txt'%pid,'w').write(s)
PY
echo "$WT /tmp/seed-$PID.brief.txt"
