#!/bin/bash
# usage: tools/autoabsorb.sh CNN "<seeds>"  -- soak on the unchanged tree; every unlisted key found is added as an open finding
# (to be reviewed afterwards: on the unchanged tree a violation is either a genuine defect or a false alarm of the check).
c=$1
for sd in $2; do
  rm -rf /verif/out/replays/$c
  VERIF_SEED=$sd ./check $c --tier quick > /var/tmp/auto-$c-$sd.log 2>&1; rc=$?
  if [ $rc -eq 1 ]; then
    grep "^VIOLATION" /var/tmp/auto-$c-$sd.log | grep -o "key=$c:[^{]*" | sort -u | sed "s/^/seed=$sd NEW /"
    python3 tools/mkfindings.py $c > /dev/null 2>&1
  elif [ $rc -ne 0 ]; then echo "seed=$sd rc=$rc"; fi
done; echo "auto-done $c"
