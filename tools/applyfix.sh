#!/bin/sh
# usage: tools/applyfix.sh <diff> <commit message file>
# Applies a proposed fix to /repo, runs the pinned test suite on a guard-off build of the working tree,
# commits it as one unguarded "fix:" commit when the 10 tests pass, reverts it otherwise.
set -e
# one fixer at a time: the patch is applied to /repo's working tree while the baseline runs
exec 9>/var/tmp/applyfix.lock; flock 9
D="$1"; M="$2"
cd /repo
git apply --check "$D" || { echo "DOES-NOT-APPLY $D"; exit 3; }
git apply "$D"
if (cd /verif && ./check --baseline > /var/tmp/applyfix.log 2>&1) && grep -q "100% tests passed, 0 tests failed out of 10" /var/tmp/applyfix.log; then
  git add -A src parser-inc cmake 2>/dev/null || git add -A src
  git commit -q -F "$M"
  echo "COMMITTED $(git rev-parse --short HEAD) $D"
else
  git checkout -- . ; git clean -fdq src parser-inc 2>/dev/null || true
  echo "BASELINE-FAILED reverted $D"; tail -20 /var/tmp/applyfix.log
  exit 4
fi
