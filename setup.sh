#!/bin/sh
# Offline setup: build the sanitizer flavours of /repo's working tree and the harness tools.
cd "$(dirname "$0")" && exec ./check --setup
