"""CPython driver for -python-native modules built from natgen/libgen libraries (property C02).

usage: python3 drv_native.py <dir> <model.json> <seed> <nsteps> <mangle 0|1> [<only-group>]
Runs inside an ASan-preloaded interpreter.  Imports <dir>/mod.so, reads the trace of the instrumented C++ bodies
through ctypes.CDLL(mod.__file__), and judges every call against the model:

  names      every model entity is reachable under its C++ name and its camelCase alias
  positive   a call whose arguments correspond category-exactly to >= 1 overload must run an overload of the
             applicable set (exactly the unique one after preferring the nearest class / the non-const member),
             with `this` and the arguments as passed (declared defaults for omitted ones) and must return the value
             / object identity / constness / ownership the body logged
  negative   a call no overload can accept raises TypeError (OverflowError for out-of-range integers) and runs no body
  any call   an exception means no body ran; instances created during a call are destroyed or handed to Python;
             nothing Python does not own is destroyed
  history    after dropping every reference, exactly the library-owned instances are alive

Prints one line "VFRESULT <json>".
"""
import ctypes
import gc
import json
import os
import random
import struct
import sys

INT_RANGE = {"bool": (0, 1), "char": (-128, 127), "signed char": (-128, 127), "unsigned char": (0, 255),
             "short": (-2 ** 15, 2 ** 15 - 1), "unsigned short": (0, 2 ** 16 - 1), "int": (-2 ** 31, 2 ** 31 - 1),
             "unsigned int": (0, 2 ** 32 - 1), "long": (-2 ** 63, 2 ** 63 - 1), "unsigned long": (0, 2 ** 64 - 1),
             "long long": (-2 ** 63, 2 ** 63 - 1), "unsigned long long": (0, 2 ** 64 - 1)}
STRS = ["", "a", "hello world", "x" * 200, "café €", "a\"b\\c", "  lead", "%s%n", "0"]
PY_KEYWORDS = {"False", "None", "True", "and", "as", "assert", "async", "await", "break", "class", "continue", "def", "del",
               "elif", "else", "except", "finally", "for", "from", "global", "if", "import", "in", "is", "lambda",
               "nonlocal", "not", "or", "pass", "raise", "return", "try", "while", "with", "yield"}
import operator as _o
OPNAMES = {"==": "__eq__", "!=": "__ne__", "<": "__lt__", "<=": "__le__", ">": "__gt__", ">=": "__ge__", "+": "__add__",
           "-": "__sub__", "*": "__mul__", "/": "__truediv__", "%": "__mod__", "<<": "__lshift__", ">>": "__rshift__",
           "&": "__and__", "|": "__or__", "^": "__xor__", "neg": "__neg__", "pos": "__pos__", "inv": "__invert__", "[]": "__getitem__",
           "[]c": "__getitem__", "()": "__call__", "cast": "__int__", "float": "__float__", "bool": "__bool__",
           "hash": "__hash__", "repr": "__repr__", "str": "__str__", "len": "__len__", "pow": "__pow__", "ipow": "__ipow__",
           "floordiv": "__floordiv__", "radd": "__radd__", "rsub": "__rsub__", "rmul": "__rmul__", "iter": "__iter__",
           "next": "__next__", "getitem_n": "__getitem__", "setitem_n": "__setitem__", "delitem_n": "__delitem__",
           "+=": "__iadd__", "-=": "__isub__", "*=": "__imul__", "/=": "__itruediv__", "%=": "__imod__",
           "<<=": "__ilshift__", ">>=": "__irshift__", "&=": "__iand__", "|=": "__ior__", "^=": "__ixor__"}
BIN_OPS = {"+": _o.add, "-": _o.sub, "*": _o.mul, "/": _o.truediv, "%": _o.mod, "<<": _o.lshift, ">>": _o.rshift,
           "&": _o.and_, "|": _o.or_, "^": _o.xor, "floordiv": _o.floordiv, "pow": _o.pow,
           "==": _o.eq, "!=": _o.ne, "<": _o.lt, "<=": _o.le, ">": _o.gt, ">=": _o.ge}
ARITH_OPS = ("+", "-", "*", "/", "%", "<<", ">>", "&", "|", "^", "floordiv", "pow")
INP_OPS = {"+=": _o.iadd, "-=": _o.isub, "*=": _o.imul, "/=": _o.itruediv, "%=": _o.imod, "<<=": _o.ilshift,
           ">>=": _o.irshift, "&=": _o.iand, "|=": _o.ior, "^=": _o.ixor, "ipow": _o.ipow}
UN_OPS = {"neg": _o.neg, "inv": _o.invert, "pos": _o.pos, "cast": int, "float": float, "bool": bool, "hash": hash,
          "repr": repr, "str": str, "len": len, "iter": iter, "next": next}
REV_OPS = {"radd": _o.add, "rsub": _o.sub, "rmul": _o.mul}
ONE_ARG_OPS = tuple(BIN_OPS) + tuple(INP_OPS) + tuple(REV_OPS) + ("[]", "[]c", "getitem_n", "delitem_n", "getattr", "delattr")
TWO_ARG_OPS = ("setitem_n", "setattr")
FIXED_ARITY_OPS = tuple(UN_OPS) + ONE_ARG_OPS + TWO_ARG_OPS
CMP_OPS = ("==", "!=", "<", "<=", ">", ">=")


def tkind(t):
    k = t["k"]
    if k == "obj":
        return "obj:" + t["mode"]
    if k in ("int", "float"):
        return t["c"]
    if k == "enum":
        return "enum-scoped" if t.get("scoped") else "enum"
    if k == "string":
        return "string-ref" if t.get("ref") else "string"
    return k


def tcat(t):
    k = t["k"]
    return {"int": "int", "float": "float", "enum": "enum", "string": "str", "cstr": "str", "bool": "bool", "obj": "obj",
            "void": "void"}[k]


def camel(name):
    out, up = "", False
    for ch in name:
        if ch in "_ ":
            up = True
        elif up:
            out += ch.upper()
            up = False
        else:
            out += ch
    return out


def camel_class(name):
    out, up = "", True
    for ch in name:
        if ch in "_ ":
            up = True
        elif up:
            out += ch.upper()
            up = False
        else:
            out += ch
    return out


def dbits(v):
    return "f%016x" % struct.unpack("<Q", struct.pack("<d", float(v)))[0]


def f32(v):
    return ctypes.c_float(v).value


class Tr:
    """one tracked Python wrapper"""
    __slots__ = ("w", "cls", "iid", "owned", "const", "owner")

    def __init__(self, w, cls, iid, owned, const, owner):
        self.w, self.cls, self.iid, self.owned, self.const, self.owner = w, cls, iid, owned, const, owner


class Arg:
    __slots__ = ("c", "v", "t", "extra")

    def __init__(self, c, v=None, t=None, extra=None):
        self.c, self.v, self.t, self.extra = c, v, t, extra      # t: Tr for instances

    def py(self):
        if self.c == "obj":
            return self.t.w
        if self.c == "tuple":
            return tuple(e.py() for e in self.extra)
        return self.v

    def cat(self):
        if self.c == "obj":
            return "instance" + ("-const" if self.t.const else "")
        return self.c

    def desc(self):
        if self.c == "obj":
            return f"<{self.t.cls} iid={self.t.iid}{' const' if self.t.const else ''}>"
        if self.c == "junk":
            return self.extra
        if self.c == "tuple":
            return "(" + ", ".join(e.desc() for e in self.extra) + ")"
        r = repr(self.v)
        return r if len(r) < 60 else r[:57] + "..."


class Driver:
    def __init__(self, d, model, seed, nsteps, mangle, only=None):
        self.d = d
        self.m = model
        self.rng = random.Random(seed)
        self.nsteps = nsteps
        self.mangle = mangle
        self.only = only
        self.viol = []
        self.vkeys = set()
        self.features = set()
        self.counts = {}
        self.progress_fd = os.open(os.environ.get("VF_PROGRESS") or os.path.join(d, "progress.txt"),
                                   os.O_WRONLY | os.O_CREAT | os.O_TRUNC)
        sys.path.insert(0, d)
        self.step("import")
        import mod
        self.mod = mod
        self.lib = ctypes.CDLL(mod.__file__)
        self.lib.vf_trace_dump.restype = ctypes.c_char_p
        self.lib.vf_iid.restype = ctypes.c_int
        self.lib.vf_iid.argtypes = [ctypes.c_void_p]
        self.classes = {c["qname"]: c for c in model["classes"]}
        self.enums = {e["qname"]: e for e in model["enums"]}
        self.copy_eids = {c["copy_ctor"]["eid"]: c["qname"] for c in model["classes"]}
        self.ctor_eids = {}
        for c in model["classes"]:
            for f in c["ctors"]:
                self.ctor_eids[f["eid"]] = f
        self.anc = {q: self.ancestors(q) for q in self.classes}
        self.none_returns = 0
        # bodies CPython / the runtime itself consults on an instance passed as argument: __len__ / __bool__ (truth
        # testing), __float__, __int__ (number conversion), __getattr__ (the `value` attribute read for enum parameters)
        self.size_eids = {f["eid"] for c in model["classes"] for f in c["methods"]
                          if f.get("operator") in ("len", "bool", "float", "cast", "getattr")}
        self.ctxkey = None
        self.prestate = {}
        self.pyclass = {}
        self.pool = []
        self.live = {}       # iid -> dynamic class (from C/D events)
        self.baseline = set()
        self.py_owned = set()   # iids Python owns (constructed / returned by value)
        self.destroyed_twice = []
        self.statefn = {}
        self.enum_py = {}
        self.missing = set()

    # ------------------------------------------------------------------ infrastructure
    def step(self, text):
        os.lseek(self.progress_fd, 0, 0)
        os.ftruncate(self.progress_fd, 0)
        os.write(self.progress_fd, text.encode("utf-8", "replace")[:2000])

    def count(self, k, n=1):
        self.counts[k] = self.counts.get(k, 0) + n

    def bad(self, key, **kw):
        if self.ctxkey and key.split(":")[0] in ("wrong-overload", "positive-rejected", "no-typeerror", "this-mismatch", "wrong-exception", "arg-mismatch"):
            key = self.ctxkey
        if key in self.vkeys:
            return
        self.vkeys.add(key)
        if len(self.viol) < 60:
            self.viol.append([key, {k: (v if isinstance(v, (int, float, str, list, dict, type(None))) else repr(v)) for k, v in kw.items()}])

    def ancestors(self, q):
        """ancestor qnames with inheritance distance (minimum over paths)"""
        out = {}
        todo = [(q, 0)]
        while todo:
            c, dist = todo.pop()
            for b in self.classes[c]["bases"]:
                bq = b["qname"]
                if bq in self.classes and (bq not in out or out[bq] > dist + 1):
                    out[bq] = dist + 1
                    todo.append((bq, dist + 1))
        return out

    def isa(self, q, base):
        return q == base or base in self.anc[q]

    def raw_trace(self):
        s = self.lib.vf_trace_dump()
        return [l for l in (s or b"").decode("utf-8", "replace").split("\n") if l]

    def trace(self):
        """read + clear the trace; maintain the instance ledger; returns (events, created, destroyed)"""
        lines = self.raw_trace()
        ev, created, destroyed = [], [], []
        for l in lines:
            if l[0] == "E":
                parts = l.split()
                ev.append((int(parts[1]), dict(p.split("=", 1) for p in parts[2:]), l))
            elif l[0] == "C":
                _, iid, cls, how = l.split()
                iid = int(iid)
                if how == "new":
                    created.append(iid)
                self.live[iid] = cls
            elif l[0] == "D":
                _, iid, cls = l.split()
                iid = int(iid)
                if iid in self.live:
                    del self.live[iid]
                else:
                    self.destroyed_twice.append(iid)
                destroyed.append(iid)
        for iid in created:
            # a sub-object registered by a base-class constructor is merged into the complete object's id
            if iid in self.live and not self.lib.vf_iid_live(iid):
                del self.live[iid]
        return ev, created, destroyed

    def iid(self, w):
        return self.lib.vf_iid(ctypes.c_void_p(w.this))

    def pending(self):
        """an exception left set by a wrapper that nevertheless returned normally (cleared here)"""
        try:
            ctypes.pythonapi.PyErr_Occurred()      # a PyDLL call raises whatever exception is pending
        except BaseException as ex:                # noqa
            return type(ex).__name__
        return None

    def state(self, q, w):
        f = self.statefn.get(q)
        if f is None:
            f = getattr(self.lib, "vf_state_" + q.replace("::", "_"))
            f.restype = ctypes.c_ulonglong
            f.argtypes = [ctypes.c_void_p]
            self.statefn[q] = f
        return f(w.this)

    def pycls(self, q):
        if q not in self.pyclass:
            o = self.mod
            for part in q.split("::"):
                o = getattr(o, part)
            self.pyclass[q] = o
        return self.pyclass[q]

    def cls_of_wrapper(self, w):
        for q in self.classes:
            try:
                if type(w) is self.pycls(q):
                    return q
            except AttributeError:
                pass
        return None

    # ------------------------------------------------------------------ names
    def py_names(self, cpp, kind):
        """documented Python names of a C++ name: (C++ name, camelCase alias), keywords prefixed"""
        if kind == "class":
            a, b = cpp, camel_class(cpp)
        else:
            a, b = cpp, camel(cpp)
        if not self.mangle:
            b = a
        fix = lambda n: "_" + n if n in PY_KEYWORDS else n
        return fix(a), fix(b)

    def has_name(self, owner, name, own_dict=False):
        try:
            if own_dict:
                return name in owner.__dict__
            getattr(owner, name)
            return True
        except AttributeError:
            return False

    def check_names(self):
        mod = self.mod

        def need(owner, cpp, kind, where, own_dict=False):
            a, b = self.py_names(cpp, "class" if kind in ("class", "enum-value", "constant") else kind)
            self.count("names_checked")
            self.features.add("name:" + kind)
            kw = cpp in PY_KEYWORDS
            if not self.has_name(owner, a, own_dict):
                self.missing.add((where, cpp))
                self.bad(f"name-missing:kind={kind},alias={'keyword' if kw else 'cpp'}", entity=where + cpp, expected=a,
                         present=[n for n in dir(owner) if cpp.strip('_').lower() in n.lower()][:6])
            elif b != a and not self.has_name(owner, b, own_dict):
                self.missing.add((where, cpp))
                self.bad(f"name-missing:kind={kind},alias=camel", entity=where + cpp, expected=b)
        for c in self.m["classes"]:
            try:
                pc = self.pycls(c["qname"])
            except AttributeError:
                self.bad("name-missing:kind=class" + (",nested" if c.get("nested_in") or c.get("ns") else ""), entity=c["qname"])
                continue
            self.count("names_checked")
            self.features.add("name:class" + (":nested" if "::" in c["qname"] else ""))
            for f in c["methods"]:
                if f.get("operator"):
                    dn = OPNAMES.get(f["operator"])
                    if dn is None:
                        continue
                    self.count("names_checked")
                    self.features.add("name:operator:" + f["operator"])
                    if dn not in pc.__dict__:
                        self.bad("name-missing:kind=operator,op=" + f["operator"], entity=f["qname"], expected=dn)
                    if f.get("item_ref") and "__setitem__" not in pc.__dict__:
                        self.bad("name-missing:kind=operator,op=[]=", entity=f["qname"], expected="__setitem__")
                else:
                    need(pc, f["name"], "static" if f["static"] else "method", c["qname"] + "::")
            for p in c["properties"]:
                self.count("names_checked")
                self.features.add("name:property")
                if not self.has_name(pc, p["name"]):
                    self.bad("name-missing:kind=property,alias=cpp", entity=p["qname"])
            for s in c["seqs"]:
                need(pc, s["name"], "sequence", c["qname"] + "::")
            for s in c.get("seq_properties", []):
                self.count("names_checked")
                self.features.add("name:seq-property")
                if not self.has_name(pc, s["name"]):
                    self.bad("name-missing:kind=seq-property,alias=cpp", entity=s["qname"])
            for mm in c["members"]:
                if mm["array"]:
                    continue      # arrays of simple types have no representation in this back-end (no wrapper is generated)
                self.count("names_checked")
                kind = "static-member" if mm["static"] else "array-member" if mm["array"] else "const-member" if mm["const"] else "member"
                self.features.add("name:" + kind)
                if not self.has_name(pc, mm["name"]):
                    self.bad(f"name-missing:kind={kind},alias=cpp", entity=mm["qname"])
        for e in self.m["enums"]:
            owner = self.pycls(e["owner"]) if e["owner"] and e["owner"] in self.classes else mod
            if e["owner"] and e["owner"] not in self.classes:
                continue
            if e["scoped"]:
                self.count("names_checked")
                self.features.add("name:scoped-enum")
                if not self.has_name(owner, e["name"]):
                    self.bad("name-missing:kind=scoped-enum" + (",nested" if e["owner"] else ""), entity=e["qname"])
                    continue
                et = getattr(owner, e["name"])
                self.enum_py[e["qname"]] = et
                for mb in e["members"]:
                    self.count("names_checked")
                    try:
                        v = getattr(et, mb["name"]).value
                        if v != mb["value"]:
                            self.bad("enum-value-mismatch:scoped", entity=mb["qname"], expected=mb["value"], got=v)
                    except AttributeError:
                        self.bad("name-missing:kind=scoped-enum-value", entity=mb["qname"])
            else:
                for mb in e["members"]:
                    a, b = self.py_names(mb["name"], "class")
                    self.count("names_checked")
                    self.features.add("name:enum-value")
                    for n, al in ((a, "cpp"), (b, "camel")):
                        if not self.has_name(owner, n):
                            self.bad(f"name-missing:kind=enum-value,alias={al}" + (",nested" if e["owner"] else ""), entity=mb["qname"], expected=n)
                        elif getattr(owner, n) != mb["value"]:
                            self.bad("enum-value-mismatch:unscoped", entity=mb["qname"], expected=mb["value"], got=repr(getattr(owner, n)))
        for f in self.m["functions"]:
            need(mod, f["name"], "function", "")
        for k in self.m.get("constants", []):
            a, b = self.py_names(k["name"], "class")
            self.count("names_checked")
            self.features.add("name:constant")
            for n, al in ((a, "cpp"), (b, "camel")):
                if not self.has_name(mod, n):
                    self.bad(f"name-missing:kind=constant,alias={al}", entity=k["name"], expected=n)
                elif getattr(mod, n) != k["value"]:
                    self.bad("constant-value-mismatch", entity=k["name"], expected=k["value"], got=repr(getattr(mod, n)))

    # ------------------------------------------------------------------ groups (what a Python name can dispatch to)
    def build_groups(self):
        """callable groups: dict key -> dict(kind, owner, name, fns)"""
        self.groups = {}
        for f in self.m["functions"]:
            g = self.groups.setdefault(("free", None, f["name"]), dict(kind="free", owner=None, name=f["name"], fns=[]))
            g["fns"].append(f)
        for c in self.m["classes"]:
            q = c["qname"]
            fns = list(c["ctors"])
            cc = dict(c["copy_ctor"])
            cc.update(params=[dict(name="vf_o", type=dict(k="obj", cls=q, mode="cref"), default=None, default_value=None)],
                      ret=dict(k="void"), const=False, static=False, kind="ctor", copy=True)
            fns.append(cc)
            self.groups[("ctor", q, q)] = dict(kind="ctor", owner=q, name=c["name"], fns=fns)
            for f in c["methods"]:
                key = ("op" if f.get("operator") else "method", q, f["name"])
                g = self.groups.setdefault(key, dict(kind=key[0], owner=q, name=f["name"], fns=[]))
                g["fns"].append(f)
        # property / sequence helper functions are ordinary methods too (already included)

    def lookup(self, q, name):
        """C++ name lookup of a member name starting at class q: the defining class, or None if ambiguous/absent"""
        if ("method", q, name) in self.groups:
            return q
        if ("op", q, name) in self.groups:
            return q
        found = set()
        for b in self.classes[q]["bases"]:
            if b["qname"] in self.classes:
                r = self.lookup(b["qname"], name)
                if r == "?":
                    return "?"
                if r:
                    found.add(r)
        if len(found) > 1:
            return "?"
        return found.pop() if found else None

    def final_overriders(self, f, dyn):
        """eids that virtual dispatch of f on an object of dynamic class dyn may reach"""
        if not f.get("virtual") or dyn not in self.classes:
            return {f["eid"]}
        S = f["cls"]
        sig = [json.dumps(p["type"], sort_keys=True) for p in f["params"]]
        cands = []
        for q in [dyn] + list(self.anc[dyn]):
            if not self.isa(q, S):
                continue
            for m in self.classes[q]["methods"]:
                if m["name"] == f["name"] and [json.dumps(p["type"], sort_keys=True) for p in m["params"]] == sig and \
                        m.get("const") == f.get("const"):
                    cands.append((q, m))
        best = [(q, m) for q, m in cands if not any(q2 != q and self.isa(q2, q) for q2, _ in cands)]
        return {m["eid"] for _, m in best} or {f["eid"]}

    # ------------------------------------------------------------------ acceptability of one argument for one parameter
    def coercible(self, K, a=None, depth=0):
        """may a converting constructor of K take argument a?  (bool parameters take anything)"""
        c = self.classes.get(K)
        if not c:
            return False
        for f in c["ctors"]:
            ps = f["params"]
            if f.get("explicit") or not ps or any(p["default"] is None for p in ps[1:]):
                continue
            if a is None or depth > 0:
                return True
            t = ps[0]["type"]
            if t["k"] == "obj":
                if a.c in ("obj", "none") or self.coercible(t["cls"], a, depth + 1):
                    return True
            elif self.acc(a, t) != "no":
                return True
        return False

    def tuple_coercible(self, K, a):
        """may a (non-explicit) multi-parameter constructor of K take the elements of tuple a?"""
        c = self.classes.get(K)
        n = len(a.extra)
        if not c:
            return False
        if n <= 1:
            return self.coercible(K)
        for f in c["ctors"]:
            ps = f["params"]
            if f.get("explicit") or len(ps) < n or any(p["default"] is None for p in ps[n:]):
                continue
            if all(self.acc(e, p["type"]) != "no" for e, p in zip(a.extra, ps)):
                return True
        return False

    def acc(self, a, t):
        k = t["k"]
        c = a.c
        if c == "tuple":
            if k == "bool":
                return "maybe"
            if k == "obj":
                return "maybe" if self.tuple_coercible(t["cls"], a) else "no"
            return "no"
        if k == "bool":
            return "yes" if c == "bool" else "maybe"
        if k == "int":
            lo, hi = INT_RANGE[t["c"]]
            if c == "int":
                return "yes" if lo <= a.v <= hi else "oor"
            if c == "bool":
                return "yes"
            if c in ("float", "enum", "obj"):
                return "maybe"
            return "no"
        if k == "enum":
            e = self.enums[t["name"]]
            if t.get("scoped"):
                if c == "enum":
                    return "yes" if a.extra == t["name"] else "maybe"
                if c in ("int", "bool"):
                    return "maybe"
                if c == "obj" and any(m.get("operator") == "getattr" for qq in [a.t.cls] + list(self.anc[a.t.cls])
                                      for m in self.classes[qq]["methods"]):
                    return "maybe"      # enum parameters read the argument's `value` attribute (duck typing)
                return "no"
            if c == "int":
                if a.v in [mb["value"] for mb in e["members"]]:
                    return "yes"
                return "maybe" if -2 ** 31 <= a.v < 2 ** 31 else "oor"
            if c == "bool":
                return "yes"
            if c in ("float", "enum", "obj"):
                return "maybe"
            return "no"
        if k == "float":
            if c in ("float", "bool"):
                return "yes"      # bool: not a listed correspondence -> never preferred, never excluded
            if c in ("int", "obj", "enum"):
                return "maybe"
            return "no"
        if k in ("string", "cstr"):
            if c == "str":
                return "yes"
            if c == "bytes":
                return "maybe"
            if c == "none":
                return "maybe" if k == "cstr" else "no"
            return "no"
        if k == "obj":
            K, mode = t["cls"], t["mode"]
            if c == "obj":
                if self.isa(a.t.cls, K):
                    if a.t.const and mode in ("ptr", "ref"):
                        return "no"
                    if mode == "val" and a.t.cls != K:
                        return "maybe"
                    return "yes"
                return "maybe" if self.coercible(K, a) else "no"
            if c == "none" and mode in ("ptr", "cptr"):
                return "maybe"
            return "maybe" if self.coercible(K, a) else "no"
        raise KeyError(k)

    def logtok(self, a, t):
        """what the body logs for a category-exact argument"""
        k = t["k"]
        if k == "bool":
            return "u" + str(int(bool(a.v)))
        if k == "int":
            lo, hi = INT_RANGE[t["c"]]
            return ("i" if lo < 0 else "u") + str(int(a.v))
        if k == "enum":
            return "i" + str(a.v.value if a.c == "enum" else int(a.v))
        if k == "float":
            v = float(a.v)
            return dbits(f32(v) if t["c"] == "float" else v)
        if k in ("string", "cstr"):
            return "s" + a.v.encode("utf-8").hex()
        if k == "obj":
            if t["mode"] == "val":
                pre = self.prestate.get((id(a.t), t["cls"]))
                return "v" + str(pre if pre is not None else self.state(t["cls"], a.t.w))
            return "o" + str(a.t.iid)
        raise KeyError(k)

    def default_tok(self, p):
        t, dv = p["type"], p["default_value"]
        k = t["k"]
        if k == "bool":
            return "u" + str(int(dv))
        if k == "int":
            lo, hi = INT_RANGE[t["c"]]
            return ("i" if lo < 0 else "u") + str(int(dv))
        if k == "enum":
            return "i" + str(int(dv))
        if k == "float":
            return dbits(f32(float(dv)) if t["c"] == "float" else float(dv))
        return "s" + dv.encode("utf-8").hex()

    # ------------------------------------------------------------------ argument construction
    def pick_obj(self, K, want_nonconst=False, exact=False):
        c = [t for t in self.pool if (t.cls == K if exact else self.isa(t.cls, K)) and not (want_nonconst and t.const)]
        return self.rng.choice(c) if c else None

    def good_arg(self, t):
        """a category-exact argument for parameter type t (None when no instance is available)"""
        r = self.rng
        k = t["k"]
        if k == "int":
            lo, hi = INT_RANGE[t["c"]]
            return Arg("int", r.choice([lo, lo + 1, -1 if lo < 0 else 0, 0, 1, hi - 1, hi, r.randint(lo, hi), r.randint(lo, hi),
                                        r.randint(max(lo, -300), min(hi, 300))]))
        if k == "bool":
            return Arg("bool", r.choice([True, False]))
        if k == "float":
            if t["c"] == "float":
                return Arg("float", r.choice([0.0, -0.0, 1.5, -2.25, 3.4028234663852886e38, 1.401298464324817e-45, 16777216.0,
                                              r.randint(-10 ** 6, 10 ** 6) / 8.0]))
            return Arg("float", r.choice([0.0, -0.0, 1.5, 1e308, 5e-324, 0.1, -123456.789, r.random() * 1e9]))
        if k == "enum":
            e = self.enums[t["name"]]
            mb = r.choice(e["members"])
            if t.get("scoped"):
                et = self.enum_py.get(t["name"])
                if et is None:
                    return None
                return Arg("enum", getattr(et, mb["name"]), extra=t["name"])
            return Arg("int", mb["value"])
        if k in ("string", "cstr"):
            return Arg("str", r.choice(STRS))
        if k == "obj":
            o = self.pick_obj(t["cls"], want_nonconst=t["mode"] in ("ptr", "ref"), exact=(t["mode"] == "val"))
            return Arg("obj", t=o) if o else None
        raise KeyError(k)

    def junk_scalar(self):
        r = self.rng
        return r.choice([Arg("int", r.choice([0, 1, -1, 255, 70000])), Arg("float", 1.5), Arg("str", r.choice(STRS)),
                         Arg("bool", True)])

    def junk_arg(self):
        r = self.rng
        x = r.randrange(9)
        if x == 0:
            return Arg("junk", object(), extra="object()")
        if x == 1:
            return Arg("junk", {"a": 1}, extra="dict")
        if x == 2:
            return Arg("none", None)
        if x == 3:
            return Arg("bytes", r.choice([b"", b"abc", b"\xff\x00z"]))
        if x == 4:
            if r.random() < 0.5:
                return Arg("tuple", extra=[self.junk_scalar() for _ in range(r.choice([0, 1, 2, 2, 3]))])
            return Arg("junk", [1, 2], extra="list")
        if x == 5 and self.pool:
            return Arg("obj", t=r.choice(self.pool))
        if x == 6:
            return Arg("float", r.choice([1.5, -0.0, 1e300]))
        if x == 7:
            return Arg("str", r.choice(STRS))
        return Arg("int", r.choice([0, 1, -1, 255, 256, 2 ** 31, 2 ** 63, 2 ** 64, -2 ** 63 - 1, 2 ** 70, -2 ** 70, 65536, -129]))

    # ------------------------------------------------------------------ judging one call
    def bind(self, f, args, kw):
        """positions -> Arg for overload f, or None when the arity / keyword names do not fit"""
        ps = f["params"]
        if len(args) > len(ps):
            return None
        slots = list(args) + [None] * (len(ps) - len(args))
        for name, a in kw.items():
            idx = next((i for i, p in enumerate(ps) if p["name"] == name), None)
            if idx is None or slots[idx] is not None:
                return None
            slots[idx] = a
        for i, s in enumerate(slots):
            if s is None and ps[i]["default"] is None:
                return None
        return slots

    def status(self, f, args, kw, recv):
        """'yes' | 'maybe' | 'no' | 'oor' for overload f"""
        slots = self.bind(f, args, kw)
        if slots is None:
            return "no", None
        if recv is not None and recv.const and not f.get("const") and f.get("kind") == "method" and not f.get("static"):
            return "no", slots
        st = "yes"
        for s, p in zip(slots, f["params"]):
            if s is None:
                continue
            a = self.acc(s, p["type"])
            if a == "no":
                return "no", slots
            if a == "oor":
                st = "oor"
            elif a == "maybe" and st == "yes":
                st = "maybe"
        return st, slots

    def refine(self, cands, recv):
        """cands: [(f, slots)] all category-exact; keep what C++ overload resolution cannot rule out"""
        def dist(f, slots):
            out = []
            for s, p in zip(slots, f["params"]):
                if s is not None and s.c == "obj" and p["type"]["k"] == "obj":
                    out.append(0 if s.t.cls == p["type"]["cls"] else self.anc[s.t.cls].get(p["type"]["cls"], 99))
                else:
                    out.append(0)
            return out
        # const / non-const pairs: a non-const receiver selects the non-const member
        if recv is not None and not recv.const and not any(f.get("operator") in ("[]", "[]c") for f, _ in cands):
            # (operator []: the non-const int& member only serves item assignment in Python; reads may use either)
            keep = []
            for f, s in cands:
                twin = any(g is not f and not g.get("const") and f.get("const") and
                           [p["type"] for p in g["params"]] == [p["type"] for p in f["params"]] for g, _ in cands)
                if not twin:
                    keep.append((f, s))
            cands = keep
        if len(cands) > 1 and any(f.get("copy") for f, _ in cands):
            # K(const K &) against K(Base *): an object against a pointer has no common ranking in C++ (Python has one
            # kind of instance argument for both) -> no preference expressed
            return cands
        # bool arguments also fit integer parameters: only equal-rank alternatives remain, no preference expressed
        def better(i, j):
            """overload i is a better match than j: at every object position its class equals or derives from j's, and
            differs somewhere (C++ ranks derived-to-base conversions only along one inheritance path)"""
            (f, s), (g, s2) = cands[i], cands[j]
            if len(f["params"]) != len(g["params"]):
                return False
            strict = False
            for a_, p, p2 in zip(s, f["params"], g["params"]):
                if a_ is not None and a_.c == "obj" and p["type"]["k"] == "obj" and p2["type"]["k"] == "obj":
                    c1, c2 = p["type"]["cls"], p2["type"]["cls"]
                    if c1 == c2:
                        continue
                    if self.isa(c1, c2):
                        strict = True
                    else:
                        return False
                elif p["type"] != p2["type"]:
                    return False
            return strict
        keep = [cands[i] for i in range(len(cands)) if not any(better(j, i) for j in range(len(cands)) if j != i)]
        return keep

    def snapshot(self, recv, args, kw):
        out = []
        for t in [recv] + [a.t for a in list(args) + list(kw.values()) if a.c == "obj"]:
            if t is not None:
                out.append((t, self.state(t.cls, t.w)))
        return out

    def call(self, g, recv, args, kw, invoke, what, dyn_cls=None):
        """perform one call of group g and judge it.  invoke(pyargs, pykw) does the Python-level call."""
        rng = self.rng
        fns = g["fns"]
        sts = [(f,) + self.status(f, args, kw, recv) for f in fns]
        yes = [(f, sl) for f, st, sl in sts if st == "yes"]
        maybe = [f for f, st, sl in sts if st == "maybe"]
        oor = [f for f, st, sl in sts if st == "oor"]
        if yes:
            mode = "positive"
            cands = self.refine(yes, recv)
        elif maybe:
            mode = "unspecified"
        else:
            mode = "negative"
        if mode == "negative" and fns[0].get("operator") in CMP_OPS and any(a.c == "obj" for a in args):
            # every wrapped instance is comparable by address (DTOOL_SUPER_BASE) and Python asks the right operand's
            # reflected operator when the left one declines: comparisons between unrelated instances are not judged
            mode = "unspecified"
        any_oor = any(s_ is not None and self.acc(s_, p_["type"]) == "oor"
                      for f_, st_, sl_ in sts if sl_ for s_, p_ in zip(sl_, f_["params"]))
        if not any_oor:
            # integers inside a tuple meet the range checks of the constructors the tuple could be unpacked into
            for f_, st_, sl_ in sts:
                for s_, p_ in zip(sl_ or [], f_["params"]):
                    if s_ is not None and s_.c == "tuple" and p_["type"]["k"] == "obj" and p_["type"]["cls"] in self.classes:
                        for cf_ in self.classes[p_["type"]["cls"]]["ctors"]:
                            if len(cf_["params"]) >= len(s_.extra) and any(
                                    e_.c == "int" and self.acc(e_, cp_["type"]) == "oor" for e_, cp_ in zip(s_.extra, cf_["params"])):
                                any_oor = True
        argdesc = [a.desc() for a in args] + [f"{k}={a.desc()}" for k, a in kw.items()]
        callsig = f"{what}({', '.join(argdesc)})" + (f" on <{recv.cls} iid={recv.iid}{' const' if recv.const else ''}>" if recv else "")
        self.step(f"{mode} {g['kind']} {g['owner']}::{g['name']} {callsig}")
        snap = self.snapshot(recv, args, kw)
        self.prestate = {}
        for a_ in list(args) + list(kw.values()):
            if a_.c == "obj":
                for f_ in fns:
                    for p_ in f_["params"]:
                        if p_["type"]["k"] == "obj" and p_["type"]["mode"] == "val" and self.isa(a_.t.cls, p_["type"]["cls"]) \
                                and a_.t.cls == p_["type"]["cls"]:
                            self.prestate[(id(a_.t), p_["type"]["cls"])] = self.state(a_.t.cls, a_.t.w)
        pyargs = [a.py() for a in args]
        pykw = {k: a.py() for k, a in kw.items()}
        self.trace()
        exc = None
        excmsg = ""
        res = None
        pend = None
        none_rc = None
        try:
            try:
                rc0 = sys.getrefcount(None)
                res = invoke(pyargs, pykw)
                none_rc = sys.getrefcount(None) - rc0
            except Exception as ex:      # noqa: any exception type is data here
                exc = type(ex).__name__
                excmsg = str(ex)[:200]
            # a wrapper that returned normally but left an exception set: it surfaces at the next dictionary lookup
            pyargs = pykw = None
            pend = self.pending()
        except BaseException as ex:      # noqa
            if exc is None:
                pend = type(ex).__name__
            else:
                raise
        ev, created, destroyed = self.trace()
        self.count("calls")
        self.count("calls_" + mode)
        own_eids = {f["eid"] for f in fns}
        main = [(eid, fl, l) for eid, fl, l in ev if eid not in self.copy_eids or eid in own_eids]
        # implementation temporaries: a default-constructed local for a coercible parameter class (constructed and
        # destroyed inside the call), and size() consulted by the sequence protocol before operator []
        tol = []
        for e in list(main):
            eid, fl, l = e
            cf_ = self.ctor_eids.get(eid)
            if cf_ is not None and not cf_["params"]:
                ti = int(fl.get("this", 0))
                if ti in created and ti in destroyed:
                    main.remove(e)
                    tol.append(e)
                    self.count("coercion_temporaries")
            elif cf_ is not None and exc is not None and eid not in own_eids and len(cf_["params"]) >= 1 and not cf_.get("explicit"):
                # a converting constructor that built a temporary from the very value passed (and destroyed it) before
                # the call was rejected for another reason changed no object
                ti = int(fl.get("this", 0))
                t0 = cf_["params"][0]["type"]
                conv = {fl2.get("r") for e2, fl2, _ in ev if e2 in self.size_eids}

                def same_value(a_):
                    if t0["k"] == "bool":
                        # K(bool) takes the truth value of whatever was passed
                        try:
                            return fl.get("a0") == "u%d" % int(bool(a_.py()))
                        except Exception:     # noqa
                            return False
                    if a_.c == "obj":
                        return fl.get("a0") in conv      # the instance's own __float__ / __int__ result
                    if a_.c in ("tuple", "junk", "none"):
                        return False
                    if t0["k"] == "float" and a_.c in ("int", "bool", "float"):
                        try:
                            return dbits(f32(float(a_.v)) if t0["c"] == "float" else float(a_.v)) == fl.get("a0")
                        except OverflowError:
                            return False
                    return self.acc(a_, t0) == "yes" and self.logtok(a_, t0) == fl.get("a0")
                if ti in created and ti in destroyed and any(same_value(a_) for a_ in list(args) + list(kw.values())):
                    main.remove(e)
                    tol.append(e)
                    self.count("coercion_temporaries")
            elif eid in self.size_eids and eid not in own_eids:
                # size() is __len__: consulted by the sequence protocol before operator [] and by truth testing of an
                # instance passed for a bool parameter
                main.remove(e)
        kindsig = g["kind"] + ("-static" if fns[0].get("static") else "")
        argcats = ",".join([a.cat() for a in args] + [k_ + "=" + a.cat() for k_, a in sorted(kw.items())]) if not kw else \
            ",".join([a.cat() for a in args] + ["kw=" + a.cat() for _, a in sorted(kw.items())])
        if none_rc is not None and exc is None and res is None:
            self.none_returns += 1
        if pend and exc is None:
            why = "args=" + argcats.replace("-const", "")
            for f_, st_, sl_ in sts:
                if st_ == "oor":
                    for s_, p_ in zip(sl_, f_["params"]):
                        if s_ is not None and self.acc(s_, p_["type"]) == "oor":
                            why = "arg=int-out-of-range"
            if g["kind"] == "op" and (fns[0].get("operator") in ARITH_OPS or fns[0].get("operator") in INP_OPS
                                      or fns[0].get("operator") in REV_OPS):
                why += ":binary-operator"
            self.bad(f"returned-with-exception-set:exc={pend}:{why}", call=callsig,
                     trace=[l for _, _, l in ev][:4], returned=repr(res)[:60])
            res = None
            gc.collect()
            ev2, c2, d2 = self.trace()
            destroyed += d2
            exc = pend
            main = []        # already reported; the body-ran rule would only repeat it
        # ---- rule for every call: an exception means no body ran, and nothing changed
        if exc is not None:
            if main:
                f_ran = next((f for f in self.all_fns() if f["eid"] == main[0][0]), None)
                why = "?"
                sl_ = self.bind(f_ran, args, kw) if f_ran and f_ran in fns else None
                if sl_:
                    for s_, p_ in zip(sl_, f_ran["params"]):
                        if s_ is not None and self.acc(s_, p_["type"]) != "yes":
                            if self.acc(s_, p_["type"]) == "oor":
                                why = "arg=int-out-of-range"
                            else:
                                why = f"param={tcat(p_['type'])},arg={s_.cat().replace('-const', '') if s_.c != 'junk' else s_.extra}"
                            break
                elif f_ran is not None and f_ran.get("kind") == "ctor" and f_ran["params"]:
                    # a converting constructor run on the way: judge it like a function with that parameter
                    t0_ = f_ran["params"][0]["type"]
                    why = "coercion-constructor:" + tcat(t0_)
                    for a_ in list(args) + list(kw.values()):
                        if a_.c == "obj" and t0_["k"] != "obj" and self.acc(a_, t0_) == "maybe":
                            why = f"param={tcat(t0_)},arg=instance"
                        elif a_.c != "obj" and self.acc(a_, t0_) == "oor":
                            why = "arg=int-out-of-range"
                self.bad(f"body-ran-but-raised:exc={exc}:{why}", call=callsig, exc=excmsg, trace=[l for _, _, l in ev][:6])
            for t, st in snap:
                if self.state(t.cls, t.w) != st and not main:
                    self.bad(f"state-changed-on-error:kind={kindsig}", call=callsig)
        # ---- ledger for this call
        if mode == "negative" and exc is None and res is not None:
            # a malformed call that succeeded (reported below): whatever it returned is dropped before the ledger is read
            res = None
            gc.collect()
            ev2, c2, d2 = self.trace()
            destroyed += d2
        leaked = [i for i in created if i in self.live]
        result_tr = None
        if mode == "negative":
            self.features.add(f"neg:{kindsig}:{argcats}"[:80])
            if exc is None:
                why = "oor" if oor else "type"
                if oor:
                    pt = next((tkind(p["type"]) for f, st, sl in sts if st == "oor" for s, p in zip(sl, f["params"])
                               if s is not None and self.acc(s, p["type"]) == "oor"), "?")
                    f_ran = next((f for f in fns if main and f["eid"] == main[0][0]), None)
                    if f_ran is not None:
                        rsl = self.bind(f_ran, args, kw) or []
                        pt = next((tkind(p["type"]) for s, p in zip(rsl, f_ran["params"])
                                   if s is not None and self.acc(s, p["type"]) == "oor"), pt)
                    self.bad(f"no-overflowerror:param={pt}", call=callsig, trace=[l for _, _, l in ev][:4], returned=repr(res)[:80])
                else:
                    bads = self.neg_reason(sts, args, kw, recv)
                    m_ = bads.startswith("arg=instance-const,param=obj:")
                    f_ran = next((f for f in fns if main and f["eid"] == main[-1][0]), None)
                    if f_ran is not None and not m_:
                        for s_, p_ in zip(self.bind(f_ran, args, kw) or [], f_ran["params"]):
                            if s_ is not None and s_.c == "obj" and s_.t.const and p_["type"]["k"] == "obj" and \
                                    p_["type"]["mode"] in ("ptr", "ref"):
                                bads = "arg=instance-const,param=" + tkind(p_["type"])
                                m_ = True
                    if m_ and main and any(v_[0] == "o" and v_[1:].isdigit() and int(v_[1:]) in created
                                            for k_, v_ in main[-1][1].items() if k_.startswith("a") and v_):
                        self.bad("const-argument-passed-as-copy:" + bads.split(",")[1], call=callsig, trace=[l for _, _, l in ev][:4])
                    else:
                        self.bad(f"no-typeerror:{bads}", call=callsig, trace=[l for _, _, l in ev][:4], returned=repr(res)[:80])
            else:
                strict = oor and len(fns) == 1 and all(
                    s_ is None or self.acc(s_, p_["type"]) in ("yes", "oor") for s_, p_ in zip(sts[0][2], fns[0]["params"]))
                want = ("OverflowError",) if strict else ("TypeError", "OverflowError") if (oor or any_oor) else ("TypeError",)
                if exc == "IndexError" and g["kind"] == "op":
                    pass
                elif exc not in want:
                    why = self.neg_reason(sts, args, kw, recv, params_only=True)
                    if exc == "AttributeError" and "has no attribute 'value'" in excmsg:
                        why = "param=enum-scoped"      # raised by the enum conversion, whichever argument was malformed
                    elif why.startswith("arg=int-out-of-range"):
                        why = "arg=int-out-of-range"
                    self.bad(f"wrong-exception:got={exc},want={want[0]}:{why}", call=callsig, exc=excmsg)
        elif mode == "positive":
            exp_eids = set()
            for f, sl in cands:
                exp_eids |= self.final_overriders(f, dyn_cls) if recv is not None else {f["eid"]}
            f0, sl0 = cands[0]
            psig = ",".join(tkind(p["type"]) for p in f0["params"])
            self.features.add(f"pos:{kindsig}:{','.join(tcat(p['type']) for p in f0['params'])}:n={len(args)}+{len(kw)}kw" +
                              (":ovl" if len(fns) > 1 else ""))
            for s, p in zip(sl0, f0["params"]):
                self.features.add("param:" + tkind(p["type"]) + (":default-omitted" if s is None else ""))
            if exc is not None:
                if kw and exc == "TypeError" and not main and len(f0["params"]) <= 1:
                    # keyword arguments are a Python-side extension; wrappers of one-parameter functions (METH_O) do
                    # not take them, all others do ("if they take more than one argument, and the arguments are named")
                    self.count("keyword_calls_declined")
                    self.features.add(f"kw-declined:{kindsig}:params={len(f0['params'])}:max={max(len(f_['params']) for f_ in fns)}")
                    if len(f0["params"]) >= 2 and os.environ.get("VF_DEBUG_KW"):
                        sys.stderr.write(f"KWDECL {callsig} :: {excmsg}\n")
                else:
                    sp = self.special(f0, sl0)
                    if f0.get("operator") == "pos":
                        sp = ":operator=unary-plus"
                    if exc == "OverflowError" and any_oor:
                        # the range check of another overload of the set raised instead of letting the next one try
                        pt = next((tkind(p_["type"]) for f_, st_, sl_ in sts if sl_ for s_, p_ in zip(sl_, f_["params"])
                                   if s_ is not None and self.acc(s_, p_["type"]) == "oor"), "?")
                        self.bad("positive-rejected:exc=OverflowError:range-check-of-other-overload", call=callsig, exc=excmsg, param=pt)
                    elif sp:
                        self.bad(f"positive-rejected:exc={exc}{sp}", call=callsig, exc=excmsg)
                    else:
                        self.bad(f"positive-rejected:exc={exc}:kind={kindsig}:params={psig}" + (":kw" if kw else ""),
                                 call=callsig, exc=excmsg)
            elif not main and fns[0].get("operator") in INP_OPS and recv is not None and res is recv.w:
                # the in-place slot handed back the left operand without ever calling the C++ method
                self.bad("inplace-operator-body-not-run:named=" + ("yes" if fns[0]["name"].startswith("__") else "no"),
                         call=callsig)
            elif len(main) != 1 or main[0][0] not in exp_eids:
                ran = [next((f for f in self.all_fns() if f["eid"] == e), None) for e, _, _ in main]
                rans = ";".join(",".join(tcat(p["type"]) for p in f["params"]) if f else "?" for f in ran) or "nothing"
                if len(ran) == 1 and ran[0] in fns:
                    rsl = self.bind(ran[0], args, kw)
                    oorp = [p_ for s_, p_ in zip(rsl or [], ran[0]["params"]) if s_ is not None and self.acc(s_, p_["type"]) == "oor"]
                    if oorp:
                        # an overload whose integer parameter cannot hold the value took it anyway (no range check)
                        self.bad(f"no-overflowerror:param={tkind(oorp[0]['type'])}", call=callsig, trace=[l for _, _, l in ev][:6],
                                 note="taken by an overload whose parameter cannot hold the value, although another overload matches")
                        rans = None
                    elif rsl and any(s_ is not None and s_.c == "int" and p_["type"]["k"] == "float"
                                     for s_, p_ in zip(rsl, ran[0]["params"])) and \
                            all(s_ is None or self.acc(s_, p_["type"]) == "yes" or
                                (s_.c == "int" and p_["type"]["k"] == "float") for s_, p_ in zip(rsl, ran[0]["params"])):
                        # an overload tried earlier took a Python int for a float/double parameter although another
                        # overload matches the integer exactly
                        self.bad("wrong-overload:int-taken-as-float-by-earlier-overload", call=callsig,
                                 expected=",".join(tkind(p["type"]) for p in f0["params"]),
                                 ran=",".join(tkind(p["type"]) for p in ran[0]["params"]), trace=[l for _, _, l in ev][:6])
                        rans = None
                if rans is not None and len(ran) == 1 and ran[0] in fns:
                    rsl = self.bind(ran[0], args, kw)
                    cross = [s_ for s_, p_ in zip(rsl or [], ran[0]["params"]) if s_ is not None and p_["type"]["k"] == "bool"
                             and s_.c != "bool"]
                    if rsl and cross and all(s_ is None or self.acc(s_, p_["type"]) == "yes" or p_["type"]["k"] == "bool" or
                                             (s_.c == "int" and p_["type"]["k"] == "float")
                                             for s_, p_ in zip(rsl, ran[0]["params"])):
                        # an overload tried earlier took an argument of another category for its bool parameter (truth
                        # testing accepts anything) although another overload matches the argument's category exactly
                        self.bad("wrong-overload:arg-taken-as-bool-by-earlier-overload", call=callsig,
                                 expected=",".join(tkind(p["type"]) for p in f0["params"]),
                                 ran=",".join(tkind(p["type"]) for p in ran[0]["params"]), trace=[l for _, _, l in ev][:6])
                        rans = None
                if rans is None:
                    pass
                else:
                    self.bad(f"wrong-overload:nargs={len(args) + len(kw)}:expected={','.join(tcat(p['type']) for p in f0['params'])}"
                             f":ran={rans}", call=callsig, expected_eids=sorted(exp_eids), trace=[l for _, _, l in ev][:6])
            else:
                eid, fl, line = main[0]
                self.count("trace_events_compared")
                f = next(f for f in self.all_fns() if f["eid"] == eid)
                fsl = next((sl for ff, sl in cands if ff is f), None)
                if fsl is None:
                    # an overrider of a candidate: same parameters
                    fsl = sl0
                if recv is not None and g["kind"] != "ctor" and not f.get("static"):
                    if int(fl.get("this", -1)) != recv.iid:
                        self.bad(f"this-mismatch:kind={kindsig}", call=callsig, expected=recv.iid, got=fl.get("this"))
                for i, (s, p) in enumerate(zip(fsl, f["params"])):
                    exp = self.default_tok(p) if s is None else self.logtok(s, p["type"])
                    saw = fl.get("a%d" % i)
                    if saw != exp and s is not None and s.c == "obj" and s.t.const and saw and saw[0] == "o" and \
                            saw[1:].isdigit() and int(saw[1:]) in created:
                        # a const instance reached the body as a temporary copy instead of the object itself
                        self.bad(f"const-argument-passed-as-copy:param={tkind(p['type'])}", call=callsig, expected=exp, body_saw=saw,
                                 trace=[l2 for _, _, l2 in ev][:5])
                        continue
                    if fl.get("a%d" % i) != exp:
                        self.bad(f"{'default' if s is None else 'arg'}-mismatch:param={tkind(p['type'])}" + (":kw" if kw and s is not None else ""),
                                 call=callsig, index=i, expected=exp, body_saw=fl.get("a%d" % i))
                if g["kind"] == "ctor":
                    result_tr = self.check_ctor(f, res, fl, created, callsig)
                else:
                    result_tr = self.check_result(f, res, fl, callsig, recv, args, kw, created)
            if result_tr is None and exc is None and res is not None and (len(main) != 1 or main[0][0] not in exp_eids):
                result_tr = self.adopt(res, callsig)     # whatever the wrong body returned has a lifetime too
        else:
            self.features.add(f"unspec:{kindsig}:{argcats}"[:80])
            if exc is None:
                group_eids = set()
                for f in fns:
                    group_eids |= self.final_overriders(f, dyn_cls) if recv is not None else {f["eid"]}
                for eid, fl, l in main:
                    if eid in group_eids:
                        continue
                    cf = self.ctor_eids.get(eid)
                    if cf is not None:
                        if cf.get("explicit") and g["kind"] != "ctor":
                            self.bad("explicit-ctor-used-for-coercion", call=callsig, trace=[l2 for _, _, l2 in ev][:6])
                        continue
                    if fns[0].get("operator") in BIN_OPS or fns[0].get("operator") in INP_OPS or fns[0].get("operator") in REV_OPS:
                        continue     # Python asked the right operand's reflected operator / fell back from in-place
                    self.bad(f"foreign-body-ran:kind={kindsig}", call=callsig, trace=[l2 for _, _, l2 in ev][:6])
                # hold on to whatever came back so that its lifetime is judged too
                result_tr = self.adopt(res, callsig)
        if exc is not None or mode == "negative":
            res = None
        # ---- instances created in this call: handed to Python or destroyed
        held = {result_tr.iid} if result_tr is not None and result_tr.owned else set()
        if res is not None and result_tr is None and g["kind"] != "ctor":
            # a wrapper we do not track (e.g. self returned) -- nothing to hold
            pass
        for i in leaked:
            if i not in held:
                self.bad(f"leak:owner=temporary,via={kindsig}:{mode}", call=callsig, iid=i, cls=self.live.get(i))
                self.baseline.add(i)    # report once
        for i in destroyed:
            if i not in created:
                self.bad(f"destroyed-foreign-object:via={kindsig}:{mode}", call=callsig, iid=i)
        res = None
        return result_tr, exc

    def special(self, f, slots):
        out = ""
        for s, p in zip(slots, f["params"]):
            if (s is not None and s.c == "enum" and s.v.value == -1) or \
                    (s is None and p["type"]["k"] == "enum" and p["type"].get("scoped") and p["default_value"] == -1):
                out = ":param=enum-scoped:enum-value=-1"
                break
            if s is not None and s.c == "str" and p["type"]["k"] in ("string", "cstr") and any(ord(ch) > 127 for ch in s.v):
                out += ":non-ascii"
        return out

    def neg_reason(self, sts, args, kw, recv, params_only=False):
        """finite description of why the call is malformed: (arg category -> parameter kind) of the first mismatch"""
        if all(sl is None for _, _, sl in sts):
            return f"count={len(args) + len(kw)}"
        for f, st, sl in sts:
            if st == "oor":
                for s, p in zip(sl, f["params"]):
                    if s is not None and self.acc(s, p["type"]) == "oor":
                        return f"arg=int-out-of-range,param={tkind(p['type'])}"
        for f, st, sl in sts:
            if sl is None:
                continue
            if recv is not None and recv.const and not f.get("const") and f.get("kind") == "method" and not f.get("static"):
                return "const-this"
            for s, p in zip(sl, f["params"]):
                if s is not None and self.acc(s, p["type"]) == "no":
                    if params_only:
                        return f"param={tkind(p['type'])}"
                    return f"arg={s.cat() if s.c != 'junk' else s.extra},param={tkind(p['type'])}"
        return "?"

    def all_fns(self):
        if not hasattr(self, "_all_fns"):
            out = list(self.m["functions"])
            for c in self.m["classes"]:
                out += c["ctors"] + c["methods"]
                cc = dict(c["copy_ctor"])
                cc.update(params=[dict(name="vf_o", type=dict(k="obj", cls=c["qname"], mode="cref"), default=None,
                                       default_value=None)], ret=dict(k="void"), static=False)
                out.append(cc)
            self._all_fns = out
        return self._all_fns

    # ------------------------------------------------------------------ results
    def track(self, w, cls, owned, const, callsig):
        iid = self.iid(w)
        owner = None
        if not owned:
            owner = iid if iid in self.py_owned else None
        else:
            self.py_owned.add(iid)
        t = Tr(w, cls, iid, owned, const, owner)
        self.pool.append(t)
        return t

    def adopt(self, res, callsig):
        """track a result of unknown provenance (unspecified calls): ownership is what the wrapper says"""
        if res is None or not hasattr(res, "this_ownership"):
            return None
        if any(t.w is res for t in self.pool):
            return None
        q = self.cls_of_wrapper(res)
        if q is None:
            return None
        iid = self.iid(res)
        if iid == 0 or iid not in self.live:
            return None       # dangling (e.g. reference to a coerced temporary): never touched again
        if res.this_ownership and iid in self.py_owned:
            self.bad("two-owners-of-one-instance", call=callsig, iid=iid)
            return None
        return self.track(res, q, bool(res.this_ownership), bool(res.this_const), callsig)

    def check_ctor(self, f, res, fl, created, callsig):
        q = f["cls"]
        if res is None or type(res) is not self.pycls(q):
            self.bad("ctor-result-type", call=callsig, got=repr(res)[:60])
            return None
        iid = self.iid(res)
        if iid == 0 or iid not in self.live or iid not in created:
            self.bad("ctor-identity:not-a-fresh-instance", call=callsig, iid=iid)
            return None
        if int(fl.get("this", -1)) != iid:
            self.bad("this-mismatch:kind=ctor", call=callsig, expected=iid, got=fl.get("this"))
        if fl.get("r") != "v" + str(self.state(q, res)):
            self.bad("result-mismatch:ret=constructed-object", call=callsig, expected=fl.get("r"), got=self.state(q, res))
        if not res.this_ownership:
            self.bad("ownership:constructed-object-not-owned", call=callsig)
        if res.this_const:
            self.bad("constness:constructed-object-const", call=callsig)
        self.features.add("ret:constructed" + (":copy" if f.get("copy") else ""))
        return self.track(res, q, True, False, callsig)

    def check_result(self, f, got, fl, callsig, recv=None, args=(), kw=None, created=()):
        rt = f["ret"]
        k = rt["k"]
        logged = fl.get("r")
        self.features.add("ret:" + tkind(rt))
        key = "result-mismatch:ret=" + tkind(rt)
        if k == "void":
            if got is not None and not (f.get("operator") in INP_OPS):
                self.bad(key, call=callsig, expected=None, got=repr(got)[:60])
            return None
        if logged is None:
            self.bad("no-result-logged", call=callsig)
            return None
        if k == "int":
            exp_i = int(logged[1:])
            if f.get("operator") == "hash" and exp_i == -1:
                exp_i = -2       # CPython reserves -1 for "error"
            if type(got) is not int or got != exp_i:
                self.bad(key, call=callsig, expected=exp_i, got=repr(got)[:60])
        elif k == "bool":
            if type(got) is not bool or int(got) != int(logged[1:]):
                self.bad(key, call=callsig, expected=bool(int(logged[1:])), got=repr(got)[:60])
        elif k == "enum":
            exp = int(logged[1:])
            if rt.get("scoped"):
                et = self.enum_py.get(rt["name"])
                if et is None or type(got) is not et or got.value != exp:
                    self.bad(key, call=callsig, expected=exp, got=repr(got)[:60])
            elif type(got) is not int or got != exp:
                self.bad(key, call=callsig, expected=exp, got=repr(got)[:60])
        elif k == "float":
            exp = struct.unpack("<d", struct.pack("<Q", int(logged[1:], 16)))[0]
            if type(got) is not float or struct.pack("<d", got) != struct.pack("<d", exp):
                self.bad(key, call=callsig, expected=exp, got=repr(got)[:60])
        elif k in ("string", "cstr"):
            exp = bytes.fromhex(logged[1:]).decode("utf-8") if logged != "n" else None
            if got != exp or (exp is not None and type(got) is not str):
                self.bad(key, call=callsig, expected=exp, got=repr(got)[:80])
        elif k == "obj":
            q, mode = rt["cls"], rt["mode"]
            if f.get("operator") in INP_OPS:
                # in-place operators hand back the left operand itself
                if got is not recv.w:
                    self.bad("result-mismatch:ret=inplace-self", call=callsig, got=repr(got)[:60])
                return None
            if got is None or not hasattr(got, "this"):
                self.bad(key + ":not-an-instance", call=callsig, got=repr(got)[:60])
                return None
            wq = self.cls_of_wrapper(got)
            if wq is None or not self.isa(wq, q):
                self.bad(key + ":wrapper-class", call=callsig, expected=q, got=repr(type(got)))
                return None
            iid = self.iid(got)
            if mode == "val":
                if iid == 0 or iid not in self.live:
                    self.bad(key + ":dead-object", call=callsig)
                    return None
                if "v" + str(self.state(wq, got)) != logged:
                    self.bad(key, call=callsig, expected=logged, got=self.state(wq, got))
                if iid in self.py_owned or iid in self.baseline:
                    self.bad("identity:value-result-aliases-existing-instance", call=callsig, iid=iid)
                    return None
                if not got.this_ownership:
                    self.bad("ownership:value-result-not-owned", call=callsig)
                    # the instance would leak; remember it as Python's so the final ledger does not double report
                if got.this_const:
                    self.bad("constness:value-result-const", call=callsig)
                return self.track(got, wq, True, False, callsig)
            exp = int(logged[1:]) if logged != "n" else 0
            if iid != exp and exp in created and any(a.c == "obj" and a.t.const for a in list(args) + list((kw or {}).values())):
                # the body returned (a pointer into) the temporary copy made of a const argument, which is gone now
                self.bad("const-argument-passed-as-copy:result-dangles", call=callsig, expected_iid=exp, got_iid=iid)
                return None
            if iid != exp:
                self.bad(f"identity:ret={tkind(rt)}", call=callsig, expected_iid=exp, got_iid=iid)
                if iid not in self.live:
                    return None
                return self.adopt(got, callsig)
            want_const = mode in ("cptr", "cref")
            if bool(got.this_const) != want_const:
                self.bad(f"constness:ret={tkind(rt)},got={'const' if got.this_const else 'nonconst'}", call=callsig)
            if got.this_ownership:
                self.bad(f"ownership:borrowed-result-owned:ret={tkind(rt)}", call=callsig)
                return None     # never let it be destroyed through this wrapper while others use the instance
            if iid not in self.live:
                return None
            if any(t.w is got for t in self.pool):
                return None
            return self.track(got, wq, False, want_const, callsig)
        return None

    # ------------------------------------------------------------------ choosing calls
    def receiver_for(self, q, need_nonconst=False):
        c = [t for t in self.pool if self.isa(t.cls, q) and not (need_nonconst and t.const)]
        return self.rng.choice(c) if c else None

    def resolve(self, g, recv):
        """group the Python attribute resolves to for receiver class (C++ name lookup incl. hiding)"""
        owner = self.lookup(recv.cls, g["name"])
        if owner in (None, "?"):
            return None
        return self.groups.get((g["kind"], owner, g["name"]))

    def invoker(self, g, recv, alias):
        kind = g["kind"]
        name = g["name"]
        if kind == "free":
            fn = getattr(self.mod, self.py_names(name, "function")[alias])
            return lambda a, k: fn(*a, **k)
        if kind == "ctor":
            pc = self.pycls(g["owner"])
            return lambda a, k: pc(*a, **k)
        if kind == "method":
            pn = self.py_names(name, "method")[alias]
            if g["fns"][0].get("static") and recv is None:
                pc = self.pycls(g["owner"])
                return lambda a, k: getattr(pc, pn)(*a, **k)
            return lambda a, k: getattr(recv.w, pn)(*a, **k)
        op = g["fns"][0]["operator"]
        w = recv.w
        if op in BIN_OPS:
            fn = BIN_OPS[op]
            return lambda a, k: fn(w, *a)
        if op in REV_OPS:
            fn = REV_OPS[op]
            return lambda a, k: fn(a[0], w)
        if op in UN_OPS:
            fn = UN_OPS[op]
            return lambda a, k: fn(w)
        if op in ("[]", "[]c", "getitem_n"):
            return lambda a, k: w.__getitem__(*a) if len(a) != 1 else w[a[0]]
        if op == "setitem_n":
            return lambda a, k: w.__setitem__(a[0], a[1])
        if op == "delitem_n":
            return lambda a, k: w.__delitem__(a[0])
        if op == "getattr":
            return lambda a, k: getattr(w, a[0])
        if op == "setattr":
            return lambda a, k: setattr(w, a[0], a[1])
        if op == "delattr":
            return lambda a, k: delattr(w, a[0])
        if op == "()":
            return lambda a, k: w(*a, **k)
        if op in INP_OPS:
            fn = INP_OPS[op]

            def inplace(a, k):
                x = w
                x = fn(x, a[0])
                return x
            return inplace
        raise KeyError(op)

    def make_call(self, g, kindpref=None, fn=None, force=None, nargs=None):
        """one random call on group g (fn / force: a given overload with given arguments at given positions)"""
        r = self.rng
        fns = g["fns"]
        recv = None
        dyn = None
        if ((g["owner"] + "::") if g["owner"] and g["kind"] != "ctor" else "", g["name"]) in self.missing:
            return None
        is_method = g["kind"] in ("method", "op") and not fns[0].get("static")
        if is_method:
            recv = self.receiver_for(g["owner"])
            if recv is None:
                return None
            g2 = self.resolve(g, recv)
            if g2 is None or g2 is not g and g2["fns"][0].get("static"):
                return None
            g = g2
            fns = g["fns"]
            dyn = self.live.get(recv.iid)
        elif g["kind"] == "method" and r.random() < 0.3:
            recv0 = self.receiver_for(g["owner"])
            if recv0 is not None and self.resolve(g, recv0) is g:
                recv = recv0       # static method called through an instance
        f = fn if fn is not None and fn in fns else r.choice(fns)
        ps = f["params"]
        nd = 0
        for p in reversed(ps):
            if p["default"] is None:
                break
            nd += 1
        how = kindpref or r.choices(["pos", "neg-count", "neg-type", "neg-range", "fuzz", "const-recv"], [60, 6, 10, 8, 12, 4])[0]
        n = nargs if nargs is not None else len(ps) - (0 if force else r.randint(0, nd))
        args = []
        for i_, p in enumerate(ps[:n]):
            a = force[i_] if force and i_ in force else self.good_arg(p["type"])
            if a is None:
                return None
            args.append(a)
        kw = {}
        op = fns[0].get("operator")
        if how == "pos":
            if n >= 1 and r.random() < 0.25 and g["kind"] != "op" and not force and nargs is None:
                # move a tail of the arguments into keyword form (names are the C++ parameter names)
                cut = r.randint(0, n - 1)
                for p, a in zip(ps[cut:n], args[cut:]):
                    kw[p["name"]] = a
                args = args[:cut]
                # and possibly skip defaulted parameters in between
        elif how == "neg-count":
            allowed = set()
            for ff in fns:
                ndf = len([p for p in ff["params"] if p["default"] is not None])
                allowed |= set(range(len(ff["params"]) - ndf, len(ff["params"]) + 1))
            wrong = [k for k in range(0, max(allowed) + 3) if k not in allowed]
            if op in FIXED_ARITY_OPS:
                return None      # Python syntax fixes the count
            k = r.choice(wrong)
            while len(args) < k:
                args.append(self.junk_arg() if r.random() < 0.3 else Arg("int", r.randint(-5, 5)))
            args = args[:k]
        elif how == "neg-type":
            if not args or op in ("==", "!="):
                return None      # Python itself falls back to identity comparison for == / !=
            i = r.randrange(len(args))
            args[i] = self.junk_arg()
        elif how == "neg-range":
            ints = [i for i, p in enumerate(ps[:n]) if p["type"]["k"] == "int"]
            if not ints:
                return None
            i = r.choice(ints)
            lo, hi = INT_RANGE[ps[i]["type"]["c"]]
            args[i] = Arg("int", r.choice([hi + 1, lo - 1, hi + 1, lo - 1, 2 ** 70, -2 ** 70, hi + 12345, lo - 2 ** 31]))
        elif how == "fuzz":
            if op in ("==", "!="):
                return None
            for i in range(len(args)):
                if r.random() < 0.5:
                    args[i] = self.junk_arg()
        elif how == "const-recv":
            if not is_method:
                return None
            c = [t for t in self.pool if self.isa(t.cls, g["owner"]) and t.const]
            if not c:
                return None
            recv = r.choice(c)
            if self.resolve(g, recv) is not g:
                return None
            dyn = self.live.get(recv.iid)
        # an integer that is no member of an unscoped enum is undefined behaviour in C++ itself: never generated
        for i, (p, a) in enumerate(zip(ps, args)):
            if p["type"]["k"] == "enum" and not p["type"].get("scoped") and a.c in ("int", "bool", "float") and \
                    self.acc(a, p["type"]) != "yes":
                args[i] = self.good_arg(p["type"])
        if op in ("iter", "next"):
            return None      # judged as a whole by do_iter (StopIteration is the protocol, not a failure)
        if op in UN_OPS and (args or kw):
            return None
        if op in ONE_ARG_OPS and (len(args) != 1 or kw):
            return None
        if op in TWO_ARG_OPS and (len(args) != 2 or kw):
            return None
        if op in ("getattr", "setattr", "delattr"):
            if args[0].c != "str":
                return None      # Python itself insists on a string
            # a name that no real attribute has, so that the class's own __getattr__ / __setattr__ is consulted
            args[0] = Arg("str", "zz_" + r.choice(["a", "attr", "x9", "Name", "long_attribute_name"]))
        if op in ("getitem_n", "setitem_n", "delitem_n") and self.classes[g["owner"]].get("named_items") == "sequence" and \
                args[0].c == "int" and not (0 <= args[0].v < 4):
            return None          # sequence protocol: bounds-checked against __len__ before the body (IndexError)
        if op in ("setitem_n", "delitem_n", "setattr", "delattr") and recv is not None and recv.const:
            pass                 # judged as a negative call (const receiver)
        if f.get("seq") and op in ("[]", "[]c") and args[0].c == "int" and not (0 <= args[0].v < 4):
            return None          # sequence protocol: Python bounds-checks before the body (IndexError), nothing to judge
        if g["kind"] == "op" and recv is not None and recv.cls != g["owner"]:
            # a Python type has one function per slot, taken from the first class in the MRO that fills it: an operator
            # inherited in C++ is only judged when no other class of the receiver's hierarchy feeds the same slot
            fam = {"+": "add", "radd": "add", "-": "sub", "rsub": "sub", "*": "mul", "rmul": "mul"}
            sl = fam.get(op, op)
            if op == "hash":
                return None
            for qq in [recv.cls] + list(self.anc[recv.cls]):
                if qq != g["owner"] and any(fam.get(m.get("operator"), m.get("operator")) == sl for m in self.classes[qq]["methods"]):
                    return None
        if op in INP_OPS and recv is not None and recv.const:
            return None
        if op in INP_OPS and how != "pos":
            # when the in-place operator declines, Python falls back to the binary operator (x -= y -> x = x - y): only
            # judged where the class hierarchy has no such operator to fall back to
            bop = {"ipow": "pow"}.get(op, op[:-1])
            if any(m.get("operator") in (bop, {"+": "radd", "-": "rsub", "*": "rmul"}.get(bop)) for qq in self.classes
                   for m in self.classes[qq]["methods"]):
                return None
        self.ctxkey = None
        if op in BIN_OPS and any(a.c == "obj" and a.t.cls != recv.cls and self.isa(a.t.cls, recv.cls) for a in args):
            return None      # Python's data model asks the more derived right operand first: not the binding's doing
        if op in CMP_OPS and recv is not None and g["owner"] != recv.cls:
            # the rich-compare slot of a Python type is one function: a class that declares a comparison operator of
            # its own, or whose first base has none, does not reach the comparison operators it inherits in C++
            self.ctxkey = "inherited-comparison-lost"
        alias = r.randrange(2) if g["kind"] in ("free", "method") else 0
        what = g["name"] if g["kind"] != "ctor" else g["name"]
        inv = self.invoker(g, recv, alias)
        try:
            if recv is not None and fns[0].get("static"):
                # static through an instance: no `this`
                tr, exc = self.call(g, None, args, kw, inv, what, None)
            else:
                tr, exc = self.call(g, recv, args, kw, inv, what, dyn)
        finally:
            self.ctxkey = None
        return tr

    # ------------------------------------------------------------------ properties, members, sequences, item assignment
    def do_property(self):
        r = self.rng
        cands = [(c, p) for c in self.m["classes"] for p in c["properties"]]
        if not cands:
            return
        c, p = r.choice(cands)
        recv = self.receiver_for(c["qname"])
        if recv is None:
            return
        getter = next(f for f in c["methods"] if f["qname"] == p["getter"])
        setter = next((f for f in c["methods"] if f["qname"] == p["setter"]), None) if p["setter"] else None
        name = p["name"]
        w = recv.w
        if setter is not None and r.random() < 0.5 and not self.classes[recv.cls].get("attr_class"):
            g = dict(kind="method", owner=c["qname"], name=setter["name"], fns=[setter])
            how = r.random()
            pt = setter["params"][0]["type"]
            if how < 0.6:
                a = self.good_arg(pt)
            elif how < 0.75 and pt["k"] == "int":
                lo, hi = INT_RANGE[pt["c"]]
                a = Arg("int", r.choice([hi + 1, lo - 1, 2 ** 63, 2 ** 70, -2 ** 70]))
            elif how < 0.75 and pt["k"] == "float" and self.pool:
                a = Arg("obj", t=r.choice(self.pool))
            else:
                a = self.junk_arg()
            if a is None:
                return
            self.features.add("property:set")
            self.call(g, recv, [a], {}, lambda aa, k: setattr(w, name, aa[0]), name + "=", self.live.get(recv.iid))
        else:
            g = dict(kind="method", owner=c["qname"], name=getter["name"], fns=[getter])
            self.features.add("property:get")
            self.call(g, recv, [], {}, lambda aa, k: getattr(w, name), name, self.live.get(recv.iid))

    def do_member(self):
        r = self.rng
        cands = [(c, mm) for c in self.m["classes"] for mm in c["members"] if not mm["array"]]
        if not cands:
            return
        c, mm = r.choice(cands)
        q = c["qname"]
        recv = self.receiver_for(q)
        if recv is None:
            return
        # the attribute must resolve to this class's member (no shadowing by a derived member of the same name: names are unique)
        t = mm["type"]
        peek = getattr(self.lib, "vf_peek_%s_%s" % (q.replace("::", "_"), mm["name"]))
        peek.argtypes = [ctypes.c_void_p]
        peek.restype = {"int": ctypes.c_longlong, "bool": ctypes.c_longlong, "float": ctypes.c_double, "string": ctypes.c_char_p}[t["k"]]
        # the peek helper takes a pointer to class q: go through a wrapper of exactly that class when bases are offset
        if recv.cls != q:
            return
        w = recv.w
        kind = "static" if mm["static"] else "const" if mm["const"] else "plain"
        self.step(f"member {mm['qname']} on iid={recv.iid}")
        self.trace()
        self.count("member_accesses")
        self.features.add(f"member:{kind}:{tkind(t)}")
        if not mm["const"] and recv.const and not mm["static"]:
            # assignment through a const view: TypeError and the member keeps its value
            a = self.good_arg(t if t["k"] != "string" else dict(k="string"))
            before = peek(w.this)
            self.features.add("member:const-view")
            try:
                setattr(w, mm["name"], a.py())
                self.bad(f"no-typeerror:const-this:member-set", member=mm["qname"], value=a.desc())
            except TypeError:
                pass
            except Exception as ex:
                self.bad(f"wrong-exception:got={type(ex).__name__},want=TypeError:const-this:member-set", member=mm["qname"])
            if self.pending():
                self.bad("returned-with-exception-set:const-this:member-set", member=mm["qname"])
            if peek(w.this) != before:
                self.bad("member-changed-through-const-view", member=mm["qname"], value=a.desc())
        elif not mm["const"] and not recv.const and r.random() < 0.5:
            a = self.good_arg(t if t["k"] != "string" else dict(k="string"))
            try:
                setattr(w, mm["name"], a.py())
            except Exception as ex:
                self.bad(f"member-set-rejected:{kind}:{tkind(t)}:exc={type(ex).__name__}", member=mm["qname"], value=a.desc(), exc=str(ex)[:160])
                return
            nat = peek(w.this)
            if not self.same(t, a.py(), nat):
                self.bad(f"member-set-mismatch:{kind}:{tkind(t)}", member=mm["qname"], set=a.desc(), native=repr(nat))
        elif not mm["const"] and not recv.const and t["k"] == "int" and r.random() < 0.4:
            # out-of-range assignment: OverflowError and the member keeps its value
            lo, hi = INT_RANGE[t["c"]]
            v = r.choice([hi + 1, lo - 1, hi + 1, lo - 1, 2 ** 70, -2 ** 70])
            before = peek(w.this)
            self.features.add("member:out-of-range:" + tkind(t))
            try:
                setattr(w, mm["name"], v)
                self.bad(f"no-overflowerror:param={tkind(t)}", member=mm["qname"], value=v, stored=peek(w.this))
            except (OverflowError, TypeError):
                pass
            except Exception as ex:
                self.bad(f"wrong-exception:member-set:got={type(ex).__name__}", member=mm["qname"], value=v)
            if self.pending():
                self.bad(f"returned-with-exception-set:member-set:{tkind(t)}", member=mm["qname"], value=v)
            if peek(w.this) != before:
                self.bad("member-changed-on-error:arg=int-out-of-range", member=mm["qname"], value=v, type=tkind(t))
        elif not mm["const"] and r.random() < 0.3:
            # malformed assignment: TypeError / OverflowError and the member keeps its value
            before = peek(w.this)
            a = self.junk_arg()
            if a.c in ("junk", "none") and t["k"] != "bool" or (a.c == "str" and t["k"] in ("int", "float")):
                try:
                    setattr(w, mm["name"], a.py())
                    self.bad(f"no-typeerror:member-set:arg={a.cat() if a.c != 'junk' else a.extra},member={tkind(t)}", member=mm["qname"], value=a.desc())
                except (TypeError, OverflowError):
                    pass
                except Exception as ex:
                    if recv.const and isinstance(ex, AttributeError):
                        pass
                    else:
                        self.bad(f"wrong-exception:member-set:got={type(ex).__name__}", member=mm["qname"], value=a.desc())
                if peek(w.this) != before:
                    self.bad(f"member-changed-on-error:{tkind(t)}", member=mm["qname"], value=a.desc())
        try:
            got = getattr(w, mm["name"])
        except Exception as ex:
            self.bad(f"member-get-rejected:{kind}:{tkind(t)}:exc={type(ex).__name__}", member=mm["qname"], exc=str(ex)[:160])
            return
        nat = peek(w.this)
        if not self.same(t, got, nat):
            self.bad(f"member-get-mismatch:{kind}:{tkind(t)}", member=mm["qname"], got=repr(got)[:60], native=repr(nat))
        ev, created, destroyed = self.trace()
        for i in created:
            if i in self.live:
                self.bad("leak:owner=temporary,via=member-access", member=mm["qname"])
                self.baseline.add(i)

    @staticmethod
    def same(t, a, b):
        try:
            if t["k"] == "float":
                if t["c"] == "float":
                    return struct.pack("<f", float(a)) == struct.pack("<f", float(b))
                return struct.pack("<d", float(a)) == struct.pack("<d", float(b))
            if t["k"] in ("int", "bool", "enum"):
                return int(a) == int(b)
            if t["k"] == "string":
                return (a.encode("utf-8") if isinstance(a, str) else a) == b
        except (TypeError, ValueError, OverflowError):
            return False
        return a == b

    def do_seq(self):
        r = self.rng
        cands = [(c, s, False) for c in self.m["classes"] for s in c["seqs"]] + \
                [(c, s, True) for c in self.m["classes"] for s in c.get("seq_properties", [])]
        if not cands:
            return
        c, s, isprop = r.choice(cands)
        recv = self.receiver_for(c["qname"])
        if recv is None:
            return
        num = next(f for f in c["methods"] if f["qname"] == s["num"])
        elt = next(f for f in c["methods"] if f["qname"] == s["element"])
        w = recv.w
        self.step(f"seq {s['qname']} on iid={recv.iid}")
        self.trace()
        self.count("sequence_reads")
        self.features.add("seq-property" if isprop else "make-seq")
        try:
            if isprop:
                got = list(getattr(w, s["name"]))
            else:
                got = list(getattr(w, self.py_names(s["name"], "method")[r.randrange(2)])())
        except Exception as ex:
            self.bad(f"sequence-rejected:{'property' if isprop else 'make-seq'}:exc={type(ex).__name__}", seq=s["qname"], exc=str(ex)[:160])
            return
        ev, created, destroyed = self.trace()
        elts = [fl for eid, fl, l in ev if eid in self.final_overriders(elt, self.live.get(recv.iid))]
        if len(got) != 3 or len(elts) < 3:
            self.bad(f"sequence-length:{'property' if isprop else 'make-seq'}", seq=s["qname"], got=len(got), element_calls=len(elts))
            return
        # the i-th element is what the element getter logged for index i (last call per index)
        byidx = {}
        for fl in elts:
            byidx[fl.get("a0")] = fl
        for i, v in enumerate(got):
            fl = byidx.get("i%d" % i)
            if fl is None:
                self.bad("sequence-index-not-read", seq=s["qname"], index=i)
                continue
            if int(fl.get("this", -1)) != recv.iid:
                self.bad("this-mismatch:kind=sequence", seq=s["qname"])
            lg = fl.get("r")
            if elt["ret"]["k"] == "float":
                ok = type(v) is float and dbits(v) == lg
            else:
                ok = type(v) is int and "i" + str(v) == lg
            if not ok:
                self.bad(f"result-mismatch:ret=sequence-element:{tkind(elt['ret'])}", seq=s["qname"], index=i, expected=lg, got=repr(v))

    def const_view(self, q):
        """a const wrapper (this_const) of an instance of exactly class q, made through a `const K*` / `const K&` method"""
        have = [t for t in self.pool if t.cls == q and t.const]
        if have and self.rng.random() < 0.7:
            return self.rng.choice(have)
        gs = [g for g in self.groups.values() if g["kind"] == "method" and g["owner"] == q and len(g["fns"]) == 1 and
              g["fns"][0].get("returns") == "this" and g["fns"][0]["ret"].get("mode") in ("cptr", "cref")]
        if gs and any(t.cls == q and not t.const for t in self.pool):
            for _ in range(4):
                t = self.make_call(self.rng.choice(gs), "pos")
                if t is not None and t.const and t.cls == q:
                    return t
        return self.rng.choice(have) if have else None

    def do_coerce_tuple(self):
        """a tuple where `const K &` / `K` / `const K *` is expected: the elements may go to a non-explicit multi-parameter
        constructor of K, never to an explicit one (TypeError, no body)"""
        r = self.rng
        cands = []
        for g in self.groups.values():
            if g["kind"] not in ("free", "method"):
                continue
            for f in g["fns"]:
                for i, p in enumerate(f["params"]):
                    t = p["type"]
                    if t["k"] == "obj" and t["mode"] in ("cref", "val", "cptr"):
                        for e in self.classes[t["cls"]]["ctors"]:
                            if len(e["params"]) >= 2 and all(x["type"]["k"] != "obj" for x in e["params"]):
                                cands.append((g, f, i, e))
        if not cands:
            return
        expl = [c for c in cands if c[3].get("explicit")]
        g, f, i, e = r.choice(expl if expl and r.random() < 0.7 else cands)
        elts = [self.good_arg(x["type"]) for x in e["params"]]
        if any(x is None for x in elts):
            return
        self.features.add("tuple-for-class:" + ("explicit" if e.get("explicit") else "converting") + "-ctor:" + f["params"][i]["type"]["mode"])
        self.count("tuple_coercion_calls")
        self.make_call(g, "pos", fn=f, force={i: Arg("tuple", extra=elts)})

    def do_mi(self):
        """every overload set over {ancestor, deep base, shallow base, derived} is called with an instance of exactly each
        class it names and of the derived class: the nearest class wins"""
        mg = self.m.get("mi_group")
        if not mg:
            return
        for name in mg["sets"]:
            g = self.groups.get(("free", None, name))
            if g is None:
                continue
            mode = g["fns"][0]["params"][0]["type"]["mode"]
            for q in sorted({f["params"][0]["type"]["cls"] for f in g["fns"]} | {mg["derived"]}):
                o = self.pick_obj(q, want_nonconst=mode in ("ptr", "ref"), exact=True)
                if o is None:
                    continue
                f = next((f for f in g["fns"] if f["params"][0]["type"]["cls"] == q), g["fns"][0])
                self.features.add("mi-deep-first:arg=" + ("derived" if q == mg["derived"] else "deep" if q == mg["deep"] else
                                                          "shallow" if q == mg["shallow"] else "ancestor") + ":" + mode)
                self.count("mi_overload_calls")
                self.make_call(g, "pos", fn=f, force={0: Arg("obj", t=o)})

    def do_slot_alias(self):
        """slots fed by ordinary methods: hash(obj) -> get_hash(), a < b ... -> compare_to()"""
        r = self.rng
        cands = [(c, f) for c in self.m["classes"] for f in c["methods"] if f.get("hash_method") or f.get("cmp_to")]
        if not cands:
            return
        c, f = r.choice(cands)
        q = c["qname"]
        recv = self.receiver_for(q)
        if recv is None or recv.cls != q:
            return
        w = recv.w
        self.trace()
        if f.get("hash_method"):
            if any(m.get("operator") == "hash" for m in c["methods"]):
                return
            self.step(f"hash-alias {q} on iid={recv.iid}")
            self.count("slot_alias_calls")
            self.features.add("slot-alias:hash->get_hash")
            try:
                got = hash(w)
            except Exception as ex:
                self.bad(f"slot-alias-rejected:hash:exc={type(ex).__name__}", cls=q, exc=str(ex)[:120])
                return
            ev, created, destroyed = self.trace()
            evs = [fl for eid, fl, l in ev if eid in self.final_overriders(f, self.live.get(recv.iid))]
            if len(evs) != 1 or int(evs[0].get("this", -1)) != recv.iid:
                self.bad("slot-alias-wrong-body:hash", cls=q, trace=[l for _, _, l in ev][:4])
                return
            exp = int(evs[0]["r"][1:])
            if got != (-2 if exp == -1 else exp):
                self.bad("result-mismatch:ret=hash", cls=q, expected=exp, got=got)
            return
        # compare_to: only judged where the class (and its bases) declares no comparison operator of its own
        if any(m.get("operator") in CMP_OPS for qq in [q] + list(self.anc[q]) for m in self.classes[qq]["methods"]):
            return
        other = self.pick_obj(q, want_nonconst=True, exact=True)
        if other is None or recv.cls != q:
            return
        op = r.choice(list(CMP_OPS))
        self.step(f"compare_to-alias {q} {op} on iid={recv.iid}")
        self.count("slot_alias_calls")
        self.features.add("slot-alias:" + op + "->compare_to")
        try:
            got = BIN_OPS[op](w, other.w)
        except Exception as ex:
            self.bad(f"slot-alias-rejected:compare_to:exc={type(ex).__name__}", cls=q, op=op, exc=str(ex)[:120])
            return
        ev, created, destroyed = self.trace()
        evs = [fl for eid, fl, l in ev if eid == f["eid"]]
        if len(evs) != 1 or int(evs[0].get("this", -1)) != recv.iid or evs[0].get("a0") != "o%d" % other.iid:
            self.bad("slot-alias-wrong-body:compare_to", cls=q, op=op, trace=[l for _, _, l in ev][:4])
            return
        cmpv = int(evs[0]["r"][1:])
        exp = BIN_OPS[op](cmpv, 0)
        if got is not exp:
            self.bad("result-mismatch:ret=compare_to:" + op, cls=q, compare_to=cmpv, expected=exp, got=repr(got)[:40])

    def do_iter(self):
        """for x in obj: __iter__ once, __next__ until it returns a null pointer; items by identity"""
        cands = [c for c in self.m["classes"] if c.get("iter_class")]
        if not cands:
            return
        c = self.rng.choice(cands)
        q = c["qname"]
        recv = self.receiver_for(q, need_nonconst=True)
        if recv is None or recv.cls != q:
            return
        fi = next(f for f in c["methods"] if f.get("operator") == "iter")
        fn = next(f for f in c["methods"] if f.get("operator") == "next")
        self.step(f"iterate {q} on iid={recv.iid}")
        self.trace()
        self.count("iterations")
        self.features.add("iteration")
        try:
            items = [x for x in recv.w]
        except Exception as ex:
            self.bad(f"iteration-rejected:exc={type(ex).__name__}", cls=q, exc=str(ex)[:120])
            return
        ev, created, destroyed = self.trace()
        its = [fl for eid, fl, l in ev if eid == fi["eid"]]
        nxs = [fl for eid, fl, l in ev if eid == fn["eid"]]
        if len(its) != 1 or len(nxs) != 4 or any(int(fl.get("this", -1)) != recv.iid for fl in its + nxs):
            self.bad("iteration-wrong-bodies", cls=q, iters=len(its), nexts=len(nxs), trace=[l for _, _, l in ev][:7])
            return
        exp = [fl.get("r") for fl in nxs]
        got = ["o%d" % self.iid(x) for x in items] + ["n"]
        if got != exp:
            self.bad("result-mismatch:ret=iteration-items", cls=q, expected=exp, got=got)
        for x in items:
            if x.this_ownership:
                self.bad("ownership:borrowed-result-owned:ret=iteration-item", cls=q)
                self.baseline.add(self.iid(x))
        items = None

    def do_reversed(self):
        """<int/float> op obj: without a reflected method of the class the left operand is foreign to every overload:
        TypeError, no body; (the reflected methods __radd__ / __rsub__ / __rmul__ are called like any other operator)"""
        r = self.rng
        cands = [(c, f) for c in self.m["classes"] for f in c["methods"] if f.get("operator") in ARITH_OPS and
                 f["params"] and f["params"][0]["type"]["k"] in ("int", "float")]
        if not cands:
            return
        c, f = r.choice(cands)
        q, op = c["qname"], f["operator"]
        recv = self.receiver_for(q)
        if recv is None:
            return
        refl = {"+": "radd", "-": "rsub", "*": "rmul"}.get(op)
        if refl and any(m.get("operator") == refl for qq in [recv.cls] + list(self.anc[recv.cls]) for m in self.classes[qq]["methods"]):
            return
        left = r.choice([3, -1, 2.5, 0])
        self.step(f"reversed {left!r} {op} <{recv.cls} iid={recv.iid}>")
        self.trace()
        st0 = self.state(recv.cls, recv.w)
        self.count("reversed_operand_calls")
        self.features.add("reversed-operand:" + op)
        exc = None
        try:
            BIN_OPS[op](left, recv.w)
        except Exception as ex:
            exc = type(ex).__name__
        pend = self.pending()
        ev, created, destroyed = self.trace()
        if exc is None:
            self.bad(f"no-typeerror:foreign-left-operand:op={op}", cls=q, left=repr(left), trace=[l for _, _, l in ev][:4])
        elif exc != "TypeError":
            self.bad(f"wrong-exception:got={exc},want=TypeError:foreign-left-operand", cls=q, op=op)
        if pend:
            self.bad(f"returned-with-exception-set:exc={pend}:foreign-left-operand", cls=q, op=op)
        if [1 for eid, fl, l in ev if eid not in self.copy_eids and not (self.ctor_eids.get(eid) is not None and not self.ctor_eids[eid]["params"])] \
                or self.state(recv.cls, recv.w) != st0:
            self.bad("body-ran-but-raised:foreign-left-operand", cls=q, op=op, trace=[l for _, _, l in ev][:4])

    def do_synth_ne(self):
        """a class with operator == and no operator != of its own gets != synthesised: a != b must run a == b and negate"""
        r = self.rng
        cands = []
        for c in self.m["classes"]:
            eqs = [f for f in c["methods"] if f.get("operator") == "=="]
            if len(eqs) == 1 and not any(f.get("operator") == "!=" for f in c["methods"]) and \
                    eqs[0]["params"][0]["type"]["k"] == "obj":
                cands.append((c, eqs[0]))
        if not cands:
            return
        c, f = r.choice(cands)
        q = c["qname"]
        recv = self.pick_obj(q, exact=True)
        other = self.pick_obj(f["params"][0]["type"]["cls"], want_nonconst=True, exact=True)
        if recv is None or other is None:
            return
        self.step(f"synthesised != {q} on iid={recv.iid}")
        self.trace()
        self.count("synthesised_ne_calls")
        self.features.add("synthesised-ne")
        try:
            got = recv.w != other.w
        except Exception as ex:
            self.bad(f"synthesised-ne-rejected:exc={type(ex).__name__}", cls=q, exc=str(ex)[:120])
            return
        pend = self.pending()
        ev, created, destroyed = self.trace()
        evs = [fl for eid, fl, l in ev if eid == f["eid"]]
        if len(evs) != 1 or int(evs[0].get("this", -1)) != recv.iid or evs[0].get("a0") != "o%d" % other.iid:
            self.bad("synthesised-ne-wrong-body", cls=q, trace=[l for _, _, l in ev][:4])
            return
        eq = bool(int(evs[0]["r"][1:]))
        if got is not (not eq):
            self.bad("result-mismatch:ret=synthesised-ne", cls=q, eq_result=eq, expected=not eq, got=repr(got)[:40])
        if pend:
            self.bad(f"returned-with-exception-set:exc={pend}:synthesised-ne", cls=q)

    def do_const_defaults(self):
        """functions whose defaults are constant expressions: every omission count, so that each default is the one the
        C++ compiler computes (the body logs what it received)"""
        for g in self.groups.values():
            if g["kind"] == "free" and g["fns"][0].get("feature") == "const-default":
                f = g["fns"][0]
                nd = len([p for p in f["params"] if p["default"] is not None])
                for n in range(len(f["params"]) - nd, len(f["params"]) + 1):
                    self.count("const_default_calls")
                    self.features.add("const-default:omitted=%d" % (len(f["params"]) - n))
                    self.make_call(g, "pos", fn=f, nargs=n)

    def do_setitem_const(self, c):
        """obj[i] = v through a const view must raise TypeError, run no body and leave the items alone"""
        q = c["qname"]
        recv = self.const_view(q)
        if recv is None or not recv.w.this_const:
            return
        ia = c["item_array"]
        f1 = next(f for f in c["methods"] if f.get("item_ref"))
        item = getattr(self.lib, "vf_item_" + q.replace("::", "_"))
        item.argtypes = [ctypes.c_void_p, ctypes.c_int]
        item.restype = ctypes.c_int
        w = recv.w
        idx = self.rng.randrange(4)
        v = self.rng.choice([0, 7, -1, 123456])
        kind = "sequence" if ia["seq"] else "mapping"
        self.step(f"setitem-const {q}[{idx}] on iid={recv.iid}")
        self.trace()
        before = [item(w.this, i) for i in range(4)]
        self.count("item_assignments_on_const_view")
        self.features.add("setitem:const-view:" + kind)
        exc = None
        try:
            w[idx] = v
        except Exception as ex:
            exc = type(ex).__name__
        pend = self.pending()
        ev, created, destroyed = self.trace()
        after = [item(w.this, i) for i in range(4)]
        if exc is None:
            self.bad(f"no-typeerror:const-this:setitem:{kind}", cls=q, index=idx, value=v, before=before, after=after)
        elif exc != "TypeError":
            self.bad(f"wrong-exception:got={exc},want=TypeError:const-this:setitem:{kind}", cls=q)
        if pend:
            self.bad(f"returned-with-exception-set:exc={pend}:const-this:setitem", cls=q)
        if any(eid == f1["eid"] for eid, fl, l in ev) or after != before:
            self.bad(f"item-changed-through-const-view:{kind}", cls=q, index=idx, value=v, before=before, after=after,
                     trace=[l for _, _, l in ev][:4])

    def do_iadd_const(self):
        """x += y on a const view: the in-place operator must not run (Python may fall back to x + y, which is const)"""
        cands = [(c, f) for c in self.m["classes"] for f in c["methods"] if f.get("operator") in INP_OPS]
        if not cands:
            return
        c, f = self.rng.choice(cands)
        q = c["qname"]
        recv = self.const_view(q)
        rhs = self.good_arg(f["params"][0]["type"])
        if recv is None or rhs is None or not recv.w.this_const:
            return
        self.step(f"inplace-const {q} {f['name']} on iid={recv.iid}")
        self.trace()
        st0 = self.state(q, recv.w)
        self.count("inplace_operators_on_const_view")
        self.features.add("inplace:const-view:" + f["operator"])
        x = recv.w
        res = None
        try:
            x = INP_OPS[f["operator"]](x, rhs.py())
            res = x
        except Exception:
            pass
        self.pending()
        ev, created, destroyed = self.trace()
        if any(eid == f["eid"] for eid, fl, l in ev) or self.state(q, recv.w) != st0:
            self.bad("state-changed-through-const-view:inplace-operator", cls=q, trace=[l for _, _, l in ev][:4])
        x = None
        if res is not None and res is not recv.w:
            self.adopt(res, "iadd-const")
        res = None

    def do_setitem(self):
        r = self.rng
        cands = [c for c in self.m["classes"] if c.get("item_array")]
        if not cands:
            return
        c = r.choice(cands)
        q = c["qname"]
        if r.random() < 0.35:
            return self.do_setitem_const(c)
        recv = self.receiver_for(q, need_nonconst=True)
        if recv is None or recv.cls != q:
            return
        ia = c["item_array"]
        f1 = next(f for f in c["methods"] if f.get("item_ref"))
        w = recv.w
        item = getattr(self.lib, "vf_item_" + q.replace("::", "_"))
        item.argtypes = [ctypes.c_void_p, ctypes.c_int]
        item.restype = ctypes.c_int
        idx = r.randrange(4) if ia["seq"] else r.choice([0, 1, 2, 3, 5, 7, 1000])
        how = r.random()
        self.step(f"setitem {q}[{idx}] on iid={recv.iid}")
        self.trace()
        self.count("item_assignments")
        self.features.add("setitem:" + ("sequence" if ia["seq"] else "mapping"))
        if how < 0.7:
            v = r.choice([0, -1, 2 ** 31 - 1, -2 ** 31, r.randint(-10 ** 6, 10 ** 6)])
            try:
                w[idx] = v
            except Exception as ex:
                self.bad(f"setitem-rejected:{'sequence' if ia['seq'] else 'mapping'}:exc={type(ex).__name__}", cls=q, index=idx, value=v, exc=str(ex)[:160])
                return
            ev, created, destroyed = self.trace()
            main = [(eid, fl) for eid, fl, l in ev if eid == f1["eid"]]
            if len(main) != 1 or main[0][1].get("a0") != "i%d" % idx or int(main[0][1].get("this", -1)) != recv.iid:
                self.bad("setitem-wrong-body", cls=q, index=idx, trace=[l for _, _, l in ev][:4])
            if item(w.this, idx & 3) != v:
                self.bad("setitem-value-not-stored", cls=q, index=idx, value=v, stored=item(w.this, idx & 3))
        else:
            before = [item(w.this, i) for i in range(4)]
            bad = r.choice([object(), "str", None, 2 ** 40, {}, 1.5])
            exc = None
            try:
                w[idx] = bad
            except Exception as ex:
                exc = type(ex).__name__
            ev, created, destroyed = self.trace()
            after = [item(w.this, i) for i in range(4)]
            if bad is None and exc is None:
                return      # `del`-like semantics are not specified
            if exc is None and not isinstance(bad, float):
                self.bad(f"no-typeerror:setitem:value={type(bad).__name__}", cls=q, index=idx)
            elif exc is not None and exc not in ("TypeError", "OverflowError"):
                self.bad(f"wrong-exception:setitem:got={exc}", cls=q, value=repr(bad))
            if exc is not None and after != before:
                self.bad(f"item-changed-on-error:value={type(bad).__name__}", cls=q, index=idx, before=before, after=after)

    # ------------------------------------------------------------------ lifetime steps
    def drop(self, t, why="drop"):
        """drop one tracked wrapper (aliases of an owned instance first)"""
        if t not in self.pool:
            return
        if t.owned:
            for a in [a for a in self.pool if a is not t and (a.owner == t.iid or (a.iid == t.iid and not a.owned))]:
                self.drop(a, "alias")
        self.step(f"{why} wrapper of iid={t.iid} cls={t.cls} owned={t.owned}")
        self.pool.remove(t)
        self.trace()
        iid, owned, cls = t.iid, t.owned, t.cls
        t.w = None
        del t
        gc.collect()
        ev, created, destroyed = self.trace()
        self.count("drops")
        self.features.add("drop:" + ("owned" if owned else "borrowed"))
        if owned:
            self.py_owned.discard(iid)
            if destroyed.count(iid) != 1:
                self.bad("leak:owner=python,via=drop" if iid not in destroyed else "double-destroy", iid=iid, cls=cls, destroyed=destroyed)
                self.baseline.add(iid)
        for i in destroyed:
            if not (owned and i == iid):
                self.bad("destroyed-foreign-object:via=drop-" + ("owned" if owned else "borrowed"), dropped_iid=iid, destroyed_iid=i, cls=cls)
        if ev:
            self.bad("body-ran-on-drop", trace=[l for _, _, l in ev][:4])

    def run(self):
        r = self.rng
        self.step("pool-init")
        if hasattr(self.lib, "vf_pool_init"):
            self.lib.vf_pool_init()
        self.trace()
        self.baseline = set(self.live)
        self.lib0 = set(self.live)
        self.step("names")
        self.check_names()
        self.build_groups()
        if self.viol and any(k[0].startswith("name-missing:kind=class") for k in self.viol):
            return
        groups = list(self.groups.values())
        only = self.only
        if only:
            # focused replay of one callable group (witnesses of listed findings): constructors only category-exactly
            groups = [g for g in groups if g["kind"] == "ctor" or only in (g["name"], f"{g['owner']}::{g['name']}")]
        ctors = [g for g in groups if g["kind"] == "ctor"]
        others = [g for g in groups if g["kind"] != "ctor"]
        if only and only.startswith("ctor:"):
            others = [g for g in ctors if g["owner"] == only[5:]]
        # sources of const handles (needed by focused replays that pass const instances)
        helpers = [g for g in self.groups.values() if g["kind"] == "method" and len(g["fns"]) == 1 and
                   g["fns"][0].get("returns") == "this" and g["fns"][0]["ret"].get("mode") in ("cptr", "cref")] if only else []
        # populate: a few live instances per class
        for rnd in range(3):
            for g in ctors:
                self.make_call(g, "pos")
        # every group is called category-exactly at least once
        for g in others:
            for k in range(2):
                if g["kind"] != "ctor":
                    self.make_call(g, "pos")
        for i in range(self.nsteps):
            x = r.random()
            if only:
                if only == "@property":
                    self.do_property()
                elif only == "@member":
                    self.do_member()
                elif only == "@seq":
                    self.do_seq()
                elif only == "@setitem":
                    self.do_setitem()
                elif only == "@copy":
                    self.do_copy()
                elif only == "@names":
                    break
                elif x < 0.1 and helpers:
                    self.make_call(r.choice(helpers), "pos")
                elif x < 0.75 and others:
                    self.make_call(r.choice(others))
                elif x < 0.8:
                    self.make_call(r.choice(ctors), "pos")
                elif x < 0.93 and len(self.pool) > 6:
                    self.drop(r.choice(self.pool))
                continue
            if x < 0.62:
                self.make_call(r.choice(others if others and r.random() < 0.85 else ctors))
            elif x < 0.68:
                self.do_property()
            elif x < 0.73:
                self.do_member()
            elif x < 0.76:
                self.do_seq()
            elif x < 0.80:
                self.do_setitem()
            elif x < 0.93:
                if len(self.pool) > 6:
                    self.drop(r.choice(self.pool))
            elif x < 0.96:
                self.step("gc")
                self.trace()
                gc.collect()
                ev, created, destroyed = self.trace()
                if destroyed or created:
                    self.bad("gc-changed-ledger", destroyed=destroyed, created=created)
            elif x < 0.975:
                self.do_copy()
            elif x < 0.98:
                self.do_iadd_const()
            elif x < 0.985:
                r.choice([self.do_slot_alias, self.do_iter, self.do_reversed, self.do_synth_ne])()
            else:
                self.do_coerce_tuple()
        # const views of every item-assignment class are written to at least twice per history
        if not only:
            for c in self.m["classes"]:
                if c.get("item_array"):
                    self.do_setitem_const(c)
                    self.do_setitem_const(c)
            self.do_iadd_const()
            for _ in range(6):
                self.do_coerce_tuple()
            self.do_mi()
            for _ in range(6):
                self.do_slot_alias()
                self.do_reversed()
                self.do_synth_ne()
            self.do_iter()
            self.do_iter()
            self.do_const_defaults()
        # every remaining group once more (A, B, A)
        for g in reversed(others):
            if g["kind"] != "ctor":
                self.make_call(g, "pos")
        self.check_none_refs(others)
        # the end of the history: drop everything; exactly the library-owned instances stay alive
        while self.pool:
            self.drop(self.pool[-1], "final-drop")
        self.step("final-gc")
        gc.collect()
        self.trace()
        extra = set(self.live) - self.baseline
        if extra:
            self.bad("leak:owner=python,via=history-end", iids=sorted(extra)[:8], classes=sorted({self.live[i] for i in extra}))
        gone = [i for i in self.lib0 if i not in self.live]
        if gone:
            self.bad("library-instance-destroyed", iids=gone[:8])
        self.count("live_instances_at_end", len(self.live))

    def check_none_refs(self, groups):
        """a wrapper that hands out None without taking a reference makes the reference count of None sink by one per
        call: call a few void functions 200 times in a tight loop and watch the count"""
        done = 0
        for g in groups:
            if done >= 4:
                break
            if g["kind"] not in ("free", "method") or len(g["fns"]) != 1 or g["fns"][0]["ret"]["k"] != "void":
                continue
            f = g["fns"][0]
            if (g["owner"] + "::" if g["owner"] else "", g["name"]) in self.missing:
                continue
            if any(p["type"]["k"] == "enum" and p["type"].get("scoped") for p in f["params"]):
                continue      # converting an enum member runs Python code (enum.property), whose frames hold None
            recv = None
            if g["kind"] == "method" and not f.get("static"):
                recv = self.receiver_for(g["owner"], need_nonconst=not f.get("const"))
                if recv is None or self.resolve(g, recv) is not g:
                    continue
            args = [self.good_arg(p["type"]) for p in f["params"]]
            if any(a is None for a in args):
                continue
            pn = self.py_names(g["name"], "method")[0]
            fn = getattr(recv.w, pn) if recv is not None else getattr(self.pycls(g["owner"]) if g["owner"] else self.mod, pn)
            pa = tuple(a.py() for a in args)
            self.step(f"none-refcount loop {g['owner']}::{g['name']}")
            try:
                fn(*pa)
            except Exception:
                continue
            r0 = sys.getrefcount(None)
            for _ in range(200):
                fn(*pa)
            delta = sys.getrefcount(None) - r0
            self.trace()
            self.count("none_refcount_loops")
            self.features.add("refcount:none-loop:" + g["kind"])
            done += 1
            if delta <= -100:
                self.bad("refcount:none-reference-lost:kind=" + g["kind"] + ("-static" if f.get("static") else ""),
                         function=f["qname"], calls=200, delta=delta)

    def do_copy(self):
        import copy
        owned = [t for t in self.pool]
        if not owned:
            return
        t = self.rng.choice(owned)
        c = self.classes[t.cls]
        g = self.groups[("ctor", t.cls, t.cls)]
        cc = [f for f in g["fns"] if f.get("copy")]
        gg = dict(kind="ctor", owner=t.cls, name="copy.copy", fns=cc)
        self.features.add("copy.copy")
        self.call(gg, None, [Arg("obj", t=t)], {}, lambda a, k: copy.copy(a[0]), "copy.copy", None)


def main():
    d, modelf, seed, nsteps, mangle = sys.argv[1:6]
    only = sys.argv[6] if len(sys.argv) > 6 and sys.argv[6] else None
    err = None
    drv = None
    try:
        drv = Driver(d, json.load(open(modelf)), int(seed), int(nsteps), mangle == "1", only)
        drv.run()
    except Exception:
        import traceback
        err = traceback.format_exc()
    out = dict(violations=drv.viol if drv else [], features=sorted(drv.features) if drv else [], counts=drv.counts if drv else {},
               error=err)
    sys.stdout.write("VFRESULT " + json.dumps(out, default=repr) + "\n")
    sys.stdout.flush()
    os._exit(0)


if __name__ == "__main__":
    main()
