"""Core of the runtime-monitoring framework for panda3d/interrogate.

Everything here is stdlib-only Python 3.11.  See DESIGN.md §2.

 - build(flavor)      mirror /repo's working tree and build it with sanitizers
 - run(cmd, ...)      run a child under a watchdog, classify how it ended
 - Check              per-property run context: seed, tier, work dir, pool,
                      violation/known-finding bookkeeping, evidence writer
"""
import fcntl
import hashlib
import json
import os
import random
import re
import shutil
import signal
import subprocess
import sys
import time
import traceback
from concurrent.futures import ProcessPoolExecutor, as_completed

VERIF = os.path.dirname(os.path.dirname(os.path.abspath(__file__)))
REPO = os.environ.get("VERIF_REPO", "/repo")
CACHE = os.environ.get("VERIF_CACHE", "/var/tmp/interrogate-verif")
NPROC = min(16, os.cpu_count() or 4)
GUARD = "INTERROGATE_VERIF"

ARITH_RECOVER = "-fsanitize-recover=signed-integer-overflow,shift,float-cast-overflow"
FLAVORS = {
    # gcc ASan+UBSan, asserts on: the default flavour every check uses.
    "asan": dict(
        cxx="g++",
        flags="-O1 -g -fno-omit-frame-pointer -fsanitize=address,undefined "
              "-fno-sanitize-recover=all " + ARITH_RECOVER +
              " -D_GLIBCXX_ASSERTIONS -D" + GUARD,
        ldflags="-fsanitize=address,undefined",
        targets=["interrogate", "interrogate_module", "parse_file"],
    ),
    # UBSan only: does not replace malloc, so LD_PRELOAD interposers work.
    "ubsan": dict(
        cxx="g++",
        flags="-O1 -g -fno-omit-frame-pointer -fsanitize=undefined "
              "-fno-sanitize-recover=all " + ARITH_RECOVER +
              " -D_GLIBCXX_ASSERTIONS -D" + GUARD,
        ldflags="-fsanitize=undefined",
        targets=["interrogate", "interrogate_module", "parse_file"],
    ),
    # plain optimized build, guard OFF (baseline and throughput-only uses)
    "plain": dict(
        cxx="g++",
        flags="-O2 -g",
        ldflags="",
        targets=["interrogate", "interrogate_module", "parse_file"],
    ),
    # the repository's own default configuration (CMAKE_BUILD_TYPE=Standard: -O3 -ffast-math ...), no sanitizer
    "standard": dict(
        cxx="g++",
        flags="",
        ldflags="",
        bt="Standard",
        targets=["interrogate", "interrogate_module", "parse_file"],
    ),
    # clang libFuzzer instrumentation of the libraries only
    "fuzz": dict(
        cxx="clang++-14",
        cc="clang-14",
        flags="-O1 -g -fno-omit-frame-pointer -fsanitize=fuzzer-no-link,address,undefined "
              "-fno-sanitize=object-size,vptr,function -fno-sanitize-recover=all "
              "-fsanitize-recover=signed-integer-overflow,shift,float-cast-overflow -D" + GUARD,
        ldflags="-fsanitize=address,undefined",
        targets=["cppParser", "interrogatedb"],
    ),
}

SAN_ENV = {
    "ASAN_OPTIONS": "detect_leaks=0:abort_on_error=1:allocator_may_return_null=1:"
                    "handle_abort=1:detect_stack_use_after_return=0",
    "UBSAN_OPTIONS": "print_stacktrace=1",
    "LC_ALL": "C",
    "SOURCE_DATE_EPOCH": "0",
}


class HarnessError(Exception):
    """The machinery failed (exit 2); never a verdict on the property."""


# ---------------------------------------------------------------------------
# building
# ---------------------------------------------------------------------------

class Built:
    def __init__(self, flavor, root, src):
        self.flavor = flavor
        self.root = root
        self.src = src                      # mirrored source tree
        self.bin = os.path.join(root, "bin")
        self.lib = os.path.join(root, "lib")
        self.interrogate = os.path.join(self.bin, "interrogate")
        self.interrogate_module = os.path.join(self.bin, "interrogate_module")
        self.parse_file = os.path.join(self.bin, "parse_file")
        self.parser_inc = os.path.join(src, "parser-inc")

    def includes(self):
        s = self.src
        return ["-I" + os.path.join(s, "src", d) for d in
                ("dtoolbase", "dtoolutil", "interrogatedb", "cppparser")] + \
               ["-I" + os.path.join(self.root, "include"), "-I" + self.root]

    def libs(self, *names):
        order = ["interrogatedb", "cppParser", "dtoolutil", "dtoolbase"]
        names = names or order
        out = []
        for n in order:
            if n in names:
                for cand in (f"lib{n}.a", f"libp3{n}.a"):
                    p = os.path.join(self.lib, cand)
                    if os.path.exists(p):
                        out.append(p)
                        break
        return out


def _sh(cmd, **kw):
    return subprocess.run(cmd, stdout=subprocess.PIPE, stderr=subprocess.STDOUT,
                          text=True, errors="replace", **kw)


_built_cache = {}


def build(flavor="asan", quiet=True):
    """Mirror REPO's working tree and (re)build it as `flavor`.  Idempotent,
    content-based, safe to call concurrently (flock)."""
    key = (flavor, REPO)
    if key in _built_cache:
        return _built_cache[key]
    if flavor not in FLAVORS:
        raise HarnessError("unknown flavor " + flavor)
    fl = FLAVORS[flavor]
    os.makedirs(CACHE, exist_ok=True)
    src = os.path.join(CACHE, "src")
    root = os.path.join(CACHE, flavor)
    lock = open(os.path.join(CACHE, ".lock"), "w")
    fcntl.flock(lock, fcntl.LOCK_EX)
    try:
        os.makedirs(src, exist_ok=True)
        r = _sh(["rsync", "-rlc", "--delete", "--exclude", "/_build", "--exclude", "/.git",
                 "--exclude", "__pycache__", REPO.rstrip("/") + "/", src + "/"])
        if r.returncode != 0:
            raise HarnessError("rsync failed: " + r.stdout)
        stamp = os.path.join(root, ".flags")
        want = json.dumps(fl, sort_keys=True)
        if not os.path.exists(os.path.join(root, "build.ninja")) or \
                not os.path.exists(stamp) or open(stamp).read() != want:
            shutil.rmtree(root, ignore_errors=True)
            os.makedirs(root)
            cmd = ["cmake", "-G", "Ninja", "-S", src, "-B", root,
                   "-DCMAKE_BUILD_TYPE=" + fl.get("bt", "Debug"), "-DCMAKE_UNITY_BUILD=OFF",
                   "-DBUILD_SHARED_LIBS=OFF", "-DHAVE_PYTHON=OFF",
                   "-DCMAKE_CXX_COMPILER=" + fl["cxx"],
                   "-DCMAKE_CXX_FLAGS=" + fl["flags"] + " -Wno-error",
                   "-DCMAKE_EXE_LINKER_FLAGS=" + fl["ldflags"]]
            if "cc" in fl:
                cmd.append("-DCMAKE_C_COMPILER=" + fl["cc"])
            r = _sh(cmd)
            if r.returncode != 0:
                raise HarnessError("cmake configure failed:\n" + r.stdout[-4000:])
            open(stamp, "w").write(want)
        r = _sh(["ninja", "-C", root, "-j", str(NPROC)] + fl["targets"])
        if r.returncode != 0:
            raise HarnessError(f"build of flavor {flavor} failed:\n" + r.stdout[-6000:])
    finally:
        fcntl.flock(lock, fcntl.LOCK_UN)
        lock.close()
    b = Built(flavor, root, src)
    _built_cache[key] = b
    return b


def build_harness(name, sources, flavor="asan", extra=(), libs=("interrogatedb", "cppParser", "dtoolutil", "dtoolbase"),
                  out_kind="exe"):
    """Compile a harness program from /verif/harness against the flavor's static
    libs.  Rebuilt when sources or the libs changed (content hash)."""
    b = build(flavor)
    fl = FLAVORS[flavor]
    srcs = [s if os.path.isabs(s) else os.path.join(VERIF, "harness", s) for s in sources]
    libs_p = b.libs(*libs) if libs else []
    h = hashlib.sha256()
    for p in srcs + libs_p:
        h.update(open(p, "rb").read())
    # headers of the mirrored tree matter too: hash their stat signature cheaply
    for d in ("interrogatedb", "dtoolbase", "dtoolutil", "cppparser"):
        dd = os.path.join(b.src, "src", d)
        for f in sorted(os.listdir(dd)):
            if f.endswith((".h", ".I", ".T")):
                h.update(open(os.path.join(dd, f), "rb").read())
    h.update(" ".join(extra).encode() + fl["flags"].encode())
    outdir = os.path.join(CACHE, "harness-" + flavor)
    os.makedirs(outdir, exist_ok=True)
    out = os.path.join(outdir, name)
    stamp = out + ".sha"
    digest = h.hexdigest()
    lock = open(os.path.join(CACHE, ".lock-h-" + name), "w")
    fcntl.flock(lock, fcntl.LOCK_EX)
    try:
        if os.path.exists(out) and os.path.exists(stamp) and open(stamp).read() == digest:
            return out
        tmp = out + ".tmp%d" % os.getpid()
        cmd = [fl["cxx"], "-std=gnu++17"] + fl["flags"].split() + b.includes() + list(extra) + \
            ["-o", tmp] + srcs + libs_p + fl["ldflags"].split()
        if out_kind == "so":
            cmd += ["-shared", "-fPIC"]
        r = _sh(cmd)
        if r.returncode != 0:
            raise HarnessError(f"harness {name} failed to build:\n" + r.stdout[-6000:])
        os.replace(tmp, out)
        open(stamp, "w").write(digest)
    finally:
        fcntl.flock(lock, fcntl.LOCK_UN)
        lock.close()
    return out


# ---------------------------------------------------------------------------
# running children
# ---------------------------------------------------------------------------

class Result:
    __slots__ = ("rc", "sig", "out", "err", "timed_out", "wall")

    def __init__(self, rc, sig, out, err, timed_out, wall):
        self.rc, self.sig, self.out, self.err, self.timed_out, self.wall = rc, sig, out, err, timed_out, wall

    # -- classification used by C15 and by every check that runs the tools --
    def asan_report(self):
        return "AddressSanitizer" in self.err or "LeakSanitizer" in self.err

    def ubsan_fatal(self):
        # non-recoverable UBSan kinds abort the process right after the report
        return "runtime error:" in self.err and self.died()

    def ubsan_arith(self):
        return len(re.findall(r"runtime error:", self.err))

    def uncaught(self):
        m = re.search(r"terminate called after throwing an instance of '([^']+)'", self.err)
        return m.group(1) if m else None

    def died(self):
        """killed by a signal / abort / sanitizer (as opposed to an ordinary exit)."""
        return self.sig is not None or self.rc in (134, 139, 136, 132, 135) or self.rc < 0

    def how(self):
        if self.timed_out:
            return "timeout"
        if self.asan_report():
            m = re.search(r"AddressSanitizer: ([\w-]+)", self.err)
            return "asan:" + (m.group(1) if m else "?")
        if self.uncaught():
            return "uncaught:" + self.uncaught()
        if "Assertion" in self.err and "failed" in self.err and self.died():
            return "assert"
        if self.ubsan_fatal():
            return "ubsan"
        if self.died():
            return "signal:" + str(self.sig if self.sig is not None else self.rc)
        return "exit:" + str(self.rc)

    def frames(self, n=3):
        """top in-project frames of a sanitizer/abort report, line numbers stripped."""
        fr = []
        for m in re.finditer(r"#\d+ 0x[0-9a-f]+ in (.+?) (?:/[^\s]*/)?(?:src/)?([\w./-]+?):\d+", self.err):
            fn, f = m.group(1), m.group(2)
            if "/src/" in m.group(0) or "cpp" in f or "interrogate" in f:
                fn = re.sub(r"\(.*", "", fn)
                if fn not in fr:
                    fr.append(fn)
            if len(fr) >= n:
                break
        return fr


def run(cmd, timeout=20, env=None, cwd=None, input=None, binary=False, preload=None):
    e = dict(os.environ)
    e.update(SAN_ENV)
    if env:
        e.update({k: v for k, v in env.items() if v is not None})
        for k, v in env.items():
            if v is None:
                e.pop(k, None)
    if preload:
        e["LD_PRELOAD"] = preload
    t0 = time.time()
    try:
        p = subprocess.Popen(cmd, stdin=subprocess.PIPE if input is not None else subprocess.DEVNULL,
                             stdout=subprocess.PIPE, stderr=subprocess.PIPE, env=e, cwd=cwd,
                             start_new_session=True)
    except OSError as ex:
        raise HarnessError(f"cannot start {cmd[0]}: {ex}")
    timed_out = False
    try:
        out, err = p.communicate(input=input, timeout=timeout)
    except subprocess.TimeoutExpired:
        timed_out = True
        try:
            os.killpg(p.pid, signal.SIGKILL)
        except OSError:
            pass
        out, err = p.communicate()
    rc = p.returncode
    sig = -rc if rc is not None and rc < 0 else None
    if not binary:
        out = out.decode("utf-8", "replace")
    err = err.decode("utf-8", "replace")
    return Result(rc, sig if not timed_out else None, out, err, timed_out, time.time() - t0)


def run_confirm_hang(cmd, timeout=20, **kw):
    """double-confirmed watchdog: re-run a timed-out command once; only a second
    timeout is reported as a hang."""
    r = run(cmd, timeout=timeout, **kw)
    if r.timed_out:
        r2 = run(cmd, timeout=timeout * 2, **kw)
        return r2
    return r


# ---------------------------------------------------------------------------
# ddmin
# ---------------------------------------------------------------------------

def ddmin(items, fails, max_tests=200):
    """Classic delta debugging over a list; `fails(sub)` is True when the sub-list
    still shows the same failure."""
    n = 2
    items = list(items)
    tests = 0
    while len(items) >= 2 and tests < max_tests:
        chunk = max(1, len(items) // n)
        subsets = [items[i:i + chunk] for i in range(0, len(items), chunk)]
        reduced = False
        for i, s in enumerate(subsets):
            comp = [x for j, ss in enumerate(subsets) if j != i for x in ss]
            tests += 1
            if comp and fails(comp):
                items = comp
                n = max(n - 1, 2)
                reduced = True
                break
            if tests >= max_tests:
                break
        if not reduced:
            if n >= len(items):
                break
            n = min(len(items), n * 2)
    return items


# ---------------------------------------------------------------------------
# known findings
# ---------------------------------------------------------------------------

def load_findings():
    """Known findings live in /verif/findings/<PID>.json ({"findings": [...]}), committed,
    never written at run time.  Entry: {property, key, status: open|fixed, commit?, summary, case}."""
    out = []
    d = os.path.join(VERIF, "findings")
    if os.path.isdir(d):
        for f in sorted(os.listdir(d)):
            if f.endswith(".json"):
                out.extend(json.load(open(os.path.join(d, f)))["findings"])
    return out


# ---------------------------------------------------------------------------
# check context
# ---------------------------------------------------------------------------

class CaseResult:
    """What one executed case reports back to the monitor."""

    def __init__(self):
        self.violations = []     # (key, detail-dict)
        self.features = set()    # feature signatures actually observed
        self.counters = {}       # name -> int
        self.inconclusive = None  # reason or None
        self.sample = None

    def violation(self, key, **detail):
        self.violations.append((key, detail))

    def count(self, name, n=1):
        self.counters[name] = self.counters.get(name, 0) + n

    def to_json(self):
        return dict(violations=self.violations, features=sorted(self.features), counters=self.counters,
                    inconclusive=self.inconclusive, sample=self.sample)


def _pool_entry(args):
    modname, fn, ctxd, case = args
    import importlib
    mod = importlib.import_module(modname)
    ctx = Ctx(**ctxd)
    try:
        res = getattr(mod, fn)(ctx, case)
        if res is None:
            res = CaseResult()
        return case, res.to_json(), None
    except HarnessError as ex:
        return case, None, "HarnessError: " + str(ex)
    except Exception:
        return case, None, traceback.format_exc()


class Ctx:
    """Light context handed to run_case in worker processes."""

    def __init__(self, pid, tier, seed, work, flavor_paths=None):
        self.pid, self.tier, self.seed, self.work = pid, tier, seed, work
        self._n = 0

    def asdict(self):
        return dict(pid=self.pid, tier=self.tier, seed=self.seed, work=self.work)

    def casedir(self, case_id):
        d = os.path.join(self.work, "c", str(case_id))
        os.makedirs(d, exist_ok=True)
        return d


class Check:
    def __init__(self, pid, tier="quick", seed=None, level="exploration"):
        self.pid = pid
        self.tier = tier
        self.seed = int(os.environ.get("VERIF_SEED", "1")) if seed is None else seed
        self.rng = random.Random(f"{pid}:{self.seed}")
        self.level = level
        self.t0 = time.time()
        self.work = os.path.join(CACHE, f"run-{pid}-{os.getpid()}")
        shutil.rmtree(self.work, ignore_errors=True)
        os.makedirs(self.work)
        self.findings = [f for f in load_findings() if f["property"] == pid]
        self.open_keys = {f["key"]: f for f in self.findings if f["status"] == "open"}
        self.known_hit = {}      # key -> count
        self.violations = []     # (key, detail, case)
        self.features = set()
        self.counters = {}
        self.samples = []
        self.evaluations = 0
        self.inconclusive = 0
        self.inconclusive_reasons = {}
        self.harness_errors = []
        self.extra = {}
        self.rule = ""
        self.assumptions = []
        self.exhaustive = None
        self.min_conclusive = 1

    # -- context for workers
    def ctx(self):
        return Ctx(self.pid, self.tier, self.seed, self.work)

    def quick(self):
        return self.tier != "thorough"

    def pick(self, quick, thorough):
        return quick if self.quick() else thorough

    def count(self, name, n=1):
        self.counters[name] = self.counters.get(name, 0) + n

    # -- running cases
    def absorb(self, case, resj):
        self.evaluations += 1
        if resj["inconclusive"]:
            self.inconclusive += 1
            r = str(resj["inconclusive"])
            self.inconclusive_reasons[r] = self.inconclusive_reasons.get(r, 0) + 1
        for f in resj["features"]:
            self.features.add(f)
        for k, v in resj["counters"].items():
            self.count(k, v)
        if resj.get("sample") is not None and len(self.samples) < 5:
            self.samples.append(resj["sample"])
        for key, detail in resj["violations"]:
            self.report(key, detail, case)

    def run_cases(self, modname, cases, fn="run_case", workers=None, chunksize=1):
        """Run `modname.fn(ctx, case)` over all cases in a process pool."""
        cases = list(cases)
        ctxd = self.ctx().asdict()
        workers = workers or NPROC
        if len(cases) == 0:
            return
        if workers == 1 or len(cases) == 1:
            for c in cases:
                case, resj, err = _pool_entry((modname, fn, ctxd, c))
                if err:
                    self.harness_errors.append(err)
                else:
                    self.absorb(case, resj)
            return
        with ProcessPoolExecutor(max_workers=workers) as ex:
            futs = [ex.submit(_pool_entry, (modname, fn, ctxd, c)) for c in cases]
            for fu in as_completed(futs):
                case, resj, err = fu.result()
                if err:
                    self.harness_errors.append(err)
                else:
                    self.absorb(case, resj)

    # -- violations
    def report(self, key, detail, case=None):
        full = key if key.startswith(self.pid + ":") else f"{self.pid}:{key}"
        if isinstance(detail, dict) and "replay_case" in detail:
            detail = dict(detail)
            case = detail.pop("replay_case")
        if full in self.open_keys:
            self.known_hit[full] = self.known_hit.get(full, 0) + 1
            return False
        self.violations.append((full, detail, case))
        return True

    def _save_replay(self, idx, key, detail, case):
        d = os.path.join(os.environ.get("VERIF_OUT", os.path.join(VERIF, "out")), "replays", self.pid)
        os.makedirs(d, exist_ok=True)
        h = hashlib.sha1((key + json.dumps(case, sort_keys=True, default=str)).encode()).hexdigest()[:12]
        p = os.path.join(d, f"{h}.json")
        json.dump(dict(property=self.pid, key=key, detail=detail, case=case, seed=self.seed, tier=self.tier),
                  open(p, "w"), indent=1, default=str)
        return p

    # -- finishing
    def finish(self):
        wall = time.time() - self.t0
        conclusive = self.evaluations - self.inconclusive
        cov = dict(
            evaluations=self.evaluations,
            distinct_nontrivial=len(self.features),
            rule=self.rule,
            samples=self.samples[:5],
            inconclusive=self.inconclusive,
            inconclusive_reasons=self.inconclusive_reasons,
            known_findings_hit=self.known_hit,
            counters=self.counters,
            feature_signatures=sorted(self.features)[:200],
        )
        if self.exhaustive is not None:
            cov["exhaustive"] = bool(self.exhaustive)
        cov.update(self.extra)
        if self.level == "translation_validation":
            cov.setdefault("programs", self.counters.get("programs", self.evaluations))
            cov.setdefault("disagreements_checked", len(self.violations) + sum(self.known_hit.values()))
        ev = dict(property_id=self.pid, tier="thorough" if self.tier == "thorough" else "quick",
                  seed=self.seed, level=self.level, coverage=cov, assumptions=self.assumptions,
                  wall_s=round(wall, 2), violations=len(self.violations))
        os.makedirs(os.path.join(VERIF, "evidence"), exist_ok=True)
        evp = os.path.join(VERIF, "evidence", f"{self.pid}.json")
        try:
            json.dump(ev, open(evp + ".tmp", "w"), indent=1, default=str)
            os.replace(evp + ".tmp", evp)
        except OSError as ex:
            self.harness_errors.append("evidence not writable: " + str(ex))
        shutil.rmtree(self.work, ignore_errors=True)

        for full, n in sorted(self.known_hit.items()):
            f = self.open_keys[full]
            print(f"KNOWN-FINDING: property={self.pid} key={full} hits={n} {f['summary']}")
        seen = set()
        for i, (key, detail, case) in enumerate(self.violations):
            if key in seen and len(seen) > 0 and i > 50:
                continue
            seen.add(key)
            p = self._save_replay(i, key, detail, case)
            print(f"VIOLATION property={self.pid} replay={p} key={key} {json.dumps(detail, default=str)[:400]}")
        print(f"[{self.pid}] tier={self.tier} seed={self.seed} evaluations={self.evaluations} "
              f"conclusive={conclusive} distinct={len(self.features)} violations={len(self.violations)} "
              f"known={sum(self.known_hit.values())} inconclusive={self.inconclusive} wall={wall:.1f}s")
        if self.violations:
            return 1
        if self.harness_errors:
            for e in self.harness_errors[:5]:
                print("HARNESS-ERROR:", e, file=sys.stderr)
            return 2
        if conclusive < self.min_conclusive or len(self.features) < 2:
            print(f"HARNESS-ERROR: observed too little (conclusive={conclusive}, distinct={len(self.features)})",
                  file=sys.stderr)
            return 2
        return 0
