"""treegen -- small directory trees for C17 (include lookup, once-only inclusion, ownership).

A *case* is a JSON-serialisable dict that fully describes

  dirs      directories (relative to the case root)
  symlinks  [path, target] pairs (dir and file symlinks)
  units     the header files.  Every unit is a physical file carrying a unique
            marker declaration `int mk_<name>_<id>;`, a marker macro
            `V_<name> = id+1`, an inclusion counter (`C1_<name>`, `C2_<name>`),
            a published marker class `Own_<name>_<id>` and its #include sites.
            Several units may share a *name* (same-named headers in several
            candidate directories).
  runs      tool invocations over that tree: tool, invocation cwd (relative to
            root), argv template (`@R` = absolute root, `@O` = output dir), and
            the *model* of that argv (search directories in command-line order,
            -noangles, -srcdir, command-line files) which is the generator's
            own ground truth; the oracle never parses argv.

Rendering a unit to text is a pure function of the case (render_unit), so a
stored case replays exactly.  Nothing here looks at interrogate's sources: the
spellings are the ones the property statement lists (., .., repeated slashes,
symlinks) applied to the #include operand, to the -I/-S/-srcdir operands and
to the command-line file.
"""
import os
import random

TOP = ["p", "q", "r", "m"]          # candidate top-level dirs besides the working dir "w"

# operand spellings (relative to a candidate directory D) ---------------------------------
#   kind        operand            where the file must be so that D/operand names it
#   plain       N.h                D/N.h
#   dot         ./N.h              D/N.h
#   dslash      .//N.h             D/N.h
#   sub         n/N.h              D/n/N.h
#   subdot      n/./N.h            D/n/N.h
#   subdotdot   n/../N.h           D/N.h  (and D/n must be a directory -- kernel semantics)
#   updown      ../X/N.h           X/N.h  (X a top-level dir; only meaningful from top-level D)
#   symdir      ln/N.h             T/N.h where D/ln -> T
#   symfile     N.h                D/N.h is a symlink to a unit elsewhere
#   abs         @R/X/N.h           X/N.h
#   symup       lu/../N.h          T/N.h where D/lu -> T/n (the kernel), D/N.h (lexical ..-removal)
OPERAND_SPELLINGS = ["plain", "dot", "dslash", "sub", "subdot", "subdotdot", "updown", "symdir", "symfile", "abs", "symup"]
OP_WEIGHTS = [7, 3, 1, 3, 1, 3, 2, 3, 3, 1, 1]

# spellings of a directory operand (-I/-S/-srcdir) and of the directory part of a command-line file
DIR_SPELLINGS = ["abs", "rel", "trail", "dslash", "dot", "sym", "subup", "symup", "abssym"]
DIR_WEIGHTS = [3, 5, 2, 2, 2, 3, 2, 1, 1]


def _rel(path, start):
    return os.path.relpath(os.path.join("/R", path), os.path.join("/R", start))


class _B:
    """builder state"""

    def __init__(self, rng):
        self.rng = rng
        self.dirs = set()
        self.symlinks = {}
        self.units = []
        self.names = []

    def add_dir(self, d):
        parts = d.split("/")
        for i in range(1, len(parts) + 1):
            self.dirs.add("/".join(parts[:i]))

    def unit(self, name, path, protect="none", kind="hdr"):
        for u in self.units:
            if u["path"] == path:
                return u
        u = dict(id=len(self.units), name=name, path=path, protect=protect, kind=kind, sites=[])
        self.units.append(u)
        self.add_dir(os.path.dirname(path))
        if name not in self.names:
            self.names.append(name)
        return u

    def occupied(self, path):
        return path in self.symlinks or path in self.dirs or any(u["path"] == path for u in self.units)


def spell_dir(b, rng, d, cwd, allow=None, weights=None):
    """A spelling of directory `d` (relative to root) as seen from `cwd` (relative to root).
    Returns (operand, spelling-kind); may add symlinks/dirs to the tree."""
    kinds = allow or DIR_SPELLINGS
    w = weights or [DIR_WEIGHTS[DIR_SPELLINGS.index(k)] for k in kinds]
    kind = rng.choices(kinds, w)[0]
    rel = _rel(d, cwd)
    if kind == "abs":
        return "@R/" + d, kind
    if kind == "rel":
        return rel, kind
    if kind == "trail":
        return rel + "/", kind
    if kind == "dslash":
        if "/" in rel:
            i = rel.index("/")
            return rel[:i] + "//" + rel[i + 1:], kind
        return rel + "//", kind
    if kind == "dot":
        return (rel + "/.") if rng.random() < 0.5 else ("./" + rel), kind
    if kind in ("sym", "abssym"):
        ln = "l_" + d.replace("/", "_")
        b.symlinks[ln] = d
        return (_rel(ln, cwd) if kind == "sym" else "@R/" + ln), kind
    if kind == "subup":
        b.add_dir(d + "/n")
        return rel + "/n/..", kind
    if kind == "symup":
        # root/lu_<d> -> d/n ; "<lu>/.." is d physically, root lexically
        b.add_dir(d + "/n")
        ln = "lu_" + d.replace("/", "_")
        b.symlinks[ln] = d + "/n"
        return _rel(ln, cwd) + "/..", kind
    raise AssertionError(kind)


def _place(b, rng, name, spell, dirs, protect, cap):
    """Create up to `cap` placements so that D/operand names a unit for several D in `dirs`.
    Returns the operand."""
    rng.shuffle(dirs)
    chosen = dirs[:cap]
    base = name + ".h"
    if spell in ("plain", "dot", "dslash"):
        op = {"plain": base, "dot": "./" + base, "dslash": ".//" + base}[spell]
        for d in chosen:
            if not b.occupied(d + "/" + base):
                b.unit(name, d + "/" + base, protect)
        return op
    if spell in ("sub", "subdot"):
        for d in chosen:
            if not b.occupied(d + "/n/" + base):
                b.unit(name, d + "/n/" + base, protect)
        return ("n/" + base) if spell == "sub" else ("n/./" + base)
    if spell == "subdotdot":
        for d in chosen:
            if not b.occupied(d + "/" + base):
                b.unit(name, d + "/" + base, protect)
                if rng.random() < 0.6:
                    b.add_dir(d + "/n")
        return "n/../" + base
    if spell == "updown":
        tops = [d for d in chosen if "/" not in d] or ["p"]
        x = tops[0]
        if not b.occupied(x + "/" + base):
            b.unit(name, x + "/" + base, protect)
        return "../" + x + "/" + base
    if spell == "symdir":
        for d in chosen:
            if d + "/ln" in b.symlinks:
                t = os.path.normpath(os.path.join(d, b.symlinks[d + "/ln"]))
            elif not b.occupied(d + "/ln"):
                others = [x for x in dirs if x != d and "/" not in x] or ["p"]
                t = rng.choice(others + [d + "/n"])
                b.add_dir(t)
                b.symlinks[d + "/ln"] = os.path.relpath("/R/" + t, "/R/" + d)
            else:
                continue
            if not b.occupied(t + "/" + base):
                b.unit(name, t + "/" + base, protect)
        return "ln/" + base
    if spell == "symfile":
        # real units live under distinct file names in a store dir; D/N.h are symlinks to them
        for i, d in enumerate(chosen):
            if b.occupied(d + "/" + base):
                continue
            if i > 0 and rng.random() < 0.4:
                # a plain (non-symlink) competitor
                b.unit(name, d + "/" + base, protect)
                continue
            store = rng.choice(["store", d])
            real = "%s/real%d_%s" % (store, i, base)
            if b.occupied(real):
                continue
            b.unit(name, real, protect)
            b.symlinks[d + "/" + base] = os.path.relpath("/R/" + real, "/R/" + d)
        return base
    if spell == "symup":
        # D/lu -> <T>/n for another dir T: "lu/../N.h" is T/N.h for the kernel, D/N.h lexically
        for d in chosen:
            others = [x for x in dirs if x != d and "/" not in x] or ["p"]
            if d + "/lu" in b.symlinks or b.occupied(d + "/lu"):
                continue
            t = rng.choice(others)
            b.add_dir(t + "/n")
            b.symlinks[d + "/lu"] = os.path.relpath("/R/" + t + "/n", "/R/" + d)
            for x in (t, d):
                if rng.random() < 0.7 and not b.occupied(x + "/" + base):
                    b.unit(name, x + "/" + base, protect)
        return "lu/../" + base
    if spell == "abs":
        x = chosen[0] if chosen else "p"
        if not b.occupied(x + "/" + base):
            b.unit(name, x + "/" + base, protect)
        return "@R/" + x + "/" + base
    raise AssertionError(spell)


def gen_case(seed, tools=("parse_file", "interrogate"), focus=None):
    """One tree + its runs.  focus: None | 'resolve' | 'once' | 'own' | 'order' biases the shape."""
    rng = random.Random("tree:%s" % seed)
    b = _B(rng)
    focus = focus or rng.choice(["resolve", "resolve", "once", "own"])
    ntop = rng.randint(2, 4)
    tops = rng.sample(TOP, ntop)
    wd = "w"
    b.add_dir(wd)
    for d in tops:
        b.add_dir(d)
    for d in [wd] + tops:
        if rng.random() < 0.4:
            b.add_dir(d + "/n")

    # where the main file lives
    r = rng.random()
    if r < 0.55:
        main_dir = wd
    elif r < 0.8:
        main_dir = rng.choice(tops)
    else:
        main_dir = wd + "/n"
        b.add_dir(main_dir)
    main = b.unit("main0", main_dir + "/main0.h", rng.choice(["none", "none", "pragma"]), kind="main")

    # search directories: 0..4 of -I/-S over the top dirs (sometimes the working dir itself)
    nsearch = rng.choice([0, 1, 2, 2, 3, 3, 4])
    if focus == "order":
        nsearch = rng.choice([2, 3, 3, 4])
    search_dirs = []
    for _ in range(nsearch):
        d = rng.choice(tops + ([wd] if rng.random() < 0.1 else []))
        if rng.random() < 0.15 and (d + "/n") in b.dirs:
            d = d + "/n"
        search_dirs.append([rng.choice("IIS"), d])
    if focus == "own" and not any(k == "S" for k, _ in search_dirs):
        search_dirs.append(["S", rng.choice(tops)])

    cand = [wd, main_dir] + [d for _, d in search_dirs]
    other = [d for d in tops if d not in cand]
    cand_dirs = list(dict.fromkeys(cand + other[:1]))

    # names and sites
    nnames = rng.randint(2, 4)
    nested = focus != "once" and rng.random() < 0.5
    for i in range(nnames):
        name = "h%d" % (i + 1)
        protect = "none"
        spell = rng.choices(OPERAND_SPELLINGS, OP_WEIGHTS)[0]
        form = "angle" if rng.random() < 0.35 else "quote"
        if spell == "abs":
            form = "quote"
        cap = rng.choice([0, 1, 2, 2, 3, 3])
        if focus == "once" and i == 0:
            protect = rng.choice(["pragma", "pragma", "guard"])
            cap = 1
        includers = [main]
        dirs = list(cand_dirs)
        if focus == "order":
            # same-named headers only in (several of) the search directories: the command-line order decides
            dirs = list(dict.fromkeys(d for _, d in search_dirs))
            cap = rng.choice([2, 2, 3])
            spell = rng.choice(["plain", "plain", "dot", "sub"])
        if nested and i >= 1 and rng.random() < 0.7:
            # included from (every same-named copy of) h1: the copies are identical in their sites
            h1s = [u for u in b.units if u["name"] == "h1"]
            if h1s:
                includers = h1s
                dirs = list(dict.fromkeys(dirs + [os.path.dirname(u["path"]) for u in h1s]))
        op = _place(b, rng, name, spell, dirs, protect, cap)
        site = dict(form=form, operand=op, name=name, spell=spell)
        for inc in includers:
            inc["sites"].append(dict(site))
        if focus == "once" and i == 0:
            us = [u for u in b.units if u["name"] == name]
            if us:
                _extra_once_sites(b, rng, us[0], main, site, wd, search_dirs)

    # command line
    runs = []
    extra_main = None
    if focus in ("own", "once") and rng.random() < 0.6:
        # a second command-line file which is *also* included by main0 (named + found through a search dir)
        hs = [u for u in b.units if u["kind"] == "hdr" and not u["sites"]]
        if hs:
            extra_main = rng.choice(hs)
            if extra_main["protect"] == "none":
                for u in b.units:
                    if u["name"] == extra_main["name"]:
                        u["protect"] = "pragma" if rng.random() < 0.7 else "guard"

    for tool in tools:
        run = _gen_run(b, rng, tool, wd, main, extra_main, search_dirs, tops)
        if run:
            runs.append(run)

    for u in b.units:
        for st in u["sites"]:
            if st["name"] not in b.names:
                b.names.append(st["name"])
    case = dict(kind="tree", id="t%s" % seed, focus=focus, dirs=sorted(b.dirs),
                symlinks=sorted([k, v] for k, v in b.symlinks.items()),
                units=b.units, names=b.names, runs=runs)
    return case


def _extra_once_sites(b, rng, unit, main, site0, wd, search_dirs):
    """Further sites in main0 that reach the *same* physical file under other spellings."""
    d = os.path.dirname(unit["path"])
    base = os.path.basename(unit["path"])
    name = unit["name"]
    n = rng.randint(1, 3)
    for _ in range(n):
        k = rng.choice(["rel", "dotrel", "dslash", "updown", "symdir", "alias", "abs", "same", "subup"])
        rel = _rel(unit["path"], wd)
        if k == "rel":
            op = rel
        elif k == "dotrel":
            op = "./" + rel
        elif k == "dslash":
            op = os.path.dirname(rel) + "//" + base if "/" in rel else ".//" + base
        elif k == "updown":
            op = "../" + wd + "/" + rel
        elif k == "symdir":
            ln = "l_" + d.replace("/", "_")
            b.symlinks[ln] = d
            op = _rel(ln, wd) + "/" + base
        elif k == "alias":
            al = d + "/alias_" + base
            b.symlinks[al] = base
            op = _rel(al, wd)
        elif k == "abs":
            op = "@R/" + unit["path"]
        elif k == "subup":
            b.add_dir(d + "/n")
            op = _rel(d + "/n", wd) + "/../" + base
        else:
            op = site0["operand"]
        form = site0["form"] if k == "same" else "quote"
        main["sites"].append(dict(form=form, operand=op, name=name, spell="once-" + k))


def _spell_file(b, rng, path, wd):
    d, base = os.path.dirname(path), os.path.basename(path)
    if d == wd and rng.random() < 0.35:
        k = rng.choice(["plain", "dot", "dslash"])
        return {"plain": base, "dot": "./" + base, "dslash": ".//" + base}[k], "f-" + k
    if rng.random() < 0.12:
        al = d + "/lnk_" + base
        b.symlinks[al] = base
        return _rel(al, wd), "f-filesym"
    op, k = spell_dir(b, rng, d, wd)
    if op.endswith("/"):
        return op + base, "f-" + k
    return op + "/" + base, "f-" + k


def _gen_run(b, rng, tool, wd, main, extra_main, search_dirs, tops):
    inter = tool == "interrogate"
    srcdir = None
    inv = wd
    if inter and rng.random() < 0.25:
        inv = rng.choice(tops + ["."])
        sd, sk = spell_dir(b, rng, wd, inv)
        srcdir = dict(operand=sd, spell=sk, dir=wd)
    noangles = inter and rng.random() < 0.3
    opts = []       # list of argv groups
    search = []
    for kind, d in search_dirs:
        op, sk = spell_dir(b, rng, d, inv)
        toks = ["-" + kind + op] if rng.random() < 0.5 else ["-" + kind, op]
        search.append(dict(kind=kind, dir=d, operand=op, spell=sk, tokens=toks))
        opts.append(toks)
    # everything except the -I/-S sequence may move freely; the -I/-S sequence keeps its relative order
    floating = []
    if noangles:
        floating.append(["-noangles"])
    if srcdir:
        floating.append(["-srcdir", srcdir["operand"]])
    verbose = True
    if inter:
        verbose = rng.random() < 0.6
        if verbose:
            floating.append(["-v"])
        floating.append(["-od", "@O/out.in"])
        floating.append(["-module", "m", "-library", "l"])
    files = []
    mains = [main] + ([extra_main] if extra_main else [])
    if extra_main and rng.random() < 0.5:
        mains.reverse()
    for u in mains:
        op, sk = _spell_file(b, rng, u["path"], wd)
        files.append(dict(operand=op, spell=sk, unit=u["id"]))
    seq = list(opts)
    for f in floating:
        seq.insert(rng.randint(0, len(seq)), f)
    # a suffix of the option groups may go *after* the file names (GNU getopt permutes); moving a
    # suffix keeps the relative order of the -I/-S sequence
    tail = []
    if seq and rng.random() < 0.2:
        cut = len(seq) - rng.randint(1, min(2, len(seq)))
        seq, tail = seq[:cut], seq[cut:]
    argv = []
    for g in seq:
        argv.extend(g)
    argv += [f["operand"] for f in files]
    for g in tail:
        argv.extend(g)
    return dict(tool=tool, cwd=inv, argv=argv, search=search, noangles=bool(noangles), srcdir=srcdir,
                files=files, verbose=bool(verbose), opts_after_files=bool(tail))


# ---------------------------------------------------------------------------------------------
# rendering / materialising
# ---------------------------------------------------------------------------------------------

def render_unit(case, u, root):
    name, uid = u["name"], u["id"]
    L = ["// unit %d (%s)" % (uid, u["path"])]
    if u["protect"] == "pragma":
        L.append("#pragma once")
    elif u["protect"] == "guard":
        L += ["#ifndef GUARD_%d" % uid, "#define GUARD_%d" % uid]
    L += ["#ifndef C1_%s" % name, "#define C1_%s" % name, "#else", "#undef C2_%s" % name, "#define C2_%s" % name, "#endif"]
    L += ["#undef V_%s" % name, "#define V_%s %d" % (name, uid + 1)]
    L.append("int mk_%s_%d;" % (name, uid))
    L.append("class Own_%s_%d { __published: int f(); };" % (name, uid))
    for s in u["sites"]:
        op = s["operand"].replace("@R", root)
        L.append('#include "%s"' % op if s["form"] == "quote" else "#include <%s>" % op)
    if u["kind"] == "main":
        for n in case["names"]:
            L += ["#ifndef V_%s" % n, "#define V_%s 0" % n, "#endif", "#undef T_%s" % n,
                  "#ifdef C2_%s" % n, "#define T_%s 1" % n, "#else", "#define T_%s 0" % n, "#endif"]
        L.append("__begin_publish")
        L.append("enum Probe_%d {" % uid)
        for n in case["names"]:
            L.append("  pv_%d_%s = V_%s, pt_%d_%s = T_%s," % (uid, n, n, uid, n, n))
        L.append("};")
        L.append("__end_publish")
    if u["protect"] == "guard":
        L.append("#endif")
    return "\n".join(L) + "\n"


def materialise(case, root):
    os.makedirs(root, exist_ok=True)
    for d in case["dirs"]:
        os.makedirs(os.path.join(root, d), exist_ok=True)
    for u in case["units"]:
        p = os.path.join(root, u["path"])
        os.makedirs(os.path.dirname(p), exist_ok=True)
        with open(p, "w") as f:
            f.write(render_unit(case, u, root))
    for path, target in case["symlinks"]:
        p = os.path.join(root, path)
        os.makedirs(os.path.dirname(p), exist_ok=True)
        if os.path.lexists(p):
            continue
        os.symlink(target, p)


# ---------------------------------------------------------------------------------------------
# path strings for the Filename harness
# ---------------------------------------------------------------------------------------------

ALPHABET = ["a", "b", ".", "..", ""]


def path_strings(maxlen, alphabet=ALPHABET):
    """all component sequences of length 1..maxlen over the alphabet, joined by '/'"""
    out = []

    def rec(prefix, n):
        if n == 0:
            return
        for c in alphabet:
            cur = prefix + [c]
            out.append("/".join(cur))
            rec(cur, n - 1)
    rec([], maxlen)
    return out


def sample_path_strings(rng, n, minlen, maxlen, alphabet=ALPHABET):
    out = set()
    while len(out) < n:
        k = rng.randint(minlen, maxlen)
        out.add("/".join(rng.choice(alphabet) for _ in range(k)))
    return sorted(out)
