"""Signature table of the C query interface, generated from interrogate_interface.h of the tree under test,
and the builder of the idbdrive harness that includes it.  A function added to the header is picked up
automatically; a declaration this parser cannot classify fails the harness build (HarnessError)."""
import hashlib
import os
import re

from .. import core

_DECL = re.compile(r"EXPCL_INTERROGATEDB\s+([^;(]+?)\s*\b(interrogate_\w+)\s*\(([^)]*)\)\s*;", re.S)


def _cls(t, is_ret):
    t = re.sub(r"\s+", " ", t.strip())
    t = t.replace(" *", "*")
    if t in ("void", "") and is_ret:
        return "v"
    if t == "bool":
        return "b"
    if t in ("const char*",):
        return "s"
    if t == "void*" and is_ret:
        return "p"
    if t in ("int", "AtomicToken") or t.endswith("Index"):
        return "i"
    return None


def signatures(header_path):
    """[(name, ret, args)] with ret in v b i s p and args in '', 'i', 'ii', 's'."""
    txt = open(header_path, encoding="utf-8", errors="replace").read()
    txt = re.sub(r"/\*.*?\*/", "", txt, flags=re.S)
    txt = re.sub(r"//[^\n]*", "", txt)
    out = []
    for m in _DECL.finditer(txt):
        ret, name, params = m.group(1), m.group(2), m.group(3).strip()
        r = _cls(ret, True)
        args = ""
        if params and params != "void":
            for p in params.split(","):
                p = p.strip()
                mm = re.match(r"(.*?)(\w+)$", p)          # strip the parameter name
                ty = mm.group(1) if mm and mm.group(1).strip() else p
                c = _cls(ty, False)
                if c is None:
                    raise core.HarnessError(f"ifacegen: cannot classify parameter '{p}' of {name}")
                args += c
        if r is None or args not in ("", "i", "ii", "s"):
            raise core.HarnessError(f"ifacegen: cannot classify declaration of {name}: {ret} ({params})")
        out.append((name, r, args))
    n_decl = len(re.findall(r"EXPCL_INTERROGATEDB", txt))
    if n_decl != len(out) or not out:
        raise core.HarnessError(f"ifacegen: {n_decl} exported declarations but {len(out)} parsed")
    return out


_cache = {}


def interface(flavor="asan"):
    b = core.build(flavor)
    return signatures(os.path.join(b.src, "src", "interrogatedb", "interrogate_interface.h"))


def idbdrive_path(flavor="asan"):
    """build (once) and return the idbdrive harness for the tree under test."""
    if flavor in _cache:
        return _cache[flavor]
    sigs = interface(flavor)
    d = os.path.join(core.CACHE, "harness-gen-" + flavor)
    os.makedirs(d, exist_ok=True)
    body = "".join('  { "%s", \'%s\', "%s", (void (*)())&%s },\n' % (n, r, a, n) for n, r, a in sigs)
    p = os.path.join(d, "idbdrive_table.inc")
    if not os.path.exists(p) or open(p).read() != body:
        tmp = p + ".%d" % os.getpid()
        open(tmp, "w").write(body)
        os.replace(tmp, p)
    exe = core.build_harness("idbdrive", ["idbdrive.cxx"], flavor=flavor,
                             extra=["-fno-access-control", "-I" + d, "-I" + os.path.join(core.VERIF, "harness"),
                                    "-DIDBDRIVE_TABLE_SHA=0x" + hashlib.sha1(
                                        body.encode() + open(os.path.join(core.VERIF, "harness", "idbdump.cxx"), "rb").read()
                                    ).hexdigest()[:8]])
    _cache[flavor] = exe
    return exe


def run(cmd, **kw):
    """core.run, tolerant of the harness binary being rebuilt in place by a concurrent check (the tree under
    test changed): 'Permission denied' / 'Text file busy' while g++ rewrites it is retried, not an error."""
    import time
    for attempt in range(30):
        try:
            return core.run(cmd, **kw)
        except core.HarnessError as ex:
            if "cannot start" not in str(ex) or attempt == 29:
                raise
            time.sleep(2)


def hexs(b):
    """token encoding of a string argument of an idbdrive script (None -> NULL)."""
    if b is None:
        return "-"
    if isinstance(b, str):
        b = b.encode("latin-1")
    return "x" + b.hex()


def unhex_value(tok):
    """decode a VALUE token of idbdrive's log: int | bytes | None | ('p', int)."""
    if tok == "n":
        return None
    if tok == "v":
        return None
    if tok.startswith("s:"):
        return bytes.fromhex(tok[2:])
    if tok.startswith("p:"):
        return ("p", int(tok[2:], 16))
    return int(tok)
