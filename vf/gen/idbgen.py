"""idbgen: synthetic interrogate databases (ground truth = the idb.Database object itself).

    db = generate(seed, **params)        deterministic in (seed, params); params are JSON-serialisable so a
                                         case can store them and regenerate the same database anywhere.

params (all optional):
    size        "tiny" | "small" | "medium" | "large"   record counts
    strings     "plain" | "hostile" | "mixed"           what goes into every string field
    flags       "random" | "onebit" | "all" | "zero"    how flag words are chosen
    canonical   True: indices already in the order a load assigns (so a rewrite is byte-identical);
                False: sparse, shuffled indices (exercises re-indexing)
    dangling    probability that a reference points at an index that is no record of the expected kind
                (never for constructors/destructors, which the loader dereferences)
    alt_names   probability that a record carries alternate names
    dup_names   probability that a name is reused by another record of the same kind
    highbits    probability that a flag word also carries bits no version defines
    header      dict overriding file_identifier / library_name / library_hash_name / module_name (latin-1 str)
"""
import random
import zlib

from .. import idb

INT_MIN, INT_MAX = -2 ** 31, 2 ** 31 - 1

SIZES = {
    #           wrappers functions types manifests elements make_seqs
    "tiny":   (2, 2, 3, 1, 1, 1),
    "small":  (6, 5, 8, 3, 4, 2),
    "medium": (16, 12, 20, 6, 9, 5),
    "large":  (60, 40, 70, 15, 30, 12),
}

# the hostile alphabet: every class the statement names
HOSTILE_FIXED = [
    b"", b" ", b"  ", b"\n", b"\n\n", b"\t", b"\r\n", b" x", b"x ", b" x ", b"\nx\n", b"a b", b"a\nb", b"a  b",
    b'"', b'""', b'"quoted"', b"'", b"\\", b'\\"', b"\\n", b"a\"b'c\\d",
    b"0", b"1", b"12", b"-1", b"+3", b"007", b"3 abc", b"5 hello", b"0 ", b" 0", b"1\n2", b"12 34 56", b"4294967296",
    b"2147483648", b"1e5", b"0x10", b"3 3", b"0\n3 3\n", b"1 a 0 0 ",
    b"\xff", b"\xff\xff", b"\xfe\xff", b"\x01", b"\x7f", b"\x80", b"caf\xc3\xa9", b"\xe2\x82\xac", b"\x1a", b"\x04",
    b"\x0b\x0c", b"\x1b[0m", b"%s%n", b"$(x)", b"a" * 300, b" " * 17, b"\n" * 9,
]
ALL_BYTES = bytes(range(1, 256))

IDENT = "abcdefghijklmnopqrstuvwxyzABCDEFGHIJKLMNOPQRSTUVWXYZ_"


def hostile_string(rng):
    c = rng.random()
    if c < 0.55:
        return rng.choice(HOSTILE_FIXED)
    if c < 0.70:       # a run of arbitrary non-NUL bytes
        n = rng.choice((1, 2, 3, 5, 8, 16, 40))
        return bytes(rng.randrange(1, 256) for _ in range(n))
    if c < 0.78:       # a window of the full byte table
        a = rng.randrange(0, 255)
        return ALL_BYTES[a:a + rng.choice((1, 7, 32, 255))]
    if c < 0.90:       # looks like the start of a record / a length prefix followed by the wrong amount
        n = rng.randrange(0, 30)
        return b"%d " % n + bytes(rng.choice(b"ab \n") for _ in range(rng.randrange(0, 12)))
    return plain_string(rng, "n")


def plain_string(rng, tag, words=1):
    out = []
    for _ in range(words):
        out.append("".join(rng.choice(IDENT) for _ in range(rng.randrange(1, 9))))
    return (tag + "_" + " ".join(out)).encode()


class _Gen:
    def __init__(self, seed, p):
        self.rng = random.Random("idbgen:%s" % (seed,))
        self.p = p
        self.strings = p.get("strings", "mixed")
        self.flagmode = p.get("flags", "random")
        self.dangling = p.get("dangling", 0.0)
        self.alt = p.get("alt_names", 0.0)
        self.dup = p.get("dup_names", 0.15)
        self.highbits = p.get("highbits", 0.0)
        self.uid = 0
        self.salt = b"%08x" % (zlib.crc32(repr(seed).encode()) & 0xffffffff)   # keeps forced-unique names distinct across databases
        self.used = {}

    # -- primitive choices
    def s(self, tag, multi=False):
        r = self.rng
        mode = self.strings
        if mode == "mixed":
            mode = "hostile" if r.random() < 0.5 else "plain"
        if mode == "hostile":
            return hostile_string(r)
        if multi and r.random() < 0.5:
            return b"\n".join(plain_string(r, tag, r.randrange(1, 5)) for _ in range(r.randrange(1, 4)))
        return plain_string(r, tag) if r.random() > 0.1 else b""

    def name(self, tag, unique=False):
        """a name; with probability dup_names one already used by a record of the same tag."""
        r = self.rng
        pool = self.used.setdefault(tag, [])
        if not unique and pool and r.random() < self.dup:
            return r.choice(pool)
        for _ in range(50):
            n = self.s(tag)
            if unique:
                if n in pool or n == b"":
                    self.uid += 1
                    n = n + b"#%d.%s" % (self.uid, self.salt)
            if not unique or n not in pool:
                break
        pool.append(n)
        return n

    def flags(self, mask, force=0, clear=0):
        r = self.rng
        m = self.flagmode
        if m == "zero":
            v = 0
        elif m == "all":
            v = mask
        elif m == "onebit":
            bits = [1 << i for i in range(mask.bit_length()) if mask & (1 << i)]
            v = r.choice(bits)
        else:
            c = r.random()
            if c < 0.1:
                v = 0
            elif c < 0.2:
                v = mask
            elif c < 0.4:
                v = 1 << r.randrange(mask.bit_length())
            else:
                v = r.getrandbits(mask.bit_length()) & mask
        if self.highbits and r.random() < self.highbits:
            v |= (r.getrandbits(31) & ~mask) & INT_MAX
        return (v | force) & ~clear

    def value(self):
        r = self.rng
        c = r.random()
        if c < 0.3:
            return r.choice((0, 1, -1, 2, 10, 255, 256, INT_MAX, INT_MIN, INT_MAX - 1, INT_MIN + 1, 65536, -65536))
        if c < 0.6:
            return r.randrange(-100, 100)
        return r.randrange(INT_MIN, INT_MAX + 1)

    def alts(self, tag):
        r = self.rng
        if self.alt and r.random() < self.alt:
            return [self.s(tag) for _ in range(r.randrange(1, 4))]
        return []


def generate(seed, **p):
    g = _Gen(seed, p)
    r = g.rng
    size = p.get("size", "small")
    counts = list(SIZES[size] if isinstance(size, str) else size)
    if p.get("jitter", True):
        counts = [max(0, c + r.randrange(-(c // 3) - 1, c // 3 + 2)) for c in counts]
    for i, k in enumerate(("wrappers", "functions", "types", "manifests", "elements", "make_seqs")):
        if k in p.get("empty", ()):
            counts[i] = 0
    nw, nf, nt, nm, ne, ns = counts

    # index assignment
    total = nw + nf + nt + nm + ne + ns
    if p.get("canonical", True):
        first = p.get("first_index", 1)
        labels = list(range(first, first + total))
    else:
        # canonical order must be the order of ascending old index *within* a kind only; kinds interleave
        labels = sorted(r.sample(range(1, total * 4 + 10), total))
        r.shuffle(labels)
    it = iter(labels)
    ix = {k: sorted(next(it) for _ in range(n)) if p.get("canonical", True) else [next(it) for _ in range(n)]
          for k, n in (("wrappers", nw), ("functions", nf), ("types", nt), ("manifests", nm), ("elements", ne),
                       ("make_seqs", ns))}
    allidx = set(labels)
    top = max(labels) if labels else 0

    def ref(kind, zero=0.25):
        c = r.random()
        if g.dangling and c < g.dangling:
            d = r.random()
            if d < 0.4:
                return top + r.randrange(1, 50)               # beyond everything
            if d < 0.8 and allidx:
                return r.choice(sorted(allidx))                # a record, probably of another kind
            return r.choice((INT_MAX, 1 << 30, top + 1))
        if c < zero + (g.dangling or 0) or not ix[kind]:
            return 0
        return r.choice(ix[kind])

    def refs(kind, maxn=4):
        n = r.choice((0, 0, 1, 1, 2, 3, maxn)) if ix[kind] or g.dangling else 0
        return [ref(kind, zero=0.05) for _ in range(n)]

    def solid(kind):
        """a reference the loader will dereference: an existing record of that kind, or 0."""
        return r.choice(ix[kind]) if ix[kind] and r.random() < 0.7 else 0

    db = idb.Database()
    h = p.get("header", {})
    db.file_identifier = h.get("file_identifier", r.choice((0, 1, 12345, 1700000000, INT_MAX)))
    db.library_name = h["library_name"].encode("latin-1") if "library_name" in h else \
        r.choice((b"libsyn", b"lib", b"", b"lib with space", b"l\xefb"))
    db.library_hash_name = h["library_hash_name"].encode("latin-1") if "library_hash_name" in h else \
        r.choice((b"AbCd", b"", b"zz9_", b"a b "))
    db.module_name = h["module_name"].encode("latin-1") if "module_name" in h else \
        r.choice((b"mod", b"", b"panda3d.core", b"m\nd"))

    R = idb.Rec
    for i in ix["functions"]:
        db.functions.append(R("function", index=i, name=g.name("f"), alt_names=g.alts("fa"),
                              flags=g.flags(idb.FF.ALL), class_=ref("types"), scoped_name=g.s("fs"),
                              c_wrappers=refs("wrappers"), python_wrappers=refs("wrappers"),
                              comment=g.s("fc", True), prototype=g.s("fp", True)))
    for i in ix["wrappers"]:
        params = [R("parameter", name=g.s("p"), flags=g.flags(idb.PF.ALL), type=ref("types", 0.05))
                  for _ in range(r.choice((0, 0, 1, 2, 3, 6)))]
        db.wrappers.append(R("wrapper", index=i, name=g.name("w"), alt_names=g.alts("wa"), flags=g.flags(idb.WF.ALL),
                             function=ref("functions", 0.05), return_type=ref("types"),
                             return_value_destructor=ref("functions", 0.6), unique_name=g.s("wu"),
                             comment=g.s("wc", True), parameters=params))
    unique_true = p.get("unique_true_names", True)
    for i in ix["types"]:
        fl = g.flags(idb.TF.ALL)
        true_name = g.name("tt", unique=unique_true)
        t = R("type", index=i, name=g.name("t"), alt_names=g.alts("ta"), flags=fl, scoped_name=g.name("ts"),
              true_name=true_name, outer_class=ref("types", 0.6), atomic_token=r.randrange(0, 10),
              wrapped_type=ref("types", 0.5), array_size=(g.value() if fl & idb.TF.array else None),
              constructors=[c for c in (solid("functions") for _ in range(r.choice((0, 0, 1, 2, 3)))) if c],
              destructor=solid("functions") if r.random() < 0.5 else 0,
              elements=refs("elements"), methods=refs("functions", 6), make_seqs=refs("make_seqs"),
              casts=refs("functions"),
              derivations=[R("derivation", flags=g.flags(idb.DF.ALL), base=ref("types", 0.02),
                             upcast=ref("functions", 0.4), downcast=ref("functions", 0.4))
                           for _ in range(r.choice((0, 0, 1, 2, 3)))],
              enum_values=[R("enum_value", name=g.s("ev"), scoped_name=g.s("evs"), comment=g.s("evc", True),
                             value=g.value()) for _ in range(r.choice((0, 0, 0, 1, 3, 5)))],
              nested_types=refs("types"), comment=g.s("tc", True))
        db.types.append(t)
    for i in ix["manifests"]:
        db.manifests.append(R("manifest", index=i, name=g.name("m"), alt_names=g.alts("ma"), flags=g.flags(idb.MF.ALL),
                              int_value=g.value(), type=ref("types"), getter=ref("functions", 0.5),
                              definition=g.s("md")))
    for i in ix["elements"]:
        db.elements.append(R("element", index=i, name=g.name("e"), alt_names=g.alts("ea"), flags=g.flags(idb.EF.ALL),
                             type=ref("types", 0.05), getter=ref("functions"), setter=ref("functions"),
                             has_function=ref("functions", 0.5), clear_function=ref("functions", 0.5),
                             del_function=ref("functions", 0.5), length_function=ref("functions", 0.5),
                             insert_function=ref("functions", 0.5), getkey_function=ref("functions", 0.5),
                             scoped_name=g.name("es"), comment=g.s("ec", True)))
    for i in ix["make_seqs"]:
        db.make_seqs.append(R("make_seq", index=i, name=g.name("s"), alt_names=g.alts("sa"),
                              length_getter=ref("functions", 0.1), element_getter=ref("functions", 0.1),
                              scoped_name=g.s("ss"), comment=g.s("sc", True)))
    # functions the types list as constructors/destructor carry the corresponding flag in every file
    # interrogate writes (the loader forces it); honour that unless asked not to (old-format files)
    if p.get("ctor_flags", True):
        fi = db.by_index("functions")
        for t in db.types:
            if t.destructor:
                fi[t.destructor].flags |= idb.FF.destructor
            for c in t.constructors:
                fi[c].flags |= idb.FF.constructor
    for k in idb.KINDS:
        getattr(db, k).sort(key=lambda x: x.index)
    db.minor = p.get("minor", idb.CURRENT_MINOR)
    return db


def catalogue(rng, n, minors=(0, 1, 2, 3)):
    """n parameter sets covering the option lattice (the first ones deterministic, the rest random)."""
    fixed = [
        dict(size="small", strings="hostile", flags="random"),
        dict(size="small", strings="plain", flags="all"),
        dict(size="small", strings="plain", flags="zero"),
        dict(size="small", strings="hostile", flags="onebit"),
        dict(size="tiny", strings="hostile", flags="random", empty=["make_seqs"]),
        dict(size="tiny", strings="mixed", flags="random", empty=["functions", "wrappers", "elements", "make_seqs"]),
        dict(size="medium", strings="mixed", flags="random"),
        dict(size="small", strings="mixed", flags="random", canonical=False),
        dict(size="small", strings="mixed", flags="random", alt_names=0.5),
        dict(size="small", strings="mixed", flags="random", highbits=0.3),
        dict(size="small", strings="mixed", flags="random", dangling=0.2),
        dict(size="tiny", strings="plain", flags="random",
             empty=["functions", "wrappers", "types", "manifests", "elements", "make_seqs"]),
    ]
    out = []
    for i in range(n):
        if i < len(fixed):
            p = dict(fixed[i])
        else:
            p = dict(size=rng.choice(("tiny", "small", "small", "medium")),
                     strings=rng.choice(("hostile", "mixed", "mixed", "plain")),
                     flags=rng.choice(("random", "random", "onebit", "all")))
            if rng.random() < 0.15:
                p["canonical"] = False
            if rng.random() < 0.15:
                p["alt_names"] = 0.4
            if rng.random() < 0.15:
                p["highbits"] = 0.3
            if rng.random() < 0.2:
                p["dangling"] = 0.15
        p["minor"] = minors[i % len(minors)]
        out.append(p)
    return out
