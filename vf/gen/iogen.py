"""iogen -- small seeded generator of interrogate-able headers of a chosen size (C19).

The *content* of the header is irrelevant to C19 (the property is about reporting output
faults); what matters is that every back-end produces outputs of different sizes, so that
the number of write(2) calls per output channel -- the fault points -- varies.  Only plain
scalar types are used, so every back-end accepts the header and the run is fault-free
without the injector.
"""

SCALARS = ["int", "double", "bool", "float", "unsigned int", "long", "short"]


def _doc(rng, indent, words):
    n = rng.randint(1, 4)
    out = [indent + "/**"]
    for _ in range(n):
        out.append(indent + " * " + " ".join(rng.choice(words) for _ in range(rng.randint(4, 14))))
    out.append(indent + " */")
    return out


def header(rng, n_classes=3, n_methods=6, n_free=4, docs=True, tag="io"):
    """Returns header text.  Identifiers are derived from `tag` and counters only."""
    words = ["returns", "the", "value", "of", "this", "object", "when", "called", "twice", "never",
             "fails", "unless", "given", "negative", "input", "see", "also", "frobnicate", "buffer"]
    L = ["#ifndef %s_H" % tag.upper(), "#define %s_H" % tag.upper(), ""]
    L.append("#define %s_VERSION %d" % (tag.upper(), rng.randint(1, 99)))
    L.append("#define %s_SCALE %d.%d" % (tag.upper(), rng.randint(0, 9), rng.randint(1, 9)))
    L.append("")
    uid = [0]

    def name(p):
        uid[0] += 1
        return "%s_%s%d" % (tag, p, uid[0])

    def params(k):
        return ", ".join("%s %s" % (rng.choice(SCALARS), "a%d" % i) for i in range(k))

    for _ in range(n_classes):
        cn = name("C")
        if docs:
            L += _doc(rng, "", words)
        L.append("class %s {" % cn)
        L.append("public:")
        L.append("  %s();" % cn)
        if rng.random() < 0.7:
            L.append("  explicit %s(%s);" % (cn, params(rng.randint(1, 3))))
        if rng.random() < 0.5:
            en = name("E")
            L.append("  enum %s { %s };" % (en, ", ".join("%s_v%d = %d" % (en, i, rng.randint(0, 50) + 100 * i)
                                                        for i in range(rng.randint(2, 5)))))
        for _ in range(n_methods):
            if docs and rng.random() < 0.7:
                L += _doc(rng, "  ", words)
            k = rng.randint(0, 4)
            st = rng.random() < 0.2
            L.append("  %s%s %s(%s)%s;" % ("static " if st else "", rng.choice(SCALARS + ["void"]), name("m"), params(k),
                                          "" if st or rng.random() < 0.5 else " const"))
        for _ in range(rng.randint(0, 3)):
            L.append("  %s %s;" % (rng.choice(SCALARS), name("f")))
        L.append("};")
        L.append("")
    for _ in range(n_free):
        if docs and rng.random() < 0.7:
            L += _doc(rng, "", words)
        L.append("%s %s(%s);" % (rng.choice(SCALARS + ["void"]), name("g"), params(rng.randint(0, 5))))
    L.append("")
    L.append("#endif")
    return "\n".join(L) + "\n"
