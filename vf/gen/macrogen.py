"""macrogen — generator of macro programs for C08, plus an independent reference model.

Three parts, all stdlib only and seeded through explicit random.Random objects:

 * a pp-token lexer (`lex`) for the restricted language the generator emits;
 * `Model`: a small, independent implementation of ISO C++20 [cpp.replace] (Prosser's
   hide-set algorithm) over that language.  It is NOT the oracle (gcc is): it is used
   (a) to label which features an expansion actually exercised (evidence + violation keys),
   (b) as a second reference — a program on which the model and gcc disagree, or on which the
       model's two hide-set policies disagree (DR 268), is treated as ambiguous and never judged,
   (c) to reject invalid programs (bad pastes, wrong argument counts) before gcc sees them;
 * `gen_program(rng, flags)`: the generator proper.

A program is a JSON-serialisable dict {"units": [{"k": kind, "t": text}, ...]} where kind is
 "D"   a command-line definition  NAME=body | NAME(params)=body   (passed as -D to both tools)
 "def" / "dir"  one directive (one logical line; may contain backslash-newline)
 "use" one statement of ordinary text (may span several physical lines)
"""
import re

# ---------------------------------------------------------------------------
# lexer
# ---------------------------------------------------------------------------

PUNCTS = ["%:%:", "<<=", ">>=", "->*", "...", "<%", "%>", "<:", ":>", "%:", "::", "->", "++", "--", "<<", ">>", "<=", ">=", "==", "!=", "&&",
          "||", "+=", "-=", "*=", "/=", "%=", "&=", "|=", "^=", "##", ".*",
          "{", "}", "[", "]", "#", "(", ")", ";", ":", "?", ".", "+", "-", "*", "/", "%", "^", "&", "|",
          "~", "!", "=", "<", ">", ","]
TOK_RE = re.compile(
    r"(?P<ws>(?:[ \t\r\n\f\v]|\\\n|/\*.*?\*/)+)"
    r"|(?P<id>[A-Za-z_][A-Za-z0-9_]*)"
    r"|(?P<num>\.?[0-9](?:[eEpP][+-]|[0-9A-Za-z_.])*)"
    r'|(?P<str>"(?:[^"\\\n]|\\.)*")'
    r"|(?P<chr>'(?:[^'\\\n]|\\.)*')"
    r"|(?P<p>" + "|".join(re.escape(p) for p in PUNCTS) + ")"
    r"|(?P<other>.)", re.S)

EMPTY = frozenset()


class Tok(object):
    """A pp-token.  k: id num str chr p other;  s: spelling;  ws: preceded by white space;
    hs: hide set;  org: name of the macro whose replacement list it came from (None: the file);
    va: reached its place through argument substitution;  ln: physical line (file tokens)."""
    __slots__ = ("k", "s", "ws", "hs", "org", "va", "ln")

    def __init__(self, k, s, ws=False, hs=EMPTY, org=None, va=False, ln=0):
        self.k, self.s, self.ws, self.hs, self.org, self.va, self.ln = k, s, ws, hs, org, va, ln

    def cp(self, **kw):
        t = Tok(self.k, self.s, self.ws, self.hs, self.org, self.va, self.ln)
        for a, v in kw.items():
            setattr(t, a, v)
        return t

    def __repr__(self):
        return ("_" if self.ws else "") + self.s


def lex(text, ln0=1):
    """Lex text into Toks (white space folded into the ws flag of the next token)."""
    out = []
    ws = False
    ln = ln0
    for m in TOK_RE.finditer(text):
        k = m.lastgroup
        s = m.group()
        if k == "ws":
            ws = True
        else:
            out.append(Tok(k, s, ws, ln=ln))
            ws = False
        ln += s.count("\n")
    return out


def one_token(s):
    """True when the spelling s lexes as exactly one valid pp-token."""
    m = TOK_RE.match(s)
    return bool(m) and m.end() == len(s) and m.lastgroup not in ("ws", "other")


def glue_ok(a, b):
    """True when the spellings a and b can be written adjacently without changing the token stream."""
    if a[-1] in "\"'" and (b[0].isalnum() or b[0] == "_"):
        return False            # ud-suffix
    if b[0] in "\"'" and (a[-1].isalnum() or a[-1] == "_"):
        return False            # encoding prefix
    ts = lex(a + b)
    return len(ts) == 2 and ts[0].s == a and ts[1].s == b and "/*" not in a + b and "//" not in a + b \
        and a + b != "<=>" and not (a == "<=" and b[0] == ">")


WORD_RE = re.compile(r"[A-Za-z_][A-Za-z0-9_]*")


# ---------------------------------------------------------------------------
# program <-> text
# ---------------------------------------------------------------------------

def prog_text(prog):
    return "".join(u["t"] + "\n" for u in prog["units"] if u["k"] != "D")


def prog_defs(prog):
    return [u["t"] for u in prog["units"] if u["k"] == "D"]


# ---------------------------------------------------------------------------
# the reference model
# ---------------------------------------------------------------------------

class Invalid(Exception):
    """the program is ill-formed (a conforming preprocessor must diagnose it)"""


class Ambiguous(Exception):
    """the program is outside the subset on which the standard fixes one token sequence"""


class Macro(object):
    __slots__ = ("name", "params", "variadic", "body", "how", "sig")

    def __init__(self, name, params, variadic, body, how):
        self.name, self.params, self.variadic, self.body, self.how = name, params, variadic, body, how
        self.sig = (None if params is None else tuple(params), variadic,
                    tuple((t.s, t.ws and i > 0) for i, t in enumerate(body)))


PASTE = "##"


class Model(object):
    """policy 'intersect': hide set of a function-like expansion is (HS(name) & HS(')')) | {name}  (Prosser)
       policy 'union'    : HS(name) | {name}.  Programs on which the two differ are DR-268 territory."""

    def __init__(self, policy="intersect", max_steps=4000, max_tokens=60000):
        self.policy = policy
        self.macros = {}
        self.stack = {}
        self.ever = set()        # names that have been defined at some point
        self.f = set()           # features exercised
        self.steps = 0
        self.ntok = 0
        self.argstack = []       # macros whose arguments are being pre-expanded
        self.active = {}         # macro name -> number of its expansions whose tokens are still being rescanned
        self.max_tokens = max_tokens
        self.max_steps = max_steps
        self.out = []

    # -- driver ------------------------------------------------------------
    def run(self, prog):
        for d in prog_defs(prog):
            name, eq, body = d.partition("=")
            if not eq:
                raise Ambiguous("-D without value")
            self.define(name + " " + body, how="cmd")
        text = prog_text(prog)
        pending = []
        ln = 1
        # logical lines: backslash-newline spliced, but physical line numbers kept for features
        i = 0
        lines = text.split("\n")
        while i < len(lines):
            first = ln
            logical = lines[i]
            while logical.endswith("\\") and i + 1 < len(lines):
                logical = logical[:-1] + "\\\n" + lines[i + 1]
                i += 1
                ln += 1
            i += 1
            ln += 1
            st = logical.lstrip(" \t")
            if st.startswith("#"):
                self.flush(pending)
                pending = []
                self.directive(st[1:].replace("\\\n", " "))
            else:
                lt = lex(logical + "\n", first)
                if lt and pending:
                    lt[0].ws = True          # the new-line before it is white space
                pending.extend(lt)
        self.flush(pending)
        return self.out

    def flush(self, toks):
        if not toks:
            return
        if self.out and toks[0].s == "(" and self.out[-1].k == "id":
            m = self.macros.get(self.out[-1].s)
            if m is not None and m.params is not None:
                raise Ambiguous("invocation interrupted by a directive")
        for t in toks:
            if t.k in ("str", "chr") and any(w in self.macros for w in WORD_RE.findall(t.s[1:-1])):
                self.f.add("text-lit-has-macro")
            if t.k == "id" and t.s in self.ever and t.s not in self.macros:
                self.f.add("use-after-undef")
        self.out.extend(self.expand(toks, top=True))

    # -- directives --------------------------------------------------------
    def directive(self, s):
        s = s.strip()
        m = re.match(r"(\w+)\s*(.*)$", s, re.S)
        if not m:
            raise Invalid("null or odd directive")
        cmd, rest = m.group(1), m.group(2).strip()
        if cmd == "define":
            self.define(rest, how="file")
        elif cmd == "undef":
            if not re.match(r"[A-Za-z_]\w*$", rest):
                raise Invalid("#undef")
            self.macros.pop(rest, None)
        elif cmd == "pragma":
            m = re.match(r'(push_macro|pop_macro)\s*\(\s*"([A-Za-z_]\w*)"\s*\)$', rest)
            if not m:
                raise Ambiguous("pragma")
            name = m.group(2)
            if m.group(1) == "push_macro":
                self.stack.setdefault(name, []).append(self.macros.get(name))
            else:
                st = self.stack.get(name)
                if st:
                    old = st.pop()
                    if old is None:
                        self.macros.pop(name, None)
                    else:
                        self.macros[name] = Macro(old.name, old.params, old.variadic, old.body, old.how + "+pop")
        else:
            raise Ambiguous("directive " + cmd)

    def define(self, rest, how):
        m = re.match(r"([A-Za-z_]\w*)", rest)
        if not m:
            raise Invalid("macro name")
        name = m.group(1)
        if name in ("defined", "__VA_ARGS__", "__VA_OPT__"):
            raise Invalid("reserved macro name")
        rest = rest[m.end():]
        params, variadic = None, False
        if rest.startswith("("):
            close = rest.find(")")
            if close < 0:
                raise Invalid("parameter list")
            plist = rest[1:close].strip()
            rest = rest[close + 1:]
            params = []
            if plist:
                for p in plist.split(","):
                    p = p.strip()
                    if p == "...":
                        variadic = True
                    elif variadic or not re.match(r"[A-Za-z_]\w*$", p) or p in params or \
                            p in ("__VA_ARGS__", "__VA_OPT__"):
                        raise Invalid("parameter list")
                    else:
                        params.append(p)
        elif rest and not rest[0].isspace():
            raise Ambiguous("no white space after object-like macro name")
        body = lex(rest)
        for t in body:
            t.org = name
        if any(t.k == "other" for t in body):
            raise Ambiguous("stray character in replacement list")
        if body and (body[0].s == "##" or body[-1].s == "##"):
            raise Invalid("## at an end of the replacement list")
        if params is None:
            if any(t.s in ("#", "##", "__VA_ARGS__", "__VA_OPT__") for t in body):
                raise Ambiguous("#/##/__VA_*__ in an object-like macro")
        else:
            names = set(params) | ({"__VA_ARGS__", "__VA_OPT__"} if variadic else set())
            for i, t in enumerate(body):
                if t.s == "#" and not (i + 1 < len(body) and body[i + 1].s in names):
                    raise Invalid("# not followed by a parameter")
                if t.s in ("__VA_ARGS__", "__VA_OPT__") and not variadic:
                    raise Invalid("__VA_ARGS__ outside a variadic macro")
        depth = 0
        for t in body:
            if t.s == "(":
                depth += 1
            elif t.s == ")":
                depth -= 1
                if depth < 0:
                    break
        if depth != 0:
            self.f.add("body-unbalanced-parens")     # a property of the program, recorded when defined
        mac = Macro(name, params, variadic, body, how)
        if params is not None:
            self.parse_body(mac)       # validates __VA_OPT__ syntax
        old = self.macros.get(name)
        if old is not None:
            if old.sig != mac.sig:
                raise Invalid("incompatible redefinition")
            mac.how = old.how          # benign redefinition
        elif name in self.ever and how == "file":
            mac.how = "redef"
        self.macros[name] = mac
        self.ever.add(name)

    # -- replacement-list structure ------------------------------------------
    def parse_body(self, mac):
        """-> list of nodes: ('tok',Tok) ('par',idx,Tok) ('str',idx,Tok) ('opt',nodes,Tok,stringify) ('##',)"""
        pidx = {p: i for i, p in enumerate(mac.params)}
        if mac.variadic:
            pidx["__VA_ARGS__"] = len(mac.params)

        def seq(toks, i, in_opt):
            nodes = []
            while i < len(toks):
                t = toks[i]
                if in_opt and t.s == ")":
                    return nodes, i
                if t.s == "#" or (t.s == "__VA_OPT__"):
                    strfy = t.s == "#"
                    first = t
                    if strfy:
                        i += 1
                        t = toks[i]
                    if t.s == "__VA_OPT__":
                        if in_opt:
                            raise Invalid("nested __VA_OPT__")
                        if not (i + 1 < len(toks) and toks[i + 1].s == "("):
                            raise Invalid("__VA_OPT__ without (")
                        # find the matching paren
                        inner, j = seq_balanced(toks, i + 2)
                        nodes.append(("opt", inner, first, strfy))
                        i = j + 1
                        continue
                    nodes.append(("str", pidx[t.s], first))
                    i += 1
                    continue
                if t.s == "##":
                    nodes.append((PASTE,))
                elif t.k == "id" and t.s in pidx:
                    nodes.append(("par", pidx[t.s], t))
                else:
                    nodes.append(("tok", t))
                i += 1
            if in_opt:
                raise Invalid("unterminated __VA_OPT__")
            return nodes, i

        def seq_balanced(toks, i):
            # contents of __VA_OPT__( ... ) up to the matching paren
            depth, j = 0, i
            while j < len(toks):
                if toks[j].s == "(":
                    depth += 1
                elif toks[j].s == ")":
                    if depth == 0:
                        break
                    depth -= 1
                j += 1
            if j >= len(toks):
                raise Invalid("unterminated __VA_OPT__")
            inner_toks = toks[i:j]
            if any(t.s == "__VA_OPT__" for t in inner_toks):
                raise Invalid("nested __VA_OPT__")
            if inner_toks and (inner_toks[0].s == "##" or inner_toks[-1].s == "##"):
                raise Invalid("## at an end of __VA_OPT__")
            inner, _ = seq(inner_toks, 0, False)
            return inner, j

        nodes, _ = seq(mac.body, 0, False)
        return nodes

    # -- expansion ----------------------------------------------------------
    def tick(self):
        self.steps += 1
        if self.steps > self.max_steps:
            raise Ambiguous("expansion too large")

    def _peek(self, inp):
        """next real token on the stack; finished expansion contexts in front of it are closed (this is what a
        context-based implementation does when it looks for the '(' of a function-like macro)"""
        while inp and inp[-1].k == "ctxend":
            self.active[inp[-1].s] -= 1
            inp.pop()
        return inp[-1] if inp else None

    def expand(self, toks, top=False, depth=0):
        out = []
        inp = list(reversed(toks))
        carry_ws = False
        while inp:
            t = inp.pop()
            if t.k == "ctxend":
                self.active[t.s] -= 1
                continue
            if carry_ws:
                if not t.ws:
                    t = t.cp(ws=True)
                carry_ws = False
            if t.k != "id":
                out.append(t)
                continue
            m = self.macros.get(t.s)
            if m is None:
                if t.s in self.ever:
                    self.f.add("use-after-undef")
                out.append(t)
                continue
            if t.s in t.hs:
                kind = "obj" if m.params is None else "fn"
                self.f.add(("self-ref-suppressed-" if t.org == t.s else "mutual-ref-suppressed-") + kind)
                if t.va:
                    self.f.add("suppressed-via-arg")
                # is the named macro still being expanded (any context-stack implementation suppresses it), or is
                # the mark on the token ("no longer available for replacement") the only thing that protects it?
                if self.active.get(t.s, 0) > 0:
                    self.f.add("suppressed-in-own-expansion")
                    if kind == "obj" and t.va:
                        self.f.add("own-name-via-fn-arg")     # own name handed on through function-like macros
                else:
                    self.f.add("suppressed-by-paint-only")
                nx = self._peek(inp)
                if kind == "fn" and nx is not None and nx.s == "(":
                    self.f.add("suppressed-name-before-paren")
                out.append(t)
                continue
            self.tick()
            nx = self._peek(inp) if m.params is not None else None
            if t.s in self.argstack and (m.params is None or (nx is not None and nx.s == "(")):
                self.f.add("same-macro-in-own-arg")
            if m.params is None:
                res = self.subst(m, None, t.hs | {t.s}, t)
            else:
                if nx is None or nx.s != "(":
                    self.f.add("fn-name-no-paren")
                    out.append(t)
                    continue
                lp = inp.pop()
                args, rp = self.collect(inp, m, t)
                if self.policy == "intersect":
                    hs = (t.hs & rp.hs) | {t.s}
                else:
                    hs = t.hs | {t.s}
                if t.hs - rp.hs:
                    self.f.add("call-span")
                if t.va and not lp.va:
                    self.f.add("call-name-from-arg")
                if top and t.ln != rp.ln:
                    self.f.add("call-multiline")
                res = self.subst(m, args, hs, t)
            if m.how == "cmd":
                self.f.add("use-cmdline" if m.params is None else "use-cmdline-fn")
            elif m.how.endswith("+pop"):
                self.f.add("use-after-pop")
            elif m.how == "redef":
                self.f.add("use-redefined")
            if t.org is not None:
                self.f.add("rescan-nested")
            prev = out[-1] if out else None
            nxt = next((x for x in reversed(inp) if x.k != "ctxend"), None)
            if not res:
                carry_ws = t.ws
                if prev is not None and nxt is not None and not (t.ws or nxt.ws) and not glue_ok(prev.s, nxt.s):
                    self.f.add("adjacent-would-paste")
                    self.f.add("separator-needed")
            else:
                if prev is not None and not t.ws and not glue_ok(prev.s, res[0].s):
                    self.f.add("adjacent-would-paste")
                    self.f.add("separator-needed")
                if nxt is not None and not nxt.ws and not glue_ok(res[-1].s, nxt.s):
                    self.f.add("adjacent-would-paste")
                    self.f.add("separator-needed")
                res[0] = res[0].cp(ws=t.ws)
                self.active[t.s] = self.active.get(t.s, 0) + 1
                inp.append(Tok("ctxend", t.s))
                inp.extend(reversed(res))
        return out

    def collect(self, inp, m, name):
        """inp: reversed token stack positioned after '('.  -> (args, rparen)"""
        args = [[]]
        commas = []
        depth = 0
        while True:
            if not inp:
                raise Invalid("unterminated argument list of " + m.name)
            t = inp.pop()
            if t.k == "ctxend":
                self.active[t.s] -= 1
                continue
            if t.s == "(":
                depth += 1
            elif t.s == ")":
                if depth == 0:
                    rp = t
                    break
                depth -= 1
            elif t.s == "," and depth == 0:
                args.append([])
                commas.append(t)
                continue
            args[-1].append(t)
        n = len(m.params)
        if n == 0 and not m.variadic:
            if len(args) != 1 or args[0]:
                raise Invalid("arguments given to a macro with no parameters")
            self.f.add("fn0")
            return [], rp
        if not m.variadic:
            if len(args) != n:
                raise Invalid("wrong number of arguments")
        else:
            if len(args) < n:
                raise Invalid("too few arguments")
            self.f.add("variadic")
            if n == 0 and len(args) == 1 and not args[0]:
                args = []
            va = []
            for k, a in enumerate(args[n:]):
                if k:
                    va.append(commas[n + k - 1])
                va.extend(a)
            nva = len(args) - n
            args = args[:n] + [va]
            self.f.add("va-empty" if not va else ("va-multi" if nva > 1 else "va-single"))
        self.f.add("fn%d" % min(n, 3))
        for a in args:
            self.arg_features(a)
        return args, rp

    def arg_features(self, a):
        if not a:
            self.f.add("arg-empty")
            return
        if len(a) > 1:
            self.f.add("arg-multi-tok")
        depth = 0
        for i, t in enumerate(a):
            if t.s == "(":
                depth += 1
            elif t.s == ")":
                depth -= 1
            elif t.s == "," and depth > 0:
                self.f.add("arg-paren-comma")
            elif t.k in ("str", "chr"):
                if re.search(r"[,()]", t.s):
                    self.f.add("arg-lit-comma-paren")
                if any(w in self.macros for w in WORD_RE.findall(t.s[1:-1])):
                    self.f.add("arg-lit-has-macro")
            elif t.k == "id" and t.s in self.macros and t.s not in t.hs:
                mm = self.macros[t.s]
                if mm.params is None:
                    self.f.add("arg-has-obj-macro")
                elif i + 1 < len(a) and a[i + 1].s == "(":
                    self.f.add("arg-nested-call")
                else:
                    self.f.add("arg-bare-fn-name")

    # -- substitution --------------------------------------------------------
    def stringify(self, toks, what):
        s = ""
        for j, t in enumerate(toks):
            if j and t.ws:
                s += " "
            elif j and not glue_ok(toks[j - 1].s, t.s):
                # two tokens without white space between them that cannot be WRITTEN without white space
                # (they come from different replacement lists / arguments): -  -1,  +  +(
                self.f.add("stringify-unseparated-tokens-would-merge")
                self.f.add("separator-needed")
            sp = t.s
            if t.k in ("str", "chr"):
                sp = sp.replace("\\", "\\\\").replace('"', '\\"')
                self.f.add("stringify-lit")
                if ("'" in t.s[1:-1]) if t.k == "str" else ('"' in t.s):
                    self.f.add("stringify-lit-has-other-quote")
            elif t.k == "id" and t.s in self.macros:
                self.f.add("stringify-macro-name")
            s += sp
        if not toks:
            self.f.add("stringify-empty")
        elif len(toks) > 1:
            self.f.add("stringify-multi-tok")
            if any(t.org is not None for t in toks):
                self.f.add("stringify-operand-from-body")
        self.f.add(what)
        return Tok("str", '"' + s + '"')

    def subst(self, m, args, hs, name):
        if m.params is None:
            res = [t.cp() for t in m.body]
            self.f.add("obj" if res else "obj-empty")
            self.lit_features(m, res)
        else:
            nodes = self.parse_body(m)
            cache = {}
            res = self.subst_seq(m, nodes, args, cache, name)
            if not res:
                self.f.add("fn-empty-result")
            # arguments that were never macro-expanded (parameter unused, or only an operand of # / ##): would their
            # expansion produce a top-level comma?  (an implementation that expands every argument eagerly and
            # re-scans text is sensitive to that; the features of this dry run are discarded)
            for idx in range(len(args)):
                if idx not in cache and args[idx]:
                    keep = set(self.f)
                    keep_active = dict(self.active)
                    self.f.discard("arg-expansion-makes-comma")
                    try:
                        self.expanded_arg(m, args, idx, cache)
                        made = "arg-expansion-makes-comma" in self.f
                        skipped = "va-opt-skipped" in self.f - keep
                    except (Invalid, Ambiguous):
                        made = skipped = False
                    self.f = keep
                    self.active = keep_active
                    if made:
                        self.f.add("arg-expansion-makes-comma")
                    if skipped:
                        self.f.add("unused-arg-va-opt-skipped")
        self.ntok += len(res) + 1
        if self.ntok > self.max_tokens:
            raise Ambiguous("expansion too large")
        for j in range(1, len(res)):
            if not res[j].ws and not glue_ok(res[j - 1].s, res[j].s):
                # two tokens of the result that no white space separates and that cannot be written without it:
                # a text-based expander has to invent a blank here (it shows if the text is stringified later)
                self.f.add("separator-needed")
        return [t.cp(hs=t.hs | hs) for t in res]

    def lit_features(self, m, toks):
        for t in toks:
            if t.k in ("str", "chr"):
                words = WORD_RE.findall(t.s[1:-1])
                if m.params and any(w in m.params for w in words):
                    self.f.add("lit-has-param-name")
                if m.variadic and "__VA_ARGS__" in words:
                    self.f.add("lit-has-param-name")
                if any(w in self.macros for w in words):
                    self.f.add("lit-has-macro-name")
                if "#" in t.s:
                    self.f.add("lit-has-hash")
                if "(" in t.s or ")" in t.s:
                    self.f.add("lit-has-paren")
                if "," in t.s:
                    self.f.add("lit-has-comma")
                if re.search(r"[ \t]", t.s):
                    self.f.add("lit-has-space")

    def expanded_arg(self, m, args, idx, cache):
        if idx not in cache:
            if idx >= len(args):
                cache[idx] = []
            else:
                self.argstack.append(m.name)
                try:
                    cache[idx] = self.expand([t.cp() for t in args[idx]])
                finally:
                    self.argstack.pop()

                def commas(ts):
                    d = n = 0
                    for t in ts:
                        if t.s == "(":
                            d += 1
                        elif t.s == ")":
                            d -= 1
                        elif t.s == "," and d == 0:
                            n += 1
                    return n
                if commas(cache[idx]) != commas(args[idx]):
                    self.f.add("arg-expansion-makes-comma")
        return cache[idx]

    def subst_seq(self, m, nodes, args, cache, name):
        nva = len(m.params)
        items = []          # list of [tokens] or PASTE markers
        for i, n in enumerate(nodes):
            kind = n[0]
            if kind == PASTE:
                items.append(PASTE)
                continue
            operand = (i + 1 < len(nodes) and nodes[i + 1][0] == PASTE) or (i > 0 and nodes[i - 1][0] == PASTE)
            if kind == "tok":
                seq = [n[1].cp()]
                self.lit_features(m, seq)
            elif kind == "str":
                raw = args[n[1]] if n[1] < len(args) else []
                st = self.stringify(raw, "stringify-va" if n[1] == nva and m.variadic else "stringify")
                seq = [st.cp(ws=n[2].ws, org=m.name)]
            elif kind == "par":
                idx, pt = n[1], n[2]
                raw = args[idx] if idx < len(args) else []
                if idx == nva and m.variadic:
                    self.f.add("va-args")
                if operand:
                    seq = [t.cp(va=True) for t in raw]
                    if len(raw) > 1:
                        self.f.add("paste-multi-tok-arg")
                    if any(t.k == "id" and t.s in self.macros for t in raw):
                        self.f.add("paste-operand-macro")
                else:
                    seq = [t.cp(va=True) for t in self.expanded_arg(m, args, idx, cache)]
                    if raw and not seq:
                        self.f.add("arg-expands-empty")
                if seq:
                    seq[0] = seq[0].cp(ws=pt.ws)
                elif pt.ws:
                    seq = [Tok("pm", "", ws=True)]      # remember the white space of an empty substitution
            elif kind == "opt":
                va_raw = args[nva] if nva < len(args) else []
                va_exp = self.expanded_arg(m, args, nva, cache)
                if va_raw and not va_exp:
                    # C++20 [cpp.subst]: what counts is the variable argument after macro expansion (gcc agrees)
                    self.f.add("va-opt-args-expand-empty")
                if va_exp:
                    self.f.add("va-opt-taken")
                    seq = [t for t in self.subst_seq(m, n[1], args, cache, name)]
                else:
                    self.f.add("va-opt-skipped")
                    seq = []
                if n[3]:
                    self.f.add("va-opt-stringify")
                    seq = [self.stringify(seq, "stringify").cp(ws=n[2].ws, org=m.name)]
                elif seq:
                    seq[0] = seq[0].cp(ws=n[2].ws)
                if operand:
                    self.f.add("va-opt-paste")
            items.append(seq)
        # perform the pastes, left to right
        res = []
        i = 0
        cur = None
        out_items = []
        while i < len(items):
            it = items[i]
            if it == PASTE:
                if cur is None or i + 1 >= len(items) or items[i + 1] == PASTE:
                    raise Invalid("misplaced ##")
                rhs = [t for t in items[i + 1] if t.k != "pm"]
                lhs = [t for t in cur if t.k != "pm"]
                self.f.add("paste")
                if not lhs or not rhs:
                    self.f.add("paste-placemarker")
                    cur = lhs + rhs if (lhs or rhs) else []
                else:
                    a, b = lhs[-1], rhs[0]
                    sp = a.s + b.s
                    if not one_token(sp) or sp in ("//", "/*") or (a.k == "num" and b.k == "id" and
                                                                     not re.match(r"[0-9]+$", sp)):
                        raise Invalid("paste of '%s' and '%s'" % (a.s, b.s))
                    k = lex(sp)[0].k
                    if k == "num" and not re.match(r"(0[xX][0-9a-fA-F]+|[0-9]+)$", sp):
                        raise Ambiguous("pasted pp-number that is not an integer")
                    nt = Tok(k, sp, ws=a.ws, hs=a.hs & b.hs, org=m.name, va=False)
                    if k == "id" and sp in self.macros:
                        self.f.add("paste-makes-macro-name")
                    self.f.add({"id": "paste-id", "num": "paste-num"}.get(k, "paste-punct"))
                    cur = lhs[:-1] + [nt] + rhs[1:]
                i += 2
                continue
            if cur is not None:
                out_items.append(cur)
            cur = it
            i += 1
        if cur is not None:
            out_items.append(cur)
        carry = False
        for seq in out_items:
            for t in seq:
                if t.k == "pm":
                    carry = carry or t.ws
                    continue
                if carry and not t.ws:
                    t = t.cp(ws=True)
                carry = False
                res.append(t)
        return res


def run_model(prog, policy="intersect"):
    """-> (tokens, features) ; raises Invalid / Ambiguous"""
    m = Model(policy)
    out = m.run(prog)
    return out, m.f


def reference(prog):
    """Run both hide-set policies.  -> (tokens, features).  Raises Invalid/Ambiguous."""
    out1, f1 = run_model(prog, "intersect")
    if "call-span" in f1:
        out2, _ = run_model(prog, "union")
        if [t.s for t in out1] != [t.s for t in out2]:
            raise Ambiguous("DR 268: result depends on when a finished macro is re-enabled")
    return out1, f1


# ---------------------------------------------------------------------------
# generator
# ---------------------------------------------------------------------------

FLAGS = ["objlike", "fnlike", "variadic", "va_opt", "stringify", "paste", "nested", "multiline", "empty_args",
         "paren_commas", "lit_names", "macro_as_arg", "self_ref", "mutual_ref", "wrapped_self_ref", "op_adjacency", "undef_redef", "push_pop",
         "cmdline"]

IDENTS = ["a", "b", "c", "d", "e", "foo", "bar", "baz", "n", "k", "v", "w0", "int", "const", "q"]
PARAMS = ["x", "y", "z"]
BIN = ["+", "-", "*", "/", "%", "<", ">", "==", "!=", "<=", ">=", "&&", "||", "&", "|", "^", "<<", ">>", "=",
       "+=", "->", ".", "?"]
UN = ["-", "!", "~", "*", "&", "++", "--"]
PUNCT_PASTES = [("+", "+"), ("-", "-"), ("-", ">"), ("<", "<"), (">", ">"), ("<", "="), (">", "="), ("=", "="),
                ("!", "="), ("&", "&"), ("|", "|"), ("+", "="), ("<<", "="), ("-", "=")]


TIGHT = "\0"      # pseudo token for Gen.render: write the neighbours without white space between them

# operators that substitution can make adjacent: (left, right) read as something else when written together
OP_PAIRS = [(">", ">"), ("<", "<"), ("-", "-"), ("+", "+"), ("-", ">"), ("<", "="), (">", "="), ("=", "="), ("!", "="),
            ("&", "&"), ("|", "|"), ("+", "="), ("-", "="), ("*", "="), ("/", "="), ("%", "="), ("&", "="), ("|", "="),
            ("^", "="), (".", "."), ("..", "."), (".", "*"), ("/", "/"), ("/", "*"), ("<<", "="), (">>", "="),
            ("-", ">*"), ("->", "*"), ("<=", ">"), ("<", "=>"), (">", ">="), (">", ">>"), ("<", "<="), ("-", "--"),
            ("+", "++"), ("&", "&&"), ("<", "%"), ("%", ">")]


class MacroInfo(object):
    def __init__(self, name, params, variadic):
        self.name, self.params, self.variadic = name, params, variadic
        self.roles = {}        # param -> set of 'L','R' (used as paste operand)
        self.tail = None       # spelling of the last token of its replacement list
        self.script = None     # fixed replacement list (wrapped self-reference construct) instead of a random one
        self.pure_ident = False


class Gen(object):
    def __init__(self, rng, flags):
        self.r = rng
        self.fl = flags
        self.macros = []       # MacroInfo in definition order (all, incl. later ones for mutual refs)
        self.live = []         # indices currently defined (while emitting)

    def on(self, f, p=0.5):
        return self.fl.get(f, False) and self.r.random() < p

    # --- rendering ------------------------------------------------------------
    def render(self, toks, multiline=False, tight=0.35):
        """toks: list of spellings -> text with randomised white space (never changing the tokens)."""
        r = self.r
        s = ""
        prev = None
        depth = 0
        glue = False
        for t in toks:
            if t == TIGHT:
                glue = True          # no white space between the neighbours (if the source allows it)
                continue
            if prev is not None:
                need = not glue_ok(prev, t)
                # a function-like macro name and its '(' may be separated by white space at a use, fine
                if need or (not glue and r.random() > tight):
                    w = " "
                    x = r.random()
                    if x < 0.08:
                        w = "  "
                    elif x < 0.12:
                        w = "\t"
                    elif x < 0.16:
                        w = "   "
                    if multiline and depth > 0 and r.random() < 0.25:
                        w = r.choice(["\n", "\n  ", " \n", "\n\t", "/**/", " /* c, ( */ ", "/* ) */"])
                    s += w
            s += t
            glue = False
            if t == "(":
                depth += 1
            elif t == ")":
                depth -= 1
            prev = t
        return s

    # --- token sequence builders -------------------------------------------------
    def literal(self, scope):
        r = self.r
        x = r.random()
        if x < 0.5:
            return [str(r.choice([0, 1, 2, 3, 7, 10, 42, 100, 255, 1000]))]
        if x < 0.6:
            return [r.choice(["0x1F", "0x10", "017", "0xff", "00"])]
        if x < 0.85:
            return [self.strlit(scope)]
        return [self.chrlit(scope)]

    def strlit(self, scope):
        r = self.r
        parts = []
        if not self.fl.get("lit_names"):
            # plain literal: one word or number, no white space, no punctuation
            return '"' + r.choice(["", "s", "abc", "w0", "42", "%d", "x1"]) + '"'
        for _ in range(r.randint(0, 3)):
            x = r.random()
            if self.fl.get("lit_names") and x < 0.35 and scope.get("params"):
                parts.append(r.choice(scope["params"]))
            elif self.fl.get("lit_names") and x < 0.6 and self.macros:
                parts.append(r.choice(self.macros).name)
            elif x < 0.7:
                parts.append(r.choice(IDENTS))
            elif x < 0.8:
                parts.append(r.choice([",", ", ", "(", ")", "(,)", ";"]))
            elif x < 0.86:
                parts.append(r.choice(['\\"', "\\\\", "\\n", "'", "\\t"]))
            elif x < 0.9:
                parts.append(r.choice(["#", "##", "%d", " "]))
            else:
                parts.append(str(r.randint(0, 99)))
        sep = r.choice(["", " ", " "])
        return '"' + sep.join(parts) + '"'

    def chrlit(self, scope):
        r = self.r
        if not self.fl.get("lit_names") and not self.fl.get("paren_commas"):
            return r.choice(["'a'", "'0'", "'\\n'", "'\\\\'"])
        opts = ["'a'", "','", "'('", "')'", "'\"'", "'\\''", "'\\\\'", "'0'", "'\\n'", "' '"]
        if self.fl.get("lit_names") and scope.get("params"):
            opts += ["'%s'" % p for p in scope["params"] if len(p) == 1] * 3
        return r.choice(opts)

    def atom(self, scope, depth):
        """one operand: a list of spellings"""
        r = self.r
        x = r.random()
        params = scope.get("params") or []
        if params and x < 0.30:
            if self.fl.get("macro_as_arg") and r.random() < 0.3 and depth < 2:
                # the parameter is applied: a macro name passed as argument is invoked after rescanning
                out = [r.choice(params), "("]
                for i in range(r.choice([0, 1, 1, 1, 2, 2, 3])):
                    if i:
                        out.append(",")
                    out += self.expr(scope, depth + 2, 1)
                return out + [")"]
            return [r.choice(params)]
        if scope.get("variadic") and x < 0.38:
            return ["__VA_ARGS__"]
        if x < 0.52:
            ref = self.macro_ref(scope, depth)
            if ref:
                return ref
        if x < 0.70:
            return [r.choice(IDENTS)]
        if x < 0.92 or depth > 2:
            return self.literal(scope)
        return ["("] + self.expr(scope, depth + 1, r.randint(1, 3)) + [")"]

    def expr(self, scope, depth, n):
        """a loosely expression-shaped token sequence with n operands"""
        r = self.r
        out = []
        for i in range(n):
            if i:
                x = r.random()
                if x < 0.75:
                    out.append(r.choice(BIN))
                elif x < 0.85 and depth > 0:
                    out.append(",")
                # else: juxtaposition
            if r.random() < 0.12:
                out.append(r.choice(UN))
            out.extend(self.atom(scope, depth))
        return out

    def candidates(self, scope):
        """macros this scope may refer to: (info, kind) kind in earlier/self/later"""
        me = scope.get("index")
        res = []
        for i, m in enumerate(self.macros):
            if me is None:
                if i in scope["live"]:
                    res.append((m, "earlier"))
            elif i < me:
                res.append((m, "earlier"))
            elif i == me:
                if self.fl.get("self_ref"):
                    res.append((m, "self"))
            elif self.fl.get("mutual_ref"):
                res.append((m, "later"))
        return res

    def macro_ref(self, scope, depth):
        r = self.r
        cands = self.candidates(scope)
        if not cands:
            return None
        # bias: self / later references are rarer than earlier ones
        weights = [{"earlier": 6, "self": 3, "later": 3}[k] for _, k in cands]
        m, kind = r.choices(cands, weights)[0]
        if m.params is None:
            return [m.name]
        if self.fl.get("macro_as_arg") and r.random() < 0.12:
            return [m.name]                      # bare function-like name (not an invocation here)
        if depth > (3 if self.fl.get("nested") else 1) or (depth > 0 and r.random() < 0.35):
            return [r.choice(IDENTS)]            # a plain identifier instead of a deeper invocation
        return self.call(m, scope, depth)

    def arg(self, m, pname, scope, depth):
        r = self.r
        roles = m.roles.get(pname, ())
        params = scope.get("params") or []
        if roles:
            # paste operand: keep both ends identifier-like (or empty / digits on the right side)
            x = r.random()
            if x < 0.12 and self.fl.get("empty_args"):
                return []
            if x < 0.5 or "L" in roles:
                c = [r.choice(IDENTS)]
                if self.macros and r.random() < 0.3:
                    c = [r.choice(self.macros).name]
                if params and r.random() < 0.3:
                    p = r.choice(params)
                    if "me" in scope:
                        scope["me"].roles.setdefault(p, set()).update(roles)
                    c = [p]
                if "L" in roles and "R" not in roles and r.random() < 0.2:
                    c = [r.choice(IDENTS), r.choice(BIN)] + c       # only the last token is pasted
                if "R" in roles and "L" not in roles and r.random() < 0.2:
                    c = c + [r.choice(BIN), r.choice(IDENTS)]
                return c
            return [str(r.choice([0, 1, 2, 3, 7, 12]))]
        x = r.random()
        if self.fl.get("empty_args") and x < 0.15:
            return []
        if self.fl.get("macro_as_arg") and x < 0.30:
            fns = [mm for mm, _ in self.candidates(scope)]
            if fns:
                return [r.choice(fns).name]
        if self.fl.get("paren_commas") and x < 0.45:
            return ["("] + self.expr(scope, depth + 1, 1) + [","] + self.expr(scope, depth + 1, 1) + [")"]
        if self.fl.get("paren_commas") and x < 0.52:
            return [r.choice(['","', '"a,b"', "','", '"("', "')'", '"f(x, y)"', '", "'])]
        return self.expr(scope, depth + 1, r.choice([1, 1, 1, 2, 2, 3]))

    def call(self, m, scope, depth, name=None):
        r = self.r
        out = [name or m.name, "("]
        nargs = []
        for p in m.params:
            nargs.append(self.arg(m, p, scope, depth))
        if m.variadic:
            k = r.choice([0, 0, 1, 1, 2, 3]) if self.fl.get("empty_args") else r.choice([1, 1, 2, 3])
            if k == 0 and m.params and r.random() < 0.5:
                pass                                  # F(a)   no comma at all
            elif k == 0:
                if m.params:
                    nargs.append([])                  # F(a,)
            else:
                for _ in range(k):
                    nargs.append(self.arg(m, "__VA_ARGS__", scope, depth))
        for i, a in enumerate(nargs):
            if i:
                out.append(",")
            out.extend(a)
        out.append(")")
        return out

    # --- definitions ------------------------------------------------------------
    def body(self, info, index):
        r = self.r
        scope = dict(params=list(info.params or []), variadic=info.variadic, index=index, me=info)
        n = r.choice([0, 1, 1, 2, 2, 3, 3, 4, 5]) if r.random() < 0.9 else r.randint(5, 8)
        out = []
        fn = info.params is not None
        for i in range(n):
            x = r.random()
            if i and r.random() < 0.55:
                out.append(r.choice(BIN))
            if fn and scope["params"] and self.fl.get("stringify") and x < 0.18:
                out += ["#", r.choice(scope["params"])]
            elif fn and info.variadic and self.fl.get("stringify") and x < 0.22:
                out += ["#", "__VA_ARGS__"]
            elif fn and self.fl.get("paste") and x < 0.40:
                out += self.paste_expr(info, scope)
            elif self.fl.get("paste") and x < 0.43 and fn:
                a, b = r.choice(PUNCT_PASTES)
                out += [r.choice(IDENTS), a, "##", b, r.choice(IDENTS)]
            elif fn and info.variadic and self.fl.get("va_opt") and x < 0.60:
                inner = self.expr(scope, 1, r.randint(1, 2))
                if r.random() < 0.3:
                    inner = [","] + inner
                if r.random() < 0.25:
                    inner = inner + [","]
                if r.random() < 0.1:
                    inner = []
                pre = ["#"] if (self.fl.get("stringify") and r.random() < 0.12) else []
                out += pre + ["__VA_OPT__", "("] + inner + [")"]
            else:
                out += self.atom(scope, 0)
        return out

    def paste_expr(self, info, scope):
        r = self.r
        params = scope["params"]

        def operand(side):
            x = r.random()
            if params and x < 0.6:
                p = r.choice(params)
                info.roles.setdefault(p, set()).add(side)
                return p
            if info.variadic and x < 0.66 and side == "R":
                info.roles.setdefault("__VA_ARGS__", set()).add("R")
                return "__VA_ARGS__"
            if side == "R" and x < 0.8:
                return str(r.choice([0, 1, 2, 3]))
            if x < 0.9 and self.macros:
                nm = r.choice(self.macros).name
                return nm[:-1] if (side == "L" and nm[-1].isdigit() and r.random() < 0.5) else nm
            return r.choice(IDENTS)

        out = [operand("L"), "##", operand("R")]
        if r.random() < 0.2:
            out += ["##", operand("R")]
            # the middle operand is pasted on both sides
            mid = out[2]
            if mid in info.roles:
                info.roles[mid].add("L")
        return out

    def define_text(self, info, index):
        body = list(info.script) if info.script is not None else self.body(info, index)
        head = info.name
        if info.params is not None:
            ps = list(info.params) + (["..."] if info.variadic else [])
            head += "(" + self.r.choice([", ", ",", " , "]).join(ps) + ")"
        btxt = self.render(body, tight=0.3)
        info.tail = body[-1] if body else None
        return head, btxt

    # --- the program ------------------------------------------------------------
    def program(self):
        r = self.r
        fl = self.fl
        ndefs = r.randint(2, 8)
        kinds = []
        for i in range(ndefs):
            opts = []
            if fl.get("objlike") or not (fl.get("fnlike") or fl.get("variadic")):
                opts += ["obj"] * 3
            if fl.get("fnlike"):
                opts += ["fn"] * 4
            if fl.get("variadic"):
                opts += ["var"] * 3
            kinds.append(r.choice(opts))
        wrapped = None
        if fl.get("wrapped_self_ref"):
            # an object-like macro that refers to itself (and to a partner) THROUGH 1..3 levels of function-like
            # macros: its own name is handed on as an argument  (X -> W2(X) -> W1(X) -> W0(X) -> X)
            depth = r.choice([1, 2, 2, 3, 3])
            mutual = r.random() < 0.5
            need = depth + 1 + (1 if mutual else 0)
            if ndefs < need:
                ndefs = need + r.randint(0, 2)
                kinds = kinds + [r.choice(kinds or ["obj"]) for _ in range(ndefs - len(kinds))]
            for i in range(depth):
                kinds[i] = "wfn"
            kinds[depth] = "wobj"
            if mutual:
                kinds[depth + 1] = "wobj"
            wrapped = (depth, mutual)
        for i, k in enumerate(kinds):
            name = "M%d" % i
            if k == "wfn":
                info = MacroInfo(name, PARAMS[:r.choice([1, 1, 2])], False)
            elif k == "wobj":
                info = MacroInfo(name, None, False)
            elif k == "obj":
                info = MacroInfo(name, None, False)
            elif k == "fn":
                np_ = r.choice([0, 1, 1, 1, 2, 2, 3])
                info = MacroInfo(name, PARAMS[:np_], False)
            else:
                np_ = r.choice([0, 0, 1, 1, 2])
                info = MacroInfo(name, PARAMS[:np_], True)
            self.macros.append(info)
        # bodies: generate in REVERSE order so that paste roles of later macros are known to earlier callers?
        # No: a body refers mostly to EARLIER macros, whose roles must be known -> generate in order; references
        # to later macros (mutual recursion) see roles discovered so far only (the model rejects bad pastes).
        if wrapped:
            self.script_wrapped(*wrapped)
        texts = []
        for i, info in enumerate(self.macros):
            texts.append(self.define_text(info, i))
        units = []
        cmd = set()
        if fl.get("cmdline"):
            for i in range(ndefs):
                if r.random() < 0.4:
                    cmd.add(i)
            if not cmd:
                cmd.add(r.randrange(ndefs))
        # -D definitions are all visible from the start; file definitions appear in index order, with use
        # statements interleaved.
        for i in sorted(cmd):
            head, b = texts[i]
            units.append({"k": "D", "t": head + "=" + b})
        live = set(cmd)
        nuse_total = r.randint(2, 6)
        pending_defs = [i for i in range(ndefs) if i not in cmd]
        state = {"pushed": []}

        def use():
            scope = dict(params=[], variadic=False, index=None, live=set(live))
            n = r.choice([1, 1, 2, 2, 3])
            toks = self.expr(scope, 0, n)
            if fl.get("macro_as_arg") and r.random() < 0.4:
                toks += self.span_call(scope)
            ml = fl.get("multiline") and r.random() < 0.6
            pre = r.choice([[], [], ["int", "v"], ["return"], ["v", "="]])
            txt = self.render(pre + toks + [";"], multiline=ml)
            units.append({"k": "use", "t": txt})

        # emit: defs first in index order with occasional uses in between; then the mutation phase
        for i in pending_defs:
            head, b = texts[i]
            cont = ""
            if fl.get("multiline") and r.random() < 0.2 and b:
                # a replacement list continued over two physical lines
                sp = [m.start() for m in re.finditer(" ", b)]
                if sp:
                    p = r.choice(sp)
                    # never split inside a literal
                    if b[:p].count('"') % 2 == 0 and b[:p].count("'") % 2 == 0:
                        b = b[:p] + " \\\n  " + b[p + 1:]
            units.append({"k": "def", "t": "#define " + head + (" " if b or True else "") + b + cont})
            live.add(i)
            if r.random() < 0.3:
                use()
        for _ in range(nuse_total):
            use()
            x = r.random()
            if fl.get("undef_redef") and x < 0.45 and live:
                i = r.choice(sorted(live))
                y = r.random()
                if y < 0.35:
                    units.append({"k": "dir", "t": "#undef " + self.macros[i].name})
                    live.discard(i)
                elif y < 0.8:
                    units.append({"k": "dir", "t": "#undef " + self.macros[i].name})
                    head, b = self.define_text(self.macros[i], i) if r.random() < 0.8 else texts[i]
                    units.append({"k": "def", "t": "#define " + head + " " + b})
                    texts[i] = (head, b)
                else:
                    head, b = texts[i]
                    units.append({"k": "def", "t": "#define " + head + " " + b})   # benign redefinition
            elif fl.get("push_pop") and x < 0.8:
                y = r.random()
                if (y < 0.5 or not state["pushed"]):
                    i = r.randrange(ndefs)
                    units.append({"k": "dir", "t": r.choice(['#pragma push_macro("%s")', '#pragma push_macro ( "%s" )'])
                                  % self.macros[i].name})
                    state["pushed"].append((i, i in live, texts[i]))
                    z = r.random()
                    if z < 0.4:
                        units.append({"k": "dir", "t": "#undef " + self.macros[i].name})
                        head, b = self.define_text(self.macros[i], i)
                        units.append({"k": "def", "t": "#define " + head + " " + b})
                        texts[i] = (head, b)
                        live.add(i)
                    elif z < 0.6:
                        units.append({"k": "dir", "t": "#undef " + self.macros[i].name})
                        live.discard(i)
                else:
                    i, was_live, txt = state["pushed"].pop()
                    units.append({"k": "dir", "t": '#pragma pop_macro("%s")' % self.macros[i].name})
                    if was_live:
                        live.add(i)
                        texts[i] = txt
                    else:
                        live.discard(i)
        if fl.get("op_adjacency"):
            self.adjacency_kit(units, r.choice(OP_PAIRS))
            if r.random() < 0.5:
                self.adjacency_kit(units, r.choice(OP_PAIRS), "J")
        if wrapped:
            depth, mutual = wrapped
            toks = [self.macros[depth].name]
            if mutual and r.random() < 0.7:
                toks += [r.choice(BIN), self.macros[depth + 1].name]
            if r.random() < 0.3:
                toks = ["("] + toks + [")"]
            units.append({"k": "use", "t": self.render(r.choice([[], ["int", "v", "="], ["return"]]) + toks + [";"])})
        for _ in range(r.randint(1, 3)):
            use()
        return {"units": units}

    def adjacency_kit(self, units, pair, pre="K"):
        """definitions and uses in which substitution makes the operators a and b adjacent, with no white space
        in between: argument end / replacement text, replacement text / argument begin, end of a nested
        expansion / following text, object-like macros next to text and next to each other.  A conforming
        preprocessor keeps them two tokens."""
        r = self.r
        a, b = pair
        if a == "..":
            a_toks = [".", TIGHT, "."]
        else:
            a_toks = [a]
        K = [pre + str(i) for i in range(5)]
        e = lambda: r.choice(IDENTS)
        defs = [(K[0] + "(x)", r.choice([[], [e()]]) + a_toks + [TIGHT, "x"] + r.choice([[], [e()]])),
                (K[1] + "(x)", r.choice([[], [e()]]) + ["x", TIGHT, b] + r.choice([[], [e()]])),
                (K[2], r.choice([[], [e()]]) + a_toks),
                (K[3], [b] + r.choice([[], [e()]])),
                (K[4] + "(x)", ["x"])]
        for head, body in defs:
            units.append({"k": "def", "t": "#define " + head + " " + self.render(body)})
        uses = [[K[0], "(", b, ")"], [K[0], "(", b, e(), ")"], [K[1], "("] + a_toks + [")"],
                [K[1], "(", e()] + a_toks + [")"], [e(), K[2], TIGHT, b, e()], [e()] + a_toks + [TIGHT, K[3], e()],
                [K[2], TIGHT, K[3]], [K[4], "(", e()] + a_toks + [")", TIGHT, b],
                [K[4], "(", K[1], "("] + a_toks + [")", ")"], [K[0], "(", K[3], ")"], [K[1], "(", K[2], ")"],
                [K[4], "("] + a_toks + [")", TIGHT, K[4], "(", b, ")"],
                [K[4], "(", K[2], TIGHT, K[3], ")"], [K[4], "(", K[4], "(", e()] + a_toks + [")", TIGHT, b, e(), ")"]]
        r.shuffle(uses)
        for u in uses[:r.randint(5, len(uses))]:
            units.append({"k": "use", "t": self.render(r.choice([[], ["int", "v", "="]]) + u + [";"])})

    def script_wrapped(self, depth, mutual):
        r = self.r
        W = self.macros[:depth]
        X = self.macros[depth]
        Y = self.macros[depth + 1] if mutual else None

        def callw(w, first):
            out = [w.name, "("] + first
            for _p in w.params[1:]:
                out += [",", r.choice(IDENTS + ["1", "2"])]
            return out + [")"]

        def around(core, extra):
            out = list(core)
            if r.random() < 0.4:
                out = [r.choice(IDENTS), r.choice(BIN)] + out
            if r.random() < 0.4:
                out = out + [r.choice(BIN)] + extra
            return out

        for i, w in enumerate(W):
            ex = [w.params[1]] if len(w.params) > 1 else [r.choice(IDENTS)]
            if i == 0:
                core = r.choice([["x"], ["(", "x", ")"], ["x"]])
                if len(w.params) > 1:
                    core = core + [r.choice(BIN), w.params[1]]
                w.script = around(core, [r.choice(IDENTS)])
            else:
                inner = callw(W[i - 1], ["x"])
                if r.random() < 0.3:
                    inner = callw(W[r.randrange(i)], inner)         # nested invocation on the way
                w.script = around(inner, ex)
        top = W[-1]
        if Y is None:
            X.script = around(callw(top, [X.name]), [r.choice(IDENTS)])
        else:
            X.script = around(callw(top, [r.choice([X.name, Y.name])]), [Y.name])
            if X.name not in X.script and Y.name not in X.script[:-1]:
                X.script = X.script + [r.choice(BIN), Y.name]
            Y.script = around(callw(r.choice(W), [X.name]), [r.choice(IDENTS)])

    def span_call(self, scope):
        """an invocation whose name comes out of a macro expansion and whose argument list is written after it:
        ALIAS (args)   where ALIAS's replacement list ends in a function-like macro name, or
        WRAP(.., F, ..) (args)   with the name handed through an argument"""
        r = self.r
        cands = [m for m, _ in self.candidates(scope)]
        byname = {m.name: m for m in self.macros}
        fns = [m for m in cands if m.params is not None]
        if not fns:
            return []
        alias = [m for m in cands if m.tail in byname and byname[m.tail].params is not None]
        if alias and r.random() < 0.6:
            m = r.choice(alias)
            target = byname[m.tail]
            head = [m.name] if m.params is None else self.call(m, scope, 2)
        else:
            target = r.choice(fns)
            wraps = [m for m in fns if m.params]
            if not wraps:
                return []
            w = r.choice(wraps)
            head = self.call(w, scope, 2)
            # put the target's name in place of one argument (the first top-level argument slot)
            head = [w.name, "(", target.name] + ([","] + ["a"] * 1 if False else [])
            rest = []
            for i in range(1, len(w.params)):
                rest += [",", r.choice(IDENTS)]
            if w.variadic and r.random() < 0.5:
                rest += [",", r.choice(IDENTS)]
            head = head + rest + [")"]
        args = self.call(target, scope, 2)[1:]
        return [r.choice(BIN)] + head + args


PROB = {"wrapped_self_ref": 0.15, "op_adjacency": 0.15, "objlike": 0.6, "fnlike": 0.6, "self_ref": 0.15, "mutual_ref": 0.15, "lit_names": 0.2, "cmdline": 0.25,
        "push_pop": 0.25, "undef_redef": 0.3, "va_opt": 0.25, "variadic": 0.35, "stringify": 0.3, "paste": 0.3,
        "empty_args": 0.3, "paren_commas": 0.3, "macro_as_arg": 0.3, "nested": 0.4, "multiline": 0.3}


def make_flags(rng, forced=None):
    """Each feature flag is on with probability 1/2, plus `forced` (the runner forces each flag on in turn so
    that every flag is on in at least 1/8 of the programs... in fact far more)."""
    fl = {f: rng.random() < PROB.get(f, 0.4) for f in FLAGS}
    if not (fl["objlike"] or fl["fnlike"] or fl["variadic"]):
        fl[rng.choice(["objlike", "fnlike", "variadic"])] = True
    if fl["va_opt"]:
        fl["variadic"] = True
    if fl["stringify"] or fl["paste"] or fl["empty_args"] or fl["paren_commas"] or fl["macro_as_arg"]:
        if not fl["variadic"]:
            fl["fnlike"] = True
    for f in (forced or []):
        fl[f] = True
        if f == "va_opt":
            fl["variadic"] = True
        if f in ("stringify", "paste", "empty_args", "paren_commas", "macro_as_arg", "nested") and not fl["variadic"]:
            fl["fnlike"] = True
    return fl


def gen_program(rng, flags):
    return Gen(rng, flags).program()
