"""classgen -- class hierarchies over the special-member feature alphabet (C10).

A *model* is a JSON-serialisable dict

    {"classes": [ {"name": "C3", "kw": "struct"|"class", "final": bool,
                   "bases":   [{"ref": "C1", "access": ""|"public"|"protected"|"private", "virtual": bool}],
                   "members": [{"tag": "<alphabet tag>", "access": ""|"public"|..., "ref": "C0"|None, "n": int}]
                  }, ...]}

`render(model)` prints every class on ONE line (so a g++ diagnostic's line number
names the class it is about).  Nothing in here decides what the C++ rules say:
g++ is the authority; the generator only tries to avoid obviously ill-formed
programs so that few classes are thrown away.
"""
import copy
import random

ACCESSES = ["public", "protected", "private"]

# tag -> text template.  {N} own class name, {S} own type (`N<T>` in a class template), {R} referenced class,
# {i} member number
MEMBER_TEXT = {
    # constructors
    "ctor-default:user": "{N}();",
    "ctor-default:default": "{N}() = default;",
    "ctor-default:delete": "{N}() = delete;",
    "ctor-conv": "{N}(int);",
    "ctor-conv:explicit": "explicit {N}(int);",
    "ctor-conv2": "{N}(int, int);",
    "ctor-copy:user": "{N}(const {S} &);",
    "ctor-copy:default": "{N}(const {S} &) = default;",
    "ctor-copy:delete": "{N}(const {S} &) = delete;",
    "ctor-copy:nonconst": "{N}({S} &);",
    # a copy constructor with a defaulted extra parameter (is a copy constructor) and two-parameter constructors whose
    # first parameter is a reference to the class (are NOT copy / move constructors)
    "ctor-copy:dflt2": "{N}(const {S} &, int = 0);",
    "ctor-xcopy2": "{N}(const {S} &, int);",
    "ctor-xmove2": "{N}({S} &&, int);",
    "ctor-xcopy3": "{N}(const {S} &, int, int);",
    "ctor-move:user": "{N}({S} &&);",
    "ctor-move:default": "{N}({S} &&) = default;",
    "ctor-move:delete": "{N}({S} &&) = delete;",
    "assign-copy:user": "{S} &operator = (const {S} &);",
    "assign-copy:delete": "{S} &operator = (const {S} &) = delete;",
    "assign-move:user": "{S} &operator = ({S} &&);",
    "assign-move:delete": "{S} &operator = ({S} &&) = delete;",
    # destructors
    "dtor:user": "~{N}();",
    "dtor:default": "~{N}() = default;",
    "dtor:delete": "~{N}() = delete;",
    "dtor:virtual": "virtual ~{N}();",
    "dtor:virtual-default": "virtual ~{N}() = default;",
    "dtor:pure": "virtual ~{N}() = 0;",
    # data members
    "data:int": "int d{i};",
    "data:int-init": "int d{i} = 7;",
    "data:const-int": "const int d{i};",
    "data:const-int-init": "const int d{i} = 3;",
    "data:array-const-int": "const int d{i}[2];",
    "data:volatile-int": "volatile int d{i};",
    "data:mutable-int": "mutable int d{i};",
    "data:ref": "int &d{i};",
    "data:ref-init": "int &d{i} = vf_g_int;",
    "data:rref": "int &&d{i};",
    "data:ptr": "int *d{i};",
    "data:const-ptr": "int *const d{i};",
    "data:ptr-to-const": "const int *d{i};",
    "data:static-const-int": "static const int d{i} = 1;",
    "data:class": "{R} d{i};",
    "data:const-class": "const {R} d{i};",
    "data:array-class": "{R} d{i}[2];",
    "data:ptr-class": "{R} *d{i};",
    "data:ref-class": "{R} &d{i};",
    "data:static-class": "static {R} d{i};",
    # functions
    "virt:decl": "virtual void v{i}();",
    "virt:decl-const": "virtual void v{i}() const;",
    "virt:pure": "virtual void v{i}() = 0;",
    "virt:pure-const": "virtual void v{i}() const = 0;",
    "virt:override": "void v{i}() override;",
    "virt:override-const": "void v{i}() const override;",
    "virt:implicit-override": "void v{i}();",
    "virt:implicit-override-const": "void v{i}() const;",
    "virt:final": "void v{i}() final;",
    "virt:pure-override": "void v{i}() override = 0;",
    "virt:param-variant": "void v{i}(int);",
    # members that depend on the template parameter ({T} is `T` in a class template, `int` otherwise)
    "data:tparam": "{T} d{i};",
    "data:const-tparam": "const {T} d{i};",
    "data:ref-tparam": "{T} &d{i};",
    "virt:pure-T": "virtual void v{i}(const {T} &) = 0;",
    "virt:decl-T": "virtual void v{i}(const {T} &);",
    "virt:override-T": "void v{i}(const int &) override;",
    "virt:implicit-override-T": "void v{i}(const int &);",
    # pure virtuals with class-typed reference / pointer parameters, their exact overriders, and same-named
    # functions that differ only in the const of the referent / pointee (these HIDE, they do not override)
    "virt:pure-ref": "virtual void v{i}(VfCanvas &) = 0;",
    "virt:pure-ptr": "virtual void v{i}(VfCanvas *) = 0;",
    "virt:override-ref": "void v{i}(VfCanvas &) override;",
    "virt:override-ptr": "void v{i}(VfCanvas *);",
    "virt:hide-cref": "void v{i}(const VfCanvas &);",
    "virt:hide-cptr": "void v{i}(const VfCanvas *);",
    "fn:plain": "void m{i}();",
    "fn:static": "static void s{i}();",
    "fn:published": "void pm();",
}

# simpler forms tried while minimising a witness (accepted only if the same
# disagreement persists): tag -> list of simpler tags
SIMPLER = {
    "virt:override": ["virt:implicit-override"],
    "virt:override-const": ["virt:implicit-override-const"],
    "virt:final": ["virt:implicit-override"],
    "virt:pure-override": ["virt:pure"],
    "virt:pure-const": ["virt:pure"],
    "virt:decl-const": ["virt:decl"],
    "virt:implicit-override-const": ["virt:implicit-override"],
    "data:array-const-int": ["data:const-int"],
    "data:const-class": ["data:const-int", "data:class"],
    "data:array-class": ["data:class"],
    "data:ref-class": ["data:ref"],
    "data:rref": ["data:ref"],
    "data:const-ptr": ["data:const-int"],
    "dtor:virtual-default": ["dtor:virtual", "dtor:default"],
    "dtor:virtual": ["dtor:user"],
    "dtor:pure": ["dtor:virtual"],
    "ctor-conv:explicit": ["ctor-conv"],
    "ctor-conv2": ["ctor-conv"],
    "ctor-move:default": ["ctor-move:user"],
    "ctor-copy:nonconst": ["ctor-copy:user"],
    "assign-move:delete": ["assign-move:user"],
}

CTOR_TAGS = [t for t in MEMBER_TEXT if t.startswith("ctor-") and t not in
             ("ctor-copy:dflt2", "ctor-xcopy2", "ctor-xmove2", "ctor-xcopy3")]
DTOR_TAGS = [t for t in MEMBER_TEXT if t.startswith("dtor:")]
DATA_PLAIN = ["data:int", "data:int-init", "data:const-int", "data:const-int-init", "data:array-const-int",
              "data:volatile-int", "data:mutable-int", "data:ref", "data:ref-init", "data:rref", "data:ptr",
              "data:const-ptr", "data:ptr-to-const", "data:static-const-int"]
DATA_CLASS = ["data:class", "data:class", "data:class", "data:const-class", "data:array-class", "data:ptr-class",
              "data:ref-class", "data:static-class"]

PRELUDE = (
    "#ifdef CPPPARSER\n#define PUBLISHED __published\n#else\n#define PUBLISHED public\n#endif\n"
    "extern int vf_g_int;\nstruct VfCanvas { int w; };\n")
PRELUDE_LINES = PRELUDE.count("\n")


def ref_text(e, rename):
    """a base / member entry names an ordinary class, or a class template instantiation: `targ` "int" (or "T" inside
    another template) spells the template-id `C5T<int>`, no `targ` uses the typedef alias `C5`"""
    n = rename(e["ref"])
    return (n + "T<" + e["targ"] + ">") if e.get("targ") else n


def member_text(m, name, rename=lambda n: n, self_type=None, tparam="int"):
    return MEMBER_TEXT[m["tag"]].format(N=name, S=self_type or name, T=tparam,
                                        R=ref_text(m, rename) if m.get("ref") else "", i=m.get("n", 0))


def render_class(c, rename=lambda n: n):
    """one line per class.  A class template `Ck` is written `template<class T> struct CkT {...}; typedef CkT<int> Ck;`
    so that `Ck` names the instantiation that is judged."""
    alias = rename(c["name"])
    tmpl = bool(c.get("tmpl"))
    name = alias + "T" if tmpl else alias
    s = ("template<class T> " if tmpl else "") + c["kw"] + " " + name
    if c.get("final"):
        s += " final"
    if c["bases"]:
        bl = []
        for b in c["bases"]:
            parts = []
            if b.get("virtual"):
                parts.append("virtual")
            if b.get("access"):
                parts.append(b["access"])
            parts.append(ref_text(b, rename))
            bl.append(" ".join(parts))
        s += " : " + ", ".join(bl)
    s += " {"
    cur = ""
    # members without a label first (default access), the others keep their order
    ms = [m for m in c["members"] if not m.get("access")] + [m for m in c["members"] if m.get("access")]
    for m in ms:
        a = m.get("access", "")
        if a != cur:
            s += " " + a + ":"
            cur = a
        s += " " + member_text(m, name, rename, (name + "<T>") if tmpl else name, "T" if tmpl else "int")
    s += " };"
    if tmpl:
        s += (" typedef " if c["tmpl"] != "using" else " using " + alias + " = ") + name + "<int>" + \
            ((" " + alias) if c["tmpl"] != "using" else "") + ";"
    return s


def render(model, rename=lambda n: n, prelude=True):
    lines = [render_class(c, rename) for c in model["classes"]]
    return (PRELUDE if prelude else "") + "\n".join(lines) + "\n"


def refs_of(c):
    r = [b["ref"] for b in c["bases"]]
    r += [m["ref"] for m in c["members"] if m.get("ref")]
    return r


def closure(model, name):
    """sub-model with `name` and everything it (transitively) refers to, in the original order."""
    by = {c["name"]: c for c in model["classes"]}
    need, todo = set(), [name]
    while todo:
        n = todo.pop()
        if n in need or n not in by:
            continue
        need.add(n)
        todo.extend(refs_of(by[n]))
    return {"classes": [copy.deepcopy(c) for c in model["classes"] if c["name"] in need]}


def drop_classes(model, names):
    """remove classes `names` and every class that refers to a removed class."""
    names = set(names)
    changed = True
    while changed:
        changed = False
        for c in model["classes"]:
            if c["name"] not in names and any(r in names for r in refs_of(c)):
                names.add(c["name"])
                changed = True
    return {"classes": [c for c in model["classes"] if c["name"] not in names]}


def roles(model, target):
    """name -> 'T' (target), 'B' (a transitive base of it), 'M' (a member's class or below), 'O' other."""
    by = {c["name"]: c for c in model["classes"]}
    role = {target: "T"}

    def walk(n, r):
        c = by.get(n)
        if not c:
            return
        for b in c["bases"]:
            nr = "B" if r in ("T", "B") else "M"
            if role.get(b["ref"]) not in ("T", "B"):
                role[b["ref"]] = nr
            walk(b["ref"], nr)
        for m in c["members"]:
            if m.get("ref"):
                if role.get(m["ref"]) is None:
                    role[m["ref"]] = "M"
                walk(m["ref"], "M")
    walk(target, "T")
    return {c["name"]: role.get(c["name"], "O") for c in model["classes"]}


def feature_tags(model, target):
    """finite-alphabet description of a (minimised) witness.  -> (via, [leaf features])
    leaf features: member tags (with @protected/@private), `vbase`, `base@<non-public access>`, `final`,
    wherever they sit; `via` says where the features outside the judged class sit (base / member classes).
    Plain public inheritance / class-type member edges only connect classes and are not features; the
    PUBLISHED marker method only makes a class visible in default-visibility runs and is not one either."""
    rl = roles(model, target)
    out = set()
    via = set()
    for c in model["classes"]:
        r = rl[c["name"]]
        here = set()
        dflt = "private" if c["kw"] == "class" else ""
        if c.get("final"):
            here.add("final")
        if c.get("tmpl"):
            here.add("template")
        for b in c["bases"]:
            a = b.get("access") or dflt
            if b.get("targ") == "T":
                here.add("dependent-base")
            if b.get("virtual"):
                here.add("vbase")
            if a in ("protected", "private"):
                here.add("base@" + a)
        for m in c["members"]:
            if m["tag"] == "fn:published":
                continue
            a = m.get("access") or dflt
            if a in ("public", "PUBLISHED"):
                a = ""
            if m.get("targ") == "T":
                here.add("dependent-member-type")
            if m["tag"] == "data:class":
                continue        # a plain class-type member only connects two classes (see `via`)
            here.add(m["tag"] + (("@" + a) if a else ""))
        if here and r != "T":
            via.add({"B": "base", "M": "member", "O": "other"}[r])
        out |= here
    return ("+".join(sorted(via)) or "self"), sorted(out)


def class_features(c):
    """feature signatures of one class (for the evidence's distinct count)."""
    out = set()
    if c.get("tmpl"):
        out.add("template")
    for e in c["bases"] + [m for m in c["members"] if m.get("ref")]:
        if e.get("targ"):
            out.add("uses-template-id<" + e["targ"] + ">")
    for b in c["bases"]:
        out.add("base:" + ("virtual-" if b.get("virtual") else "") + (b.get("access") or "default"))
    for m in c["members"]:
        out.add(m["tag"] + "@" + (m.get("access") or "default"))
    return out


# ---------------------------------------------------------------------------
# generation
# ---------------------------------------------------------------------------

def gen_model(rng, n_classes=12, depth_max=4, width_max=3, published=True, templates=True):
    classes = []
    depth = {}
    vnames = {}      # class -> set of (vname, const) virtual signatures visible (approximation)
    pures = {}       # class -> set of (vname, const) still pure (approximation, only steers the generator)
    finals = set()
    tmpls = set()
    for k in range(n_classes):
        name = f"C{k}"
        c = {"name": name, "kw": rng.choice(["struct", "struct", "class"]), "final": False, "bases": [], "members": []}
        if templates and rng.random() < 0.15:
            c["tmpl"] = rng.choice(["typedef", "typedef", "using"])
        # ---- bases
        cands = [x["name"] for x in classes if depth[x["name"]] < depth_max and x["name"] not in finals]
        nb = 0
        if cands:
            nb = rng.choice([0, 0, 1, 1, 1, 2, 2, 3][: 5 + width_max]) if width_max >= 1 else 0
            nb = min(nb, width_max, len(cands))
        bases = rng.sample(cands, nb) if nb else []
        # prefer recent classes so that hierarchies get deep
        if cands and nb and rng.random() < 0.5:
            bases[0] = cands[-1]
            bases = list(dict.fromkeys(bases))
        d = 1
        vis = set()
        inh_pure = set()
        for bn in bases:
            inh_pure |= pures[bn]
            acc = rng.choice(["public", "public", "public", "protected", "private", ""])
            virt = rng.random() < 0.2
            if virt and not acc:
                acc = "public"      # `: virtual B` without access keyword is a C06 matter (kept out of C10 inputs)
            be = {"ref": bn, "access": acc, "virtual": virt}
            if bn in tmpls and rng.random() < 0.7:
                be["targ"] = "T" if (c.get("tmpl") and rng.random() < 0.5) else "int"
            c["bases"].append(be)
            d = max(d, depth[bn] + 1)
            vis |= vnames[bn]
        depth[name] = d
        mem = c["members"]
        idx = [0]

        def add(tag, access=None, ref=None, n=None):
            if access is None:
                access = rng.choice(["", "public", "public", "protected", "private"])
            m = {"tag": tag, "access": access}
            if ref:
                m["ref"] = ref
                if ref in tmpls and rng.random() < 0.7:
                    m["targ"] = "T" if (c.get("tmpl") and rng.random() < 0.5) else "int"
            if n is None:
                n = idx[0]
                idx[0] += 1
            m["n"] = n
            mem.append(m)

        # ---- constructors
        r = rng.random()
        if r < 0.55:
            kinds = set()
            for _ in range(rng.choice([1, 1, 2, 3])):
                t = rng.choice(CTOR_TAGS)
                fam = t.split(":")[0]
                if fam in kinds:
                    continue
                kinds.add(fam)
                add(t)
            if rng.random() < 0.15:
                add(rng.choice(["assign-copy:user", "assign-copy:delete", "assign-move:user", "assign-move:delete"]))
        # ---- destructor
        if rng.random() < 0.35:
            add(rng.choice(DTOR_TAGS), access=rng.choice(["", "public", "public", "protected", "private"]))
        # ---- data members
        for _ in range(rng.choice([0, 0, 1, 1, 2, 3])):
            if classes and rng.random() < 0.45:
                add(rng.choice(DATA_CLASS), ref=rng.choice(classes)["name"])
            else:
                add(rng.choice(DATA_PLAIN))
        # ---- virtual functions
        own = set()
        my_pure = set(inh_pure)
        if inh_pure and rng.random() < 0.6:
            # override every pure virtual that arrives through the bases (possibly via intermediate classes)
            for (vn, const) in sorted(inh_pure):
                if const:
                    t = rng.choice(["virt:override-const", "virt:implicit-override-const"])
                else:
                    t = rng.choice(["virt:override", "virt:implicit-override", "virt:final"])
                own.add((vn, const, False))
                add(t, n=vn, access=rng.choice(["", "public", "public", "protected", "private"]))
                my_pure.discard((vn, const))
        for _ in range(rng.choice([0, 0, 1, 1, 2])):
            vn = rng.randrange(3)
            have_nc = (vn, False) in vis
            have_c = (vn, True) in vis
            opts = ["virt:decl", "virt:pure", "virt:decl-const", "virt:pure-const", "virt:param-variant"]
            if have_nc:
                opts += ["virt:override", "virt:implicit-override", "virt:override", "virt:implicit-override",
                         "virt:final", "virt:pure-override", "virt:implicit-override-const"]
            if have_c:
                opts += ["virt:override-const", "virt:implicit-override-const", "virt:override-const",
                         "virt:implicit-override"]
            t = rng.choice(opts)
            const = t.endswith("-const")
            if (vn, const, t == "virt:param-variant") in own:
                continue
            own.add((vn, const, t == "virt:param-variant"))
            add(t, n=vn, access=rng.choice(["", "public", "public", "protected", "private"]))
            if t in ("virt:decl", "virt:pure", "virt:decl-const", "virt:pure-const"):
                vis.add((vn, const))
            if t in ("virt:pure", "virt:pure-const", "virt:pure-override"):
                my_pure.add((vn, const))
            elif t != "virt:param-variant":
                my_pure.discard((vn, const))
        if rng.random() < 0.25:
            add(rng.choice(["fn:plain", "fn:static"]))
        if c.get("tmpl"):
            tmpls.add(name)
            for _ in range(rng.choice([1, 1, 2])):
                add(rng.choice(["data:tparam", "data:tparam", "data:const-tparam", "data:ref-tparam"]))
        if published and rng.random() < 0.7:
            add("fn:published", access="PUBLISHED")
        if rng.random() < 0.06:
            c["final"] = True
            finals.add(name)
        vnames[name] = vis
        pures[name] = my_pure
        rng.shuffle(mem)
        classes.append(c)
    # always present: two-parameter "almost copy/move" constructors, with and without a real copy constructor, next to
    # things that make the implicit copy constructor deleted
    k = n_classes

    def fixed(members, bases=()):
        nonlocal k
        def mem(i, t):
            acc = "public"
            if "@" in t:
                t, acc = t.split("@")
            n = i
            if "#" in t:
                t, n = t.split("#")
                n = int(n)
            return {"tag": t, "access": acc, "n": n}
        c = {"name": f"C{k}", "kw": rng.choice(["struct", "class"]), "final": False,
             "bases": [{"ref": b[2:] if b.startswith("v:") else b, "access": "public", "virtual": b.startswith("v:")}
                       for b in bases],
             "members": [mem(i, t) for i, t in enumerate(members)]}
        if published:
            c["members"].append({"tag": "fn:published", "access": "PUBLISHED", "n": 99})
        k += 1
        classes.append(c)
        return c["name"]
    two = rng.choice(["ctor-xcopy2", "ctor-xcopy2", "ctor-xmove2"])
    fixed(["ctor-default:user", "ctor-xcopy2"])
    fixed(["ctor-default:user", two, "ctor-move:user"])
    nocopy = fixed(["ctor-default:user", "ctor-copy:delete"])
    fixed(["ctor-default:user", "ctor-xcopy2"], bases=[nocopy])
    fixed(["ctor-default:user", rng.choice(["ctor-copy:dflt2", "ctor-xcopy3"])] +
          (["ctor-move:user"] if rng.random() < 0.5 else []))
    fixed(["ctor-default:user", "ctor-xcopy2", "ctor-copy:user"])
    # always present: overriders vs. hiders that differ only in the const of a referent / pointee
    shape = fixed(["virt:pure-ref#0", "virt:pure-ptr#1"])
    fixed([rng.choice(["virt:hide-cref#0", "virt:override-ref#0"]), "virt:hide-cptr#1"], bases=[shape])
    fixed(["virt:hide-cref#0", rng.choice(["virt:override-ptr#1", "virt:hide-cptr#1"])], bases=[shape])
    fixed(["virt:override-ref#0", "virt:override-ptr#1"], bases=[shape])
    # always present: a virtual base that is only reached through another virtual base and cannot be
    # default-constructed / destroyed by the most derived class
    bad = rng.choice([["ctor-conv"], ["ctor-default:user", "dtor:user@private"], ["ctor-default:delete"]])
    device = fixed(bad)
    ios = fixed(["ctor-default:user"] + (["dtor:user"] if rng.random() < 0.3 else []), bases=["v:" + device])
    stream = fixed([], bases=["v:" + ios])
    fixed([], bases=[stream])
    fixed(["ctor-default:user"], bases=["v:" + stream] if rng.random() < 0.5 else [stream])
    if templates:
        # always present: class templates whose special members / pure virtuals / members mention T or the
        # template's own name, judged through their instantiation and used as base and as member of ordinary classes
        def tfixed(members, bases=(), tmpl=None, refs=()):
            nm = fixed([], bases=())
            c = classes[-1]
            if tmpl:
                c["tmpl"] = tmpl
                c["kw"] = "struct"
            for b, targ in bases:
                e = {"ref": b, "access": rng.choice(["public", ""]) if c["kw"] == "struct" else "public", "virtual": False}
                if targ:
                    e["targ"] = targ
                c["bases"].append(e)
            pub = [m for m in c["members"] if m["tag"] == "fn:published"]
            c["members"] = []
            for i, t in enumerate(members):
                m = {"tag": t.split(">")[0].split("#")[0], "access": "public", "n": i}
                if "#" in t:
                    m["n"] = int(t.split("#")[1].split(">")[0])
                if ">" in t:
                    r = t.split(">")[1]
                    m["ref"] = r.split("@")[0]
                    if "@" in r:
                        m["targ"] = r.split("@")[1]
                c["members"].append(m)
            c["members"] += pub
            return nm
        al = lambda: rng.choice(["typedef", "using"])
        copyk = rng.choice(["ctor-copy:delete", "ctor-copy:delete", "ctor-copy:default", "ctor-copy:user"])
        holder = tfixed(["ctor-default:user", copyk, "data:tparam"], tmpl=al())
        sink = tfixed(["dtor:virtual", "virt:pure-T#0", rng.choice(["virt:pure-const#1", "virt:pure#1"])], tmpl=al())
        tfixed([rng.choice(["virt:override-const#1", "virt:implicit-override-const#1"])] if
               any(m["tag"] == "virt:pure-const" for m in classes[-1]["members"]) else ["virt:override#1"],
               bases=[(sink, "int")])
        tfixed([rng.choice(["virt:override-T#0", "virt:implicit-override-T#0"]),
                "virt:implicit-override-const#1" if any(m["tag"] == "virt:pure-const" for m in classes[-2]["members"])
                else "virt:implicit-override#1"], bases=[(sink, rng.choice(["int", None]))])
        tfixed(["ctor-default:user", "ctor-copy:default", "data:class>" + nocopy, "data:tparam"], tmpl=al())
        tfixed(["data:class>" + holder + rng.choice(["@int", ""])])
        tfixed([], bases=[(holder, "int")])
        # free mix of special members in a template, and a template deriving from a dependent base
        mix = rng.sample(["ctor-default:user", "ctor-default:delete", "ctor-default:default", "ctor-copy:user",
                          "ctor-copy:delete", "ctor-copy:default", "ctor-move:user", "ctor-move:delete",
                          "assign-copy:delete", "dtor:user", "dtor:default", "dtor:delete", "dtor:pure"], 3)
        fam = set()
        mix = [t for t in mix if not (t.split(":")[0] in fam or fam.add(t.split(":")[0]))]
        tfixed(mix + ["data:const-tparam" if rng.random() < 0.3 else "data:tparam"], tmpl=al())
        tfixed(["data:tparam"], bases=[(holder, "T")], tmpl=al())
    return {"classes": classes}
