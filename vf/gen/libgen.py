"""libgen — ground-truth C++ library generator (DESIGN.md Appendix A).

generate(rng, name, **opts) -> Lib with .header (lib.h text), .source (lib.cxx text), .model (dict).
The header means the same to g++ and to interrogate (-DCPPPARSER): interrogate keywords are reached through
macros.  Every body logs one trace event (entity id, this, arguments, result) through harness/libgen_rt.h and
computes its result as a deterministic function of the entity id, the arguments and the object's state.
"""
import json
import os
import re

VERIF = os.path.dirname(os.path.dirname(os.path.dirname(os.path.abspath(__file__))))
RT_HEADER = os.path.join(VERIF, "harness", "libgen_rt.h")

PUB_H = r'''#ifndef VFPUB_H
#define VFPUB_H
#ifdef CPPPARSER
#define VF_DEF_KEYWORDS
#endif
#ifdef VF_DEF_KEYWORDS
#define PUBLISHED __published
#define BEGIN_PUBLISH __begin_publish
#define END_PUBLISH __end_publish
#define MAKE_PROPERTY(...) __make_property(__VA_ARGS__)
#define MAKE_SEQ(...) __make_seq(__VA_ARGS__)
#define MAKE_SEQ_PROPERTY(...) __make_seq_property(__VA_ARGS__)
#define MAKE_MAP_PROPERTY(...) __make_map_property(__VA_ARGS__)
#define MAKE_MAP_KEYS_SEQ(...) __make_map_keys_seq(__VA_ARGS__)
#else
#ifndef PUBLISHED
#define PUBLISHED public
#endif
#ifndef BEGIN_PUBLISH
#define BEGIN_PUBLISH
#endif
#ifndef END_PUBLISH
#define END_PUBLISH
#endif
#ifndef MAKE_PROPERTY
#define MAKE_PROPERTY(...)
#endif
#ifndef MAKE_SEQ
#define MAKE_SEQ(...)
#endif
#ifndef MAKE_SEQ_PROPERTY
#define MAKE_SEQ_PROPERTY(...)
#endif
#ifndef MAKE_MAP_PROPERTY
#define MAKE_MAP_PROPERTY(...)
#endif
#ifndef MAKE_MAP_KEYS_SEQ
#define MAKE_MAP_KEYS_SEQ(...)
#endif
#endif
#endif
'''

INT_TYPES = ["char", "signed char", "unsigned char", "short", "unsigned short", "int", "unsigned int",
             "long", "unsigned long", "long long", "unsigned long long"]
INT_RANGE = {
    "bool": (0, 1), "char": (-128, 127), "signed char": (-128, 127), "unsigned char": (0, 255),
    "short": (-2 ** 15, 2 ** 15 - 1), "unsigned short": (0, 2 ** 16 - 1), "int": (-2 ** 31, 2 ** 31 - 1),
    "unsigned int": (0, 2 ** 32 - 1), "long": (-2 ** 63, 2 ** 63 - 1), "unsigned long": (0, 2 ** 64 - 1),
    "long long": (-2 ** 63, 2 ** 63 - 1), "unsigned long long": (0, 2 ** 64 - 1),
}


def T(k, **kw):
    d = dict(k=k)
    d.update(kw)
    return d


def ctype(t):
    """C++ spelling of a type descriptor as written in the header."""
    k = t["k"]
    if k == "void":
        return "void"
    if k == "bool":
        return "bool"
    if k in ("int", "float"):
        return t["c"]
    if k == "enum":
        return t["name"]
    if k == "cstr":
        return "const char *"
    if k == "string":
        return "const std::string &" if t.get("ref") else "std::string"
    if k == "obj":
        c = t["cls"]
        return {"ptr": c + " *", "cptr": "const " + c + " *", "ref": c + " &", "cref": "const " + c + " &",
                "val": c}[t["mode"]]
    raise ValueError(k)


class Gen:
    # feature flags (set by generate(); subclasses such as natgen.NatGen rely on these defaults)
    ext = False
    shadow = False
    enumalias = False
    strings = True
    ordering = False
    oddities = False
    arrays = True
    opaque = False

    def __init__(self, rng, name, features=None, size=1.0, prior=None, docs=True, native=False):
        self.r = rng
        self.name = name
        self.f = features or {}
        self.size = size
        self.docs = docs
        self.native = native            # restrict to what -python-native drivers handle category-exactly
        self.eid = 0
        self.docid = 0
        self.h = []      # header lines
        self.cx = []     # source lines
        self.model = dict(lib=name, enums=[], classes=[], functions=[], macros=[], globals=[], typedefs=[],
                          deps=[])
        self.prior = prior or []   # models of libraries this one may depend on
        self.classes = {}          # qname -> class model (own + prior)
        for pm in self.prior:
            for c in pm["classes"]:
                self.classes[c["qname"]] = c
        self.enums = []
        for pm in self.prior:
            self.enums += pm["enums"]
        self.used = set()

    # ---- naming
    def ident(self, prefix):
        while True:
            n = f"{prefix}{self.r.randrange(10000)}"
            if n not in self.used:
                self.used.add(n)
                return n

    def new_eid(self):
        self.eid += 1
        return self.eid

    def doc(self, indent=""):
        """maybe emit a doc comment directly above the next declaration; returns its id or None"""
        if self.docs and getattr(self, "ext", False) and self.r.random() < 0.2:
            # a comment that does NOT immediately precede the declaration (blank line in between): belongs to nothing
            self.docid += 1
            dd = f"detached#{self.name}_{self.docid}"
            st = self.r.randrange(3)
            if st == 0:
                self.h.append(f"{indent}// {dd}")
            elif st == 1:
                self.h.append(f"{indent}// section header {dd}")
                self.h.append(f"{indent}// continued")
            else:
                self.h.append(f"{indent}/* {dd} */")
            for _ in range(self.r.choice([1, 1, 2])):
                self.h.append("")
        if not self.docs or self.r.random() < 0.35:
            return None
        self.docid += 1
        d = f"doc#{self.name}_{self.docid}"
        style = self.r.randrange(4)
        if style == 0:
            self.h.append(f"{indent}// {d}")
        elif style == 1:
            self.h.append(f"{indent}// first line of {d}")
            self.h.append(f"{indent}// second line")
        elif style == 2:
            self.h.append(f"{indent}/* {d} */")
        else:
            self.h.append(f"{indent}/**")
            self.h.append(f"{indent} * {d}")
            self.h.append(f"{indent} */")
        return d

    # ---- types
    def rand_scalar(self, for_param=True):
        r = self.r
        x = r.random()
        if x < 0.45:
            return T("int", c=r.choice(INT_TYPES if not self.native else
                                       ["int", "unsigned int", "short", "unsigned short", "long", "unsigned long",
                                        "long long", "unsigned long long", "signed char", "unsigned char"]))
        if x < 0.55:
            return T("bool")
        if x < 0.72:
            return T("float", c=r.choice(["float", "double"]))
        if x < 0.82 and self.enums:
            e = r.choice(self.enums)
            return T("enum", name=e["qname"], scoped=e["scoped"])
        if x < 0.9 and getattr(self, "strings", True):
            return T("string", ref=(for_param or getattr(self, "ext", False)) and r.random() < 0.6)
        if x < 0.95 and for_param and getattr(self, "strings", True):
            return T("cstr")
        return T("int", c="int")

    def rand_obj(self, for_param, self_cls=None):
        r = self.r
        cands = [c for c in self.classes.values() if not c.get("abstract") and c.get("complete")]
        if not cands:
            return None
        c = r.choice(cands)
        modes = ["ptr", "cptr", "ref", "cref", "val"]
        if not c.get("copyable", True):
            modes.remove("val")
        return T("obj", cls=c["qname"], mode=r.choice(modes))

    def rand_type(self, for_param, p_obj=0.3):
        if self.r.random() < p_obj:
            t = self.rand_obj(for_param)
            if t:
                return t
        return self.rand_scalar(for_param)

    def default_for(self, t):
        r = self.r
        k = t["k"]
        if k == "int":
            lo, hi = INT_RANGE[t["c"]]
            v = r.choice([0, 1, 7, hi, lo, 100 if hi >= 100 else hi])
            if t["c"] in ("char", "signed char", "unsigned char"):
                return str(v), v
            suf = ""
            if t["c"] in ("unsigned int",):
                suf = "u"
            elif t["c"] in ("long",):
                suf = "l"
            elif t["c"] in ("unsigned long",):
                suf = "ul"
            elif t["c"] == "long long":
                suf = "ll"
            elif t["c"] == "unsigned long long":
                suf = "ull"
            if v == lo and lo < 0:
                # INT_MIN cannot be written as a literal; use (-max - 1)
                return f"(-{hi}{suf} - 1)", v
            return f"{v}{suf}", v
        if k == "bool":
            v = r.choice([True, False])
            return ("true" if v else "false"), int(v)
        if k == "float":
            v = r.choice([0.0, 0.5, -2.25, 1024.0, 3.0])
            txt = repr(v) + ("f" if t["c"] == "float" else "")
            return txt, v
        if k == "enum":
            e = next(e for e in self.enums if e["qname"] == t["name"])
            m = r.choice(e["members"])
            return m["qname"], m["value"]
        if k == "string":
            v = r.choice(["", "abc", "x y", "d_9"])
            return json.dumps(v), v
        if k == "cstr":
            v = r.choice(["", "abc", "hello w"])
            return json.dumps(v), v
        return None, None

    # ---- enums
    def gen_enum(self, owner=None, indent="", ns=None):
        r = self.r
        name = self.ident("En")
        scoped = r.random() < 0.4
        q = (owner["qname"] + "::" if owner else (ns + "::" if ns else "")) + name
        members = []
        v = 0
        d = self.doc(indent)
        self.h.append(f"{indent}enum {'class ' if scoped else ''}{name} {{")
        for i in range(r.randrange(2, 5)):
            mn = self.ident("ev_" if not scoped else "sv_")
            if r.random() < 0.4:
                v = r.choice([v + 3, 10, 100, -5, v])
                self.h.append(f"{indent}  {mn} = {v},")
            else:
                self.h.append(f"{indent}  {mn},")
            mq = (q + "::" + mn) if scoped else ((owner["qname"] + "::" if owner else (ns + "::" if ns else "")) + mn)
            members.append(dict(name=mn, qname=mq, value=v))
            v += 1
        self.h.append(f"{indent}}};")
        e = dict(name=name, qname=q, scoped=scoped, members=members, doc=d, owner=owner["qname"] if owner else None,
                 lib=self.name, ns=ns)
        self.enums.append(e)
        self.model["enums"].append(e)
        return e

    # ---- bodies
    def hash_expr(self, fn):
        parts = [f"{fn['eid']}ull"]
        for p in fn["params"]:
            t = p["type"]
            k = t["k"]
            n = p["name"]
            if k in ("int", "bool", "float", "enum"):
                parts.append(f"vf::hv({n})")
            elif k in ("string", "cstr"):
                parts.append(f"vf::hs({n})")
            elif k == "obj":
                cn = self.classes[t["cls"]]["name"]
                if t["mode"] in ("ptr", "cptr"):
                    parts.append(f"({n} ? {n}->st_{cn} : 3ull)")
                else:
                    parts.append(f"{n}.st_{cn}")
        e = parts[0]
        for p in parts[1:]:
            e = f"vf::mix({e}, {p})"
        return e

    def log_args(self, fn):
        out = []
        for i, p in enumerate(fn["params"]):
            t = p["type"]
            n = p["name"]
            tag = f"a{i}"
            if t["k"] == "obj":
                cn = self.classes[t["cls"]]["name"]
                if t["mode"] in ("ptr", "cptr"):
                    out.append(f'  vf_e.obj("{tag}", {n});')
                elif t["mode"] in ("ref", "cref"):
                    out.append(f'  vf_e.obj("{tag}", &{n});')
                else:
                    out.append(f'  vf_e.raw("{tag}", "v" + std::to_string({n}.st_{cn}));')
            else:
                out.append(f'  vf_e.put("{tag}", {n});')
        return out

    def body(self, fn, cls=None):
        """C++ statements of a function body (without braces)."""
        L = []
        is_method = cls is not None and fn["kind"] in ("method", "ctor")
        selfp = "this" if is_method else "nullptr"
        L.append(f"  vf::Ev vf_e({fn['eid']}, {selfp});")
        L += self.log_args(fn)
        L.append(f"  unsigned long long vf_h = {self.hash_expr(fn)}; (void)vf_h;")
        if is_method and fn["kind"] == "method":
            cn = cls["name"]
            L.append(f"  vf_h = vf::mix(vf_h, st_{cn});")
            if not fn.get("const"):
                L.append(f"  st_{cn} = vf::mix(st_{cn}, {fn['eid']}ull);")
        rt = fn["ret"]
        k = rt["k"]
        if fn["kind"] == "ctor":
            cn = cls["name"]
            L.append(f"  st_{cn} = vf_h;")
            L.append(f'  vf_e.raw("r", "v" + std::to_string(st_{cn}));')
            return L
        if k == "void":
            L.append('  vf_e.raw("r", "n");')
            return L
        if k == "int":
            L.append(f"  {rt['c']} vf_r = vf::make_int<{rt['c']}>(vf_h);")
        elif k == "bool":
            L.append("  bool vf_r = vf::make_int<bool>(vf_h);")
        elif k == "float":
            L.append(f"  {rt['c']} vf_r = vf::make_flt<{rt['c']}>(vf_h);")
        elif k == "enum":
            e = next(e for e in self.enums if e["qname"] == rt["name"])
            ms = ", ".join(m["qname"] for m in e["members"])
            L.append(f"  static const {rt['name']} vf_ms[] = {{{ms}}};")
            L.append(f"  {rt['name']} vf_r = vf_ms[vf_h % {len(e['members'])}];")
        elif k == "string":
            if rt.get("ref"):
                # const std::string & result: storage must outlive the call
                L.append("  static std::string vf_store[8];")
                L.append("  std::string &vf_r = vf_store[vf_h % 8];")
                L.append("  vf_r = vf::make_str(vf_h);")
            else:
                L.append("  std::string vf_r = vf::make_str(vf_h);")
        elif k == "cstr":
            L.append("  const char *vf_r = vf::make_cstr(vf_h);")
        elif k == "obj":
            c = self.classes[rt["cls"]]
            cn = c["name"]
            q = rt["cls"]
            mode = rt["mode"]
            if mode == "val":
                L.append(f"  {q} vf_r((vf::PoolTag()));")
                L.append(f"  vf_r.st_{cn} = vf_h | 1;")
                L.append(f'  vf_e.raw("r", "v" + std::to_string(vf_r.st_{cn}));')
                L.append("  return vf_r;")
                return L
            # pointer / reference: this, a same-class argument, or a pool object
            cands = [f"{q}::vf_pool(vf_h)"]
            if is_method and fn["kind"] == "method" and cls["qname"] == q and \
                    (mode in ("cptr", "cref") or not fn.get("const")):
                cands.append("this")
            for p in fn["params"]:
                t = p["type"]
                if t["k"] == "obj" and t["cls"] == q:
                    if t["mode"] in ("ptr",) or (t["mode"] == "cptr" and mode in ("cptr", "cref")):
                        cands.append(f"({p['name']} ? {p['name']} : {q}::vf_pool(vf_h))")
                    elif t["mode"] == "ref" or (t["mode"] == "cref" and mode in ("cptr", "cref")):
                        cands.append("&" + p["name"])
            pick = self.r.choice(cands)
            const = "const " if mode in ("cptr", "cref") else ""
            L.append(f"  {const}{q} *vf_r = {pick};")
            L.append('  vf_e.obj("r", vf_r);')
            L.append("  return " + ("vf_r;" if mode in ("ptr", "cptr") else "*vf_r;"))
            fn["ret_owner"] = "borrowed"
            return L
        L.append('  vf_e.put("r", vf_r);')
        L.append("  return vf_r;")
        return L

    # ---- functions
    def gen_params(self, n, p_obj=0.3, n_defaults=0):
        ps = []
        for i in range(n):
            t = self.rand_type(True, p_obj)
            ps.append(dict(name=f"a{i}_{self.r.randrange(100)}", type=t, default=None, default_value=None))
        # trailing defaults (only scalar kinds have literals)
        for i in range(n - 1, max(n - 1 - n_defaults, -1), -1):
            txt, val = self.default_for(ps[i]["type"])
            if txt is None:
                break
            ps[i]["default"] = txt
            ps[i]["default_value"] = val
        return ps

    def sig(self, fn, with_defaults=True, with_names=True):
        parts = []
        for p in fn["params"]:
            s = ctype(p["type"])
            if with_names:
                s += (" " if not s.endswith(("*", "&")) else "") + p["name"]
            if with_defaults and p["default"] is not None:
                s += " = " + p["default"]
            parts.append(s)
        return ", ".join(parts)

    def gen_function(self, cls=None, kind="free", name=None, ret=None, params=None, const=False, virtual=False,
                     indent="", ns=None, override=False, n_defaults=None):
        r = self.r
        if params is None:
            n = r.choice([0, 1, 1, 2, 2, 3])
            nd = r.choice([0, 0, 1, 2]) if n_defaults is None else n_defaults
            params = self.gen_params(n, n_defaults=min(nd, n))
        if ret is None:
            ret = T("void") if r.random() < 0.15 else self.rand_type(False, 0.25)
        name = name or self.ident("fn_" if kind == "free" else "m_")
        scope = (cls["qname"] + "::") if cls else ((ns + "::") if ns else "")
        fn = dict(eid=self.new_eid(), name=name, qname=scope + name, cls=cls["qname"] if cls else None, kind=kind,
                  const=const, virtual=virtual, static=(kind == "static"), params=params, ret=ret, doc=None,
                  lib=self.name, ret_owner="value" if ret["k"] != "obj" or ret.get("mode") == "val" else "borrowed")
        if not override:
            fn["doc"] = self.doc(indent)
        pre = ""
        if kind == "static":
            pre = "static "
        elif virtual:
            pre = "virtual "
        post = " const" if const else ""
        if kind == "ctor":
            decl = f"{indent}{'explicit ' if fn.get('explicit') else ''}{name}({self.sig(fn)});"
        else:
            rs = ctype(ret)
            decl = f"{indent}{pre}{rs}{'' if rs.endswith(('*', '&')) else ' '}{name}({self.sig(fn)}){post};"
        self.h.append(decl)
        # definition
        if kind == "ctor":
            head = f"{cls['qname']}::{name}({self.sig(fn, False)}){self.ctor_inits(cls)}"
        else:
            rs = ctype(ret)
            head = f"{rs}{'' if rs.endswith(('*', '&')) else ' '}{scope}{name}({self.sig(fn, False)}){post}"
        self.cx.append(head + " {")
        if kind == "ctor":
            self.cx.append(f"  vf::reg(this, sizeof(*this), \"{cls['qname']}\");")
            self.cx += self.member_inits(cls)
        self.cx += self.body(fn, cls if kind in ("method", "ctor") else None)
        self.cx.append("}")
        return fn

    # ---- classes
    def all_vbases(self, cls):
        out = []

        def walk(c):
            for b in c["bases"]:
                bc = self.classes[b["qname"]]
                walk(bc)
                if b["virtual"] and b["qname"] not in out:
                    out.append(b["qname"])
        walk(cls)
        return out

    def ctor_inits(self, cls, arg="vf::PoolTag()"):
        names = [b["qname"] for b in cls["bases"]]
        for v in self.all_vbases(cls):
            if v not in names:
                names.insert(0, v)
        inits = [f"{q}({arg})" for q in names]
        for m in cls.get("members", []):
            if m.get("classmember"):
                inits.append(f"{m['name']}(vf::PoolTag())")
            elif m.get("const") and not m.get("static"):
                inits.append(f"{m['name']}({m['init']})")
        return (" : " + ", ".join(inits)) if inits else ""

    def member_inits(self, cls):
        out = []
        for m in cls.get("members", []):
            if m.get("static") or m.get("const") or m.get("classmember"):
                continue
            if m.get("array"):
                out.append(f"  for (int vf_i = 0; vf_i < {m['array']}; ++vf_i) {m['name']}[vf_i] = {m['init']};")
            else:
                out.append(f"  {m['name']} = {m['init']};")
        return out

    def gen_class(self, bases=(), ns=None, nested_in=None, abstract_root=False):
        r = self.r
        name = self.ident("Cls")
        q = (nested_in["qname"] + "::" if nested_in else (ns + "::" if ns else "")) + name
        cls = dict(name=name, qname=q, lib=self.name, ns=ns, bases=[dict(qname=b, virtual=v) for b, v in bases],
                   ctors=[], methods=[], members=[], enums=[], properties=[], seqs=[], doc=None, complete=False,
                   copyable=True, abstract=False, nested=[], outer=nested_in["qname"] if nested_in else None,
                   seqprops=[], depth=(nested_in["depth"] + 1) if nested_in else 0)
        self.classes[q] = cls
        self.model["classes"].append(cls)
        cls["doc"] = self.doc()
        bl = ", ".join(("virtual " if v else "") + "public " + b for b, v in bases)
        # (v3, shadow) a member typedef of a root class that hides a narrower typedef of the same name in the enclosing
        # scope; derived classes spell it unqualified (the inherited long long must be found, not the outer int)
        shadow = None
        if getattr(self, "shadow", False) and not bases and not nested_in and r.random() < 0.6:
            shadow = "vt_%d" % r.randrange(10000)
            self.h.append(f"typedef int {shadow};")
            cls["shadow_td"] = shadow
        self.h.append(f"class {name}{' : ' + bl if bl else ''} {{")
        self.h.append("PUBLISHED:")
        ind = "  "
        if shadow:
            self.h.append(f"{ind}typedef long long {shadow};")
        # nested enum
        if r.random() < 0.4 * self.size:
            cls["enums"].append(self.gen_enum(owner=cls, indent=ind)["qname"])
        if getattr(self, "ext", False) and r.random() < 0.3:
            # an anonymous enum published in the class (raw: its enumerators are class-scope constants)
            n3 = r.randrange(10000)
            self.h.append(f"{ind}enum {{ anon_a{n3}, anon_b{n3} = 6, anon_c{n3} }};")
            cls["raw_anon_enum"] = n3
        # nested class (up to two levels), emitted inline in the published section
        if getattr(self, "ext", False) and cls["depth"] < 2 and r.random() < (0.45 if cls["depth"] == 0 else 0.5):
            sv_size = self.size
            self.size = min(self.size, 0.5)
            inner = self.gen_class(nested_in=cls)
            self.size = sv_size
            cls["nested"].append(inner["qname"])
            self.h.append("PUBLISHED:")
        # data members (declared first so ctors can initialise them)
        members_decl = []
        for i in range(r.choice([0, 1, 2, 3]) if self.size >= 1 else r.choice([0, 1])):
            mk = r.random()
            mname = self.ident("mv_")
            m = dict(name=mname, qname=q + "::" + mname, static=False, const=False, array=None, doc=None)
            if mk < 0.5:
                m["type"] = T("int", c=r.choice(["int", "short", "unsigned int", "long long", "unsigned char"]))
                m["init"] = str(r.randrange(0, 100))
            elif mk < 0.65:
                m["type"] = T("float", c=r.choice(["float", "double"]))
                m["init"] = r.choice(["0.5", "2.0", "-1.25"])
            elif mk < 0.75:
                m["type"] = T("bool")
                m["init"] = "true"
            elif mk < 0.85 and getattr(self, "strings", True):
                m["type"] = T("string", ref=False)
                m["init"] = '"init"'
            elif getattr(self, "arrays", True):
                m["type"] = T("int", c="int")
                m["array"] = r.choice([2, 3, 4])
                m["init"] = "5"
            else:
                m["type"] = T("int", c="int")
                m["init"] = "5"
            x = r.random()
            if x < 0.15 and not m["array"] and m["type"]["k"] == "int":
                m["static"] = True
            elif x < 0.3 and not m["array"] and m["type"]["k"] in ("int", "float"):
                m["const"] = True
            members_decl.append(m)
        if getattr(self, "ext", False) and r.random() < 0.6:
            # the same member declared twice: once spelled directly, once through a typedef (accessors must agree)
            tw = r.choice(["const-int", "int", "class"])
            n2 = r.randrange(10000)
            others = [c for c in self.classes.values() if c.get("complete") and not c.get("abstract") and c.get("copyable", True)
                      and not c.get("template") and c["qname"] != q]
            if tw == "class" and not others:
                tw = "int"
            if tw == "class":
                oc = r.choice(others)
                self.h.append(f"{ind}typedef {oc['qname']} TwAlias{n2};")
                ty = dict(k="obj", cls=oc["qname"], mode="val")
                a = dict(name=f"tw_direct_{n2}", qname=q + f"::tw_direct_{n2}", static=False, const=False, array=None, doc=None,
                         type=ty, init=None, twin=f"tw_alias_{n2}", raw=f"{oc['qname']} tw_direct_{n2};", classmember=oc["qname"])
                bb = dict(a, name=f"tw_alias_{n2}", qname=q + f"::tw_alias_{n2}", twin=f"tw_direct_{n2}", raw=f"TwAlias{n2} tw_alias_{n2};")
            else:
                cst = tw == "const-int"
                self.h.append(f"{ind}typedef {'const ' if cst else ''}int TwAlias{n2};")
                a = dict(name=f"tw_direct_{n2}", qname=q + f"::tw_direct_{n2}", static=False, const=cst, array=None, doc=None,
                         type=T("int", c="int"), init=str(r.randrange(50)), twin=f"tw_alias_{n2}",
                         raw=f"{'const ' if cst else ''}int tw_direct_{n2};")
                bb = dict(a, name=f"tw_alias_{n2}", qname=q + f"::tw_alias_{n2}", twin=f"tw_direct_{n2}", raw=f"TwAlias{n2} tw_alias_{n2};")
            members_decl += [a, bb]
        cls["members"] = members_decl
        for m in members_decl:
            m["doc"] = self.doc(ind)
            if m.get("raw"):
                self.h.append(ind + m["raw"])
                continue
            ts = ctype(m["type"])
            arr = f"[{m['array']}]" if m["array"] else ""
            self.h.append(f"{ind}{'static ' if m['static'] else ''}{'const ' if m['const'] else ''}{ts} {m['name']}{arr};")
            if m["static"]:
                self.cx.append(f"{ts} {q}::{m['name']} = {m['init']};")
        # constructors
        h_ctor0 = len(self.h)
        nct = r.choice([1, 1, 2])
        seen_arity = set()
        for i in range(nct):
            n = r.choice([0, 1, 2])
            if n in seen_arity:
                continue
            seen_arity.add(n)
            ps = self.gen_params(n, p_obj=0.15, n_defaults=0)
            # a one-parameter ctor taking its own class would be a copy ctor; avoid
            ps = [p for p in ps if not (p["type"]["k"] == "obj" and p["type"]["cls"] == q)]
            f = self.gen_function(cls, "ctor", name=name, ret=T("void"), params=ps, indent=ind)
            cls["ctors"].append(f)
        # copy ctor (user-declared so that copies are registered)
        ce = self.new_eid()
        self.h.append(f"{ind}{name}(const {name} &vf_o);")
        binit = ", ".join(f"{b}(static_cast<const {b} &>(vf_o))" for b in
                          ([v for v in self.all_vbases(cls) if v not in [bb for bb, _ in bases]] +
                           [b for b, _ in bases]))
        cinit = [f"{m['name']}(vf_o.{m['name']})" for m in members_decl if (m["const"] and not m["static"]) or m.get("classmember")]
        allinit = ", ".join(x for x in [binit] + cinit if x)
        self.cx.append(f"{q}::{name}(const {name} &vf_o){' : ' + allinit if allinit else ''} {{")
        self.cx.append(f"  vf::reg(this, sizeof(*this), \"{q}\");")
        for m in members_decl:
            if m["static"] or m["const"] or m.get("classmember"):
                continue
            if m["array"]:
                self.cx.append(f"  for (int vf_i = 0; vf_i < {m['array']}; ++vf_i) {m['name']}[vf_i] = vf_o.{m['name']}[vf_i];")
            else:
                self.cx.append(f"  {m['name']} = vf_o.{m['name']};")
        self.cx.append(f"  st_{name} = vf_o.st_{name};")
        self.cx.append(f"  vf::Ev vf_e({ce}, this); vf_e.obj(\"a0\", &vf_o); vf_e.raw(\"r\", \"v\" + std::to_string(st_{name}));")
        self.cx.append("}")
        cls["copy_ctor"] = dict(eid=ce, name=name, qname=q + "::" + name, kind="copy_ctor", cls=q)
        # destructor
        virt_d = bool(bases) or r.random() < 0.5
        self.h.append(f"{ind}{'virtual ' if virt_d else ''}~{name}();")
        self.cx.append(f"{q}::~{name}() {{ vf::unreg(this, sizeof(*this), \"{q}\"); }}")
        cls["virtual_dtor"] = virt_d
        h_ctor1 = len(self.h)
        # methods
        nm = max(1, int(r.choice([2, 3, 4, 5]) * self.size))
        for i in range(nm):
            x = r.random()
            if x < 0.15:
                f = self.gen_function(cls, "static", indent=ind)
            else:
                f = self.gen_function(cls, "method", const=r.random() < 0.4, virtual=r.random() < 0.25, indent=ind)
            cls["methods"].append(f)
        # an overload set
        if r.random() < 0.7:
            oname = self.ident("ov_")
            kinds = r.sample(["i", "f", "s", "ii", "o", "none"] + (["b", "bs"] if getattr(self, "ext", False) else []),
                             r.choice([2, 3]))
            if getattr(self, "ext", False) and "s" in kinds and "b" not in kinds and r.random() < 0.5:
                kinds.append("b")      # const std::string & next to bool: a char* would prefer bool
            if getattr(self, "ext", False) and "f" in kinds and r.random() < 0.6:
                kinds.append("F")      # (v3) float next to double: every wrapper must reach the overload of its own width
            seen_sigs = set()
            for kd in kinds:
                ps = []
                for j, ch in enumerate(kd if kd != "none" else ""):
                    if ch == "i":
                        t = T("int", c="int")
                    elif ch == "f":
                        t = T("float", c="double")
                    elif ch == "F":
                        t = T("float", c="float")
                    elif ch == "b":
                        t = T("bool")
                    elif ch == "s":
                        t = T("string", ref=True) if getattr(self, "strings", True) else T("bool")
                    else:
                        t = self.rand_obj(True) or T("int", c="int")
                        if t["k"] == "obj":
                            t["mode"] = r.choice(["cref", "ptr", "cptr"])
                    ps.append(dict(name=f"o{j}_{r.randrange(100)}", type=t, default=None, default_value=None))
                sg = tuple(ctype(p["type"]).replace("const ", "").replace("&", "").replace("*", "").strip() for p in ps)
                if sg in seen_sigs:
                    continue
                seen_sigs.add(sg)
                f = self.gen_function(cls, "method", name=oname, params=ps, const=False, indent=ind)
                f["overload_set"] = oname
                cls["methods"].append(f)
        # a virtual with different final overriders in two bases must be overridden here (else ill-formed)
        forced = set()
        if len(bases) >= 2:
            finals = {}
            for b, _ in bases:
                for nm, fq in self.final_overriders(b).items():
                    finals.setdefault(nm, set()).add(fq)
            forced = {nm for nm, qs in finals.items() if len(qs) > 1}
        # overrides of base virtuals
        for b, _ in bases:
            bc = self.classes[b]
            for bm in list(bc["methods"]) + [m for m in self.inherited_virtuals(b) if m["name"] in forced]:
                if bm.get("virtual") and ((bm["name"] in forced and bm["cls"] != b) or r.random() < 0.6 or bm["name"] in forced) \
                        and not bm.get("overload_set") and bm["name"] not in [m["name"] for m in cls["methods"]]:
                    ps = [dict(p) for p in bm["params"]]
                    f = self.gen_function(cls, "method", name=bm["name"], ret=bm["ret"], params=ps,
                                          const=bm["const"], virtual=True, indent=ind, override=True)
                    f["overrides"] = bm["qname"]
                    if self.ext is True and r.random() < 0.5:
                        # (v3) an override need not repeat the keyword: it is virtual all the same
                        self.h[-1] = self.h[-1].replace("virtual ", "", 1)
                        f["implicit_virtual"] = True
                    cls["methods"].append(f)
        if getattr(self, "shadow", False):
            for b, _ in bases:
                td = self.classes[b].get("shadow_td")
                if td:
                    cls["shadow_td"] = td
                    ll = T("int", c="long long")
                    f = self.gen_function(cls, "method", ret=ll, const=r.random() < 0.5, indent=ind,
                                          params=[dict(name=f"sv_{r.randrange(100)}", type=ll, default=None, default_value=None)])
                    # the declaration spells the type through the inherited typedef, unqualified
                    self.h[-1] = self.h[-1].replace("long long", td)
                    f["shadow_typedef"] = td
                    cls["methods"].append(f)
                    break
        if getattr(self, "ext", False):
            # a method that HIDES a base-class virtual (same name and parameters, different constness): not an override
            for b, _ in bases:
                bc = self.classes[b]
                for bm in bc["methods"]:
                    if bm.get("virtual") and bm["kind"] == "method" and not bm.get("overload_set") and r.random() < 0.7 \
                            and bm["name"] not in [m["name"] for m in cls["methods"]] and not bm["name"].startswith("operator"):
                        ps = [dict(p, default=None, default_value=None) for p in bm["params"]]
                        # (v3) or: same constness, but one class parameter differs in the const of its pointee/referent
                        flip = [i for i, p_ in enumerate(ps) if p_["type"]["k"] == "obj" and
                                p_["type"].get("mode") in ("ref", "ptr", "cref", "cptr")]
                        hconst = not bm["const"]
                        if flip and r.random() < 0.6:
                            i_ = r.choice(flip)
                            md = {"ref": "cref", "cref": "ref", "ptr": "cptr", "cptr": "ptr"}[ps[i_]["type"]["mode"]]
                            ps[i_] = dict(ps[i_], type=dict(ps[i_]["type"], mode=md))
                            hconst = bm["const"]
                        f = self.gen_function(cls, "method", name=bm["name"], ret=bm["ret"], params=ps,
                                              const=hconst, virtual=False, indent=ind)
                        f["hides"] = bm["qname"]
                        cls["methods"].append(f)
            if r.random() < 0.35:
                self.gen_seqprop(cls, ind)
            if self.ext is True and r.random() < 0.3:
                self.gen_mapprop(cls, ind)
        # operators
        if r.random() < 0.5 * self.size:
            for op in r.sample(["==", "+", "[]c", "()", "neg", "cast", "<"], r.choice([1, 2, 3])):
                cls["methods"].append(self.gen_operator(cls, op, ind))
        if self.ext is True and r.random() < 0.35:
            # (v3) two methods whose types differ only in the presence of a default argument (same names, same types)
            I = T("int", c="int")
            n4 = r.randrange(10000)
            order = [None, ("7", 7)]
            r.shuffle(order)
            for j, dv in enumerate(order):
                ps = [dict(name=f"tv_{n4}", type=I, default=dv[0] if dv else None, default_value=dv[1] if dv else None)]
                cls["methods"].append(self.gen_function(cls, "method", name=f"tws{j}_{n4}", ret=I, params=ps, const=False,
                                                        indent=ind))
        if getattr(self, "ext", False) and r.random() < 0.3:
            # (v3) arithmetic operators with a floating-point / integer operand (true-divide, in-place, modulo slots)
            for op in r.sample(["/", "/=", "*d", "%"], r.choice([1, 2])):
                cls["methods"].append(self.gen_operator(cls, op, ind))
        if getattr(self, "ext", False) and r.random() < 0.35:
            # implicit conversion to a pointer to another class (raw declaration, not part of the model)
            others = [c2 for c2 in self.classes.values() if c2.get("complete") and not c2.get("abstract") and not c2.get("template")
                      and c2["qname"] != q and not c2.get("outer")]
            if others:
                oc = r.choice(others)
                self.h.append(f"{ind}operator {oc['qname']} *();")
                self.cx.append(f"{q}::operator {oc['qname']} *() {{ return {oc['qname']}::vf_pool(1); }}")
                cls["raw_ptrcast"] = oc["qname"]
        if getattr(self, "ext", False) and r.random() < 0.3 and not any(m["name"] == "operator []" for m in cls["methods"]):
            # reference-returning subscript operators (item assignment is synthesised only for the non-const T& form)
            form = r.choice(["ref+const", "constref-nonconst", "ref"])
            self.h.append("public:")
            self.h.append(f"{ind}int vf_items[4];")
            self.h.append("PUBLISHED:")
            if form in ("ref+const", "ref"):
                self.h.append(f"{ind}int &operator [](int idx);")
                self.cx.append(f"int &{q}::operator [](int idx) {{ return vf_items[idx & 3]; }}")
            if form == "ref+const":
                self.h.append(f"{ind}int operator [](int idx) const;")
                self.cx.append(f"int {q}::operator [](int idx) const {{ return vf_items[idx & 3]; }}")
            if form == "constref-nonconst":
                self.h.append(f"{ind}const int &operator [](int idx);")
                self.cx.append(f"const int &{q}::operator [](int idx) {{ return vf_items[idx & 3]; }}")
            self.h.append(f"{ind}int size() const;")
            self.cx.append(f"int {q}::size() const {{ return 4; }}")
            cls["raw_subscript"] = form
        # property / sequence
        if r.random() < 0.5:
            self.gen_property(cls, ind)
        if r.random() < 0.35:
            self.gen_seq(cls, ind)
        if self.ext is True and r.random() < 0.3:
            # (v3) constructors and destructor declared after the methods (the inference of inherited virtual-ness must
            # not depend on a constructor having been seen first)
            blk = self.h[h_ctor0:h_ctor1]
            del self.h[h_ctor0:h_ctor1]
            self.h += blk
            cls["ctors_last"] = True
        self.h.append("public:")
        self.h.append(f"{ind}unsigned long long st_{name};")
        self.h.append(f"{ind}explicit {name}(vf::PoolTag);")
        self.h.append(f"{ind}static {name} *vf_pool(unsigned long long h);")
        self.h.append("};")
        self.cx.append(f"{q}::{name}(vf::PoolTag){self.ctor_inits(cls)} {{")
        self.cx.append(f"  vf::reg(this, sizeof(*this), \"{q}\");")
        self.cx += self.member_inits(cls)
        self.cx.append(f"  st_{name} = 1000 + vf::hs(\"{q}\") % 1000;")
        self.cx.append("}")
        self.cx.append(f"{q} *{q}::vf_pool(unsigned long long h) {{")
        self.cx.append(f"  static {q} *p[3] = {{new {q}(vf::PoolTag()), new {q}(vf::PoolTag()), new {q}(vf::PoolTag())}};")
        self.cx.append("  return p[h % 3];")
        self.cx.append("}")
        # native helpers for drivers: state peek, member peek, static_cast to each direct base
        cid = re.sub(r"\W+", "_", q)
        self.cx.append(f'extern "C" unsigned long long vf_state_{cid}(const void *p) {{ return ((const {q} *)p)->st_{name}; }}')
        for b, _ in bases:
            bid = re.sub(r"\W+", "_", b)
            self.cx.append(f'extern "C" void *vf_cast_{cid}__{bid}(void *p) {{ return static_cast<{b} *>(({q} *)p); }}')
        for m in members_decl:
            if m["array"]:
                self.cx.append(f'extern "C" long long vf_peekat_{cid}_{m["name"]}(void *p, int i) {{ return (long long)(({q} *)p)->{m["name"]}[i]; }}')
                continue
            k = m["type"]["k"]
            acc = f"{q}::{m['name']}" if m["static"] else f"(({q} *)p)->{m['name']}"
            if k in ("int", "bool"):
                self.cx.append(f'extern "C" long long vf_peek_{cid}_{m["name"]}(void *p) {{ return (long long){acc}; }}')
            elif k == "float":
                self.cx.append(f'extern "C" double vf_peek_{cid}_{m["name"]}(void *p) {{ return (double){acc}; }}')
            elif k == "string":
                self.cx.append(f'extern "C" const char *vf_peek_{cid}_{m["name"]}(void *p) {{ return {acc}.c_str(); }}')
        cls["complete"] = True
        return cls

    def final_overriders(self, q):
        """virtual method name -> qname of the class providing the final overrider, as seen from class q"""
        out = {}
        c = self.classes[q]
        for b in c["bases"]:
            out.update(self.final_overriders(b["qname"]))
        for m in c["methods"]:
            if m.get("virtual") and m["kind"] == "method":
                out[m["name"]] = q
        return out

    def inherited_virtuals(self, q):
        """virtual methods of the ancestors of q that q itself does not declare (only used for forced overrides)"""
        c = self.classes[q]
        own = {m["name"] for m in c["methods"]}
        out = []
        for b in c["bases"]:
            bc = self.classes[b["qname"]]
            for m in bc["methods"] + self.inherited_virtuals(b["qname"]):
                if m.get("virtual") and m["name"] not in own and m["name"] not in [x["name"] for x in out]:
                    out.append(m)
        return out

    def gen_operator(self, cls, op, ind):
        q = cls["qname"]
        selfc = T("obj", cls=q, mode="cref")
        p = lambda t, n="rhs": [dict(name=n, type=t, default=None, default_value=None)]
        if op == "==":
            f = self.gen_function(cls, "method", name="operator ==", ret=T("bool"), params=p(selfc), const=True, indent=ind)
        elif op == "<":
            f = self.gen_function(cls, "method", name="operator <", ret=T("bool"), params=p(selfc), const=True, indent=ind)
        elif op == "+":
            f = self.gen_function(cls, "method", name="operator +", ret=T("obj", cls=q, mode="val"), params=p(selfc),
                                  const=True, indent=ind)
        elif op == "[]c":
            f = self.gen_function(cls, "method", name="operator []", ret=T("int", c="int"),
                                  params=p(T("int", c="int"), "idx"), const=True, indent=ind)
        elif op == "()":
            f = self.gen_function(cls, "method", name="operator ()", ret=T("int", c="int"),
                                  params=p(T("int", c="int"), "x"), const=False, indent=ind)
        elif op == "neg":
            f = self.gen_function(cls, "method", name="operator -", ret=T("obj", cls=q, mode="val"), params=[],
                                  const=True, indent=ind)
        elif op == "/":
            f = self.gen_function(cls, "method", name="operator /", ret=T("obj", cls=q, mode="val"),
                                  params=p(T("float", c="double"), "k"), const=True, indent=ind)
        elif op == "/=":
            f = self.gen_function(cls, "method", name="operator /=", ret=T("obj", cls=q, mode="ref"),
                                  params=p(T("float", c="double"), "k"), const=False, indent=ind)
            # an assignment operator returns *this (interrogate's wrappers rely on that convention)
            i = len(self.cx) - 1
            while " *vf_r = " not in self.cx[i]:
                i -= 1
            self.cx[i] = self.cx[i].split("=")[0] + "= this;"
            f["returns"] = "this"
        elif op == "*d":
            f = self.gen_function(cls, "method", name="operator *", ret=T("obj", cls=q, mode="val"),
                                  params=p(T("float", c="float"), "k"), const=True, indent=ind)
        elif op == "%":
            f = self.gen_function(cls, "method", name="operator %", ret=T("int", c="int"),
                                  params=p(T("int", c="int"), "m"), const=True, indent=ind)
        else:
            f = self.gen_function(cls, "method", name="operator int", ret=T("int", c="int"), params=[], const=True,
                                  indent=ind)
            # "operator int" is declared without a return type
            decl = self.h.pop()
            self.h.append(decl.replace("int operator int", "operator int"))
            i = len(self.cx) - 1
            while not self.cx[i].startswith("int " + q + "::operator int"):
                i -= 1
            self.cx[i] = self.cx[i].replace("int " + q + "::operator int", q + "::operator int")
            f["typecast"] = True
        f["operator"] = op
        return f

    def gen_property(self, cls, ind):
        r = self.r
        pname = self.ident("prop_")
        t = r.choice([T("int", c="int"), T("float", c="double")] + ([T("string", ref=False)] if getattr(self, "strings", True) else []))
        g = self.gen_function(cls, "method", name="get_" + pname, ret=t, params=[], const=True, indent=ind)
        cls["methods"].append(g)
        s = None
        if r.random() < 0.7:
            pt = dict(t)
            if pt["k"] == "string":
                pt["ref"] = True
            s = self.gen_function(cls, "method", name="set_" + pname, ret=T("void"),
                                  params=[dict(name="value", type=pt, default=None, default_value=None)], indent=ind)
            cls["methods"].append(s)
        d = self.doc(ind)
        self.h.append(f"{ind}MAKE_PROPERTY({pname}, get_{pname}{', set_' + pname if s else ''});")
        cls["properties"].append(dict(name=pname, qname=cls["qname"] + "::" + pname, getter=g["qname"],
                                      setter=s["qname"] if s else None, type=t, doc=d))

    def gen_seq(self, cls, ind):
        sname = self.ident("items_")
        n = self.gen_function(cls, "method", name="get_num_" + sname, ret=T("int", c="int"), params=[], const=True,
                              indent=ind)
        # the count must be small and non-negative: fixed body
        self.fix_body_return(n, "3")
        g = self.gen_function(cls, "method", name="get_" + sname, ret=T("int", c="int"),
                              params=[dict(name="n", type=T("int", c="int"), default=None, default_value=None)],
                              const=True, indent=ind)
        cls["methods"] += [n, g]
        self.h.append(f"{ind}MAKE_SEQ(get_{sname}s, get_num_{sname}, get_{sname});")
        cls["seqs"].append(dict(name=f"get_{sname}s", qname=cls["qname"] + f"::get_{sname}s", num=n["qname"],
                                element=g["qname"]))

    def gen_seqprop(self, cls, ind):
        """MAKE_SEQ_PROPERTY with 2..5 accessor functions (num, get[, set[, remove[, insert]]])"""
        r = self.r
        sname = self.ident("sp_")
        I = T("int", c="int")
        P = lambda n, t=I: dict(name=n, type=t, default=None, default_value=None)
        n = self.gen_function(cls, "method", name="get_num_" + sname, ret=I, params=[], const=True, indent=ind)
        self.fix_body_return(n, "3")
        g = self.gen_function(cls, "method", name="get_" + sname, ret=I, params=[P("n")], const=True, indent=ind)
        fns = [n, g]
        k = r.choice([2, 3, 4, 5, 5])
        if k >= 3:
            fns.append(self.gen_function(cls, "method", name="set_" + sname, ret=T("void"), params=[P("n"), P("v")], indent=ind))
        if k >= 4:
            fns.append(self.gen_function(cls, "method", name="remove_" + sname, ret=T("void"), params=[P("n")], indent=ind))
        if k >= 5:
            fns.append(self.gen_function(cls, "method", name="insert_" + sname, ret=T("void"), params=[P("n"), P("v")], indent=ind))
        cls["methods"] += fns
        d = self.doc(ind)
        self.h.append(f"{ind}MAKE_SEQ_PROPERTY({sname}, " + ", ".join(f["name"] for f in fns) + ");")
        roles = ["num", "get", "set", "remove", "insert"]
        cls["seqprops"].append(dict(name=sname, qname=cls["qname"] + "::" + sname, doc=d,
                                    **{roles[i]: fns[i]["qname"] for i in range(len(fns))}))

    def gen_mapprop(self, cls, ind):
        """(v3) MAKE_MAP_PROPERTY with 2..4 accessors (has, get[, set[, clear]]) and optionally MAKE_MAP_KEYS_SEQ"""
        r = self.r
        mname = self.ident("mp_")
        I = T("int", c="int")
        P = lambda n, t=I: dict(name=n, type=t, default=None, default_value=None)
        hs = self.gen_function(cls, "method", name="has_" + mname, ret=T("bool"), params=[P("key")], const=True, indent=ind)
        g = self.gen_function(cls, "method", name="get_" + mname, ret=I, params=[P("key")], const=True, indent=ind)
        fns = [hs, g]
        k = r.choice([2, 3, 4, 4])
        if k >= 3:
            fns.append(self.gen_function(cls, "method", name="set_" + mname, ret=T("void"), params=[P("key"), P("v")], indent=ind))
        if k >= 4:
            fns.append(self.gen_function(cls, "method", name="clear_" + mname, ret=T("void"), params=[P("key")], indent=ind))
        cls["methods"] += fns
        d = self.doc(ind)
        self.h.append(f"{ind}MAKE_MAP_PROPERTY({mname}, " + ", ".join(f["name"] for f in fns) + ");")
        roles = ["has", "get", "set", "clear"]
        mp = dict(name=mname, qname=cls["qname"] + "::" + mname, doc=d, **{roles[i]: fns[i]["qname"] for i in range(len(fns))})
        if r.random() < 0.7:
            nk = self.gen_function(cls, "method", name="get_num_" + mname + "_keys", ret=I, params=[], const=True, indent=ind)
            self.fix_body_return(nk, "2")
            gk = self.gen_function(cls, "method", name="get_" + mname + "_key", ret=I, params=[P("n")], const=True, indent=ind)
            cls["methods"] += [nk, gk]
            self.h.append(f"{ind}MAKE_MAP_KEYS_SEQ({mname}, {nk['name']}, {gk['name']});")
            mp["num_keys"] = nk["qname"]
            mp["getkey"] = gk["qname"]
        cls.setdefault("mapprops", []).append(mp)

    def gen_template(self):
        """a class template with two typedef'd instantiations (v2); bodies are shared, entity ids come from a trait"""
        r = self.r
        n = r.randrange(10000)
        tn = f"Box{n}"
        insts = r.sample([("int", T("int", c="int")), ("double", T("float", c="double")), ("short int", T("int", c="short")),
                          ("unsigned int", T("int", c="unsigned int"))], 2)
        h, cx = self.h, self.cx
        # (v3) base classes of the template: the base list of every instantiation must carry over access and virtual-ness
        tbases = []          # (qname, virtual, access)
        if getattr(self, "ext", False) is True and getattr(self, "tbases", True):
            shape = r.choice(["none", "pub", "pub+virt", "priv+pub", "virt"])
            if shape != "none":
                sv = self.size
                self.size = min(self.size, 0.4)
                mk_base = lambda: self.gen_class()["qname"]
                if shape == "pub":
                    tbases = [(mk_base(), False, "public")]
                elif shape == "virt":
                    tbases = [(mk_base(), True, "public")]
                elif shape == "pub+virt":
                    tbases = [(mk_base(), False, "public"), (mk_base(), True, "public")]
                else:
                    tbases = [(mk_base(), False, "private"), (mk_base(), False, "public")]
                self.size = sv
        bl = ", ".join(f"{acc} {'virtual ' if v else ''}{b}" for b, v, acc in tbases)
        binit = (" : " + ", ".join(f"{b}(vf::PoolTag())" for b, v, acc in tbases)) if tbases else ""
        h += [f"template<class T> struct {tn}_tr;", f"template<class T> class {tn}{' : ' + bl if bl else ''} {{", "PUBLISHED:", f"  {tn}();",
              f"  {tn}(const {tn} &vf_o);", f"  ~{tn}();", "  T get_v() const;", "  void set_v(T v);",
              "  T twice(T v, int k = 2) const;", "public:", f"  unsigned long long st_{tn};", "  T _v;",
              f"  explicit {tn}(vf::PoolTag);", f"  static {tn} *vf_pool(unsigned long long h);", "};"]
        for i, (cname, tt) in enumerate(insts):
            base = self.eid + 1
            self.eid += 6
            q = f"{tn}< {cname} >"
            td = f"{tn}T{i}"
            h.append(f"typedef {tn}<{cname}> {td};")
            cx.append(f'template<> struct {tn}_tr<{cname}> {{ static const int base = {base}; static const char *name() {{ return "{q}"; }} }};')
            P = lambda nm, ty, dflt=None, dv=None: dict(name=nm, type=ty, default=dflt, default_value=dv)
            mk = lambda k, nm, kind, ps, ret, const=False: dict(eid=base + k, name=nm, qname=q + "::" + nm, cls=q, kind=kind,
                                                                const=const, virtual=False, static=False, params=ps, ret=ret,
                                                                doc=None, lib=self.name, ret_owner="value")
            cls = dict(name=tn, qname=q, lib=self.name, ns=None,
                       bases=[dict(qname=b, virtual=v) for b, v, acc in tbases if acc == "public"],
                       ctors=[mk(0, tn, "ctor", [], T("void"))],
                       copy_ctor=dict(eid=base + 1, name=tn, qname=q + "::" + tn, kind="copy_ctor", cls=q),
                       methods=[mk(2, "get_v", "method", [], tt, True), mk(3, "set_v", "method", [P("v", tt)], T("void")),
                                mk(4, "twice", "method", [P("v", tt), P("k", T("int", c="int"), "2", 2)], tt, True)],
                       members=[], enums=[], properties=[], seqs=[], seqprops=[], doc=None, complete=True, copyable=True,
                       abstract=False, nested=[], outer=None, depth=0, virtual_dtor=False, template=tn, typedef=td)
            self.classes[q] = cls
            self.model["classes"].append(cls)
            self.model["typedefs"].append(dict(name=td, qname=td, target=q))
            cid = re.sub(r"\W+", "_", q)
            cx.append(f'extern "C" unsigned long long vf_state_{cid}(const void *p) {{ return ((const {tn}<{cname}> *)p)->st_{tn}; }}')
            for b, v, acc in tbases:
                if acc == "public":
                    bid = re.sub(r"\W+", "_", b)
                    cx.append(f'extern "C" void *vf_cast_{cid}__{bid}(void *p) {{ return static_cast<{b} *>(({tn}<{cname}> *)p); }}')
        cx += [
            f"template<class T> {tn}<T>::{tn}(){binit} {{ vf::reg(this, sizeof(*this), {tn}_tr<T>::name()); _v = T(); vf::Ev vf_e({tn}_tr<T>::base + 0, this); st_{tn} = vf::mix({tn}_tr<T>::base, 11); vf_e.raw(\"r\", \"v\" + std::to_string(st_{tn})); }}",
            f"template<class T> {tn}<T>::{tn}(const {tn} &vf_o){binit} {{ vf::reg(this, sizeof(*this), {tn}_tr<T>::name()); _v = vf_o._v; st_{tn} = vf_o.st_{tn}; vf::Ev vf_e({tn}_tr<T>::base + 1, this); vf_e.obj(\"a0\", &vf_o); vf_e.raw(\"r\", \"v\" + std::to_string(st_{tn})); }}",
            f"template<class T> {tn}<T>::~{tn}() {{ vf::unreg(this, sizeof(*this), {tn}_tr<T>::name()); }}",
            f"template<class T> T {tn}<T>::get_v() const {{ vf::Ev vf_e({tn}_tr<T>::base + 2, this); unsigned long long vf_h = vf::mix({tn}_tr<T>::base + 2, st_{tn}); T vf_r = vf::make_val<T>(vf_h); vf_e.put(\"r\", vf_r); return vf_r; }}",
            f"template<class T> void {tn}<T>::set_v(T v) {{ vf::Ev vf_e({tn}_tr<T>::base + 3, this); vf_e.put(\"a0\", v); st_{tn} = vf::mix(st_{tn}, {tn}_tr<T>::base + 3); _v = v; vf_e.raw(\"r\", \"n\"); }}",
            f"template<class T> T {tn}<T>::twice(T v, int k) const {{ vf::Ev vf_e({tn}_tr<T>::base + 4, this); vf_e.put(\"a0\", v); vf_e.put(\"a1\", k); unsigned long long vf_h = vf::mix(vf::mix(vf::mix({tn}_tr<T>::base + 4, vf::hv(v)), vf::hv(k)), st_{tn}); T vf_r = vf::make_val<T>(vf_h); vf_e.put(\"r\", vf_r); return vf_r; }}",
            f"template<class T> {tn}<T>::{tn}(vf::PoolTag){binit} {{ vf::reg(this, sizeof(*this), {tn}_tr<T>::name()); _v = T(); st_{tn} = 1000 + {tn}_tr<T>::base; }}",
            f"template<class T> {tn}<T> *{tn}<T>::vf_pool(unsigned long long h) {{ static {tn}<T> *p[3] = {{new {tn}<T>(vf::PoolTag()), new {tn}<T>(vf::PoolTag()), new {tn}<T>(vf::PoolTag())}}; return p[h % 3]; }}",
        ]
        for cname, _ in insts:
            cx.append(f"template class {tn}<{cname}>;")

    def cxraw(self, line):
        """a raw definition for a declaration emitted inside the library namespace"""
        ns = getattr(self, "lib_ns", None)
        if ns:
            parts = ns.split("::")
            line = " ".join(f"namespace {p} {{" for p in parts) + " " + line + " " + "}" * len(parts)
        self.cx.append(line)

    def fix_body_return(self, fn, expr):
        """replace the computed result of the last emitted body by a constant expression"""
        i = len(self.cx) - 1
        while "vf_r = vf::make_int" not in self.cx[i]:
            i -= 1
        self.cx[i] = self.cx[i].split("=")[0] + "= " + expr + ";"
        fn["fixed_result"] = expr

    # ---- whole library
    def generate(self, n_classes=None, ns=None, dep_bases=()):
        r = self.r
        name = self.name
        guard = name.upper() + "_H"
        self.h += [f"#ifndef {guard}", f"#define {guard}", '#include "vfpub.h"', "#include <string>"]
        self.h.append('#include "libgen_rt.h"')
        for pm in self.prior:
            if pm["lib"] in [d for d, _ in dep_bases] or True:
                pass
        for d in sorted({d for d, _ in dep_bases}):
            self.h.append(f'#include "{d}.h"')
            self.model["deps"].append(d)
        self.h.append("#ifndef VF_POOLTAG")
        self.h.append("#define VF_POOLTAG")
        self.h.append("namespace vf { struct PoolTag {}; }")
        self.h.append("#endif")
        self.cx += [f'#include "{name}.h"', ""]
        # macros
        for i in range(r.choice([1, 2, 3])):
            mn = self.ident("MC_" + name.upper() + "_")
            k = r.choice(["int", "int", "hex", "float", "str"])
            if k == "int":
                v = r.choice([0, 1, 42, 65535, 2147483647])
                txt = str(v)
            elif k == "hex":
                v = r.choice([16, 255, 4096])
                txt = hex(v)
            elif k == "float":
                v = r.choice([1.5, 0.25, 100.0])
                txt = repr(v)
            else:
                v = r.choice(["hello", "a b", ""])
                txt = json.dumps(v)
            self.h.append(f"#define {mn} {txt}")
            self.model["macros"].append(dict(name=mn, kind=k, text=txt, value=v))
        self.lib_ns = ns
        # (v2) a class and an enum inside a namespace: interrogate scans only the global scope, so these are exported
        # only when a global signature or base list refers to them (which the later declarations may do)
        if ns is None and getattr(self, "ext", False) and r.random() < 0.6:
            nsn = "ns" + str(r.randrange(1000)) + ("::in" + str(r.randrange(100)) if r.random() < 0.4 else "")
            for part in nsn.split("::"):
                self.h.append(f"namespace {part} {{")
            self.h.append("BEGIN_PUBLISH")
            e = self.gen_enum(ns=nsn)
            e["in_namespace"] = True
            self.h.append("END_PUBLISH")
            sv = self.size
            self.size = min(self.size, 0.6)
            c = self.gen_class(ns=nsn)
            self.size = sv
            c["in_namespace"] = True
            for part in nsn.split("::"):
                self.h.append("}")
            self.model["namespace"] = nsn
        self.h.append("BEGIN_PUBLISH")
        for i in range(r.choice([1, 2])):
            self.gen_enum(ns=ns)
        self.h.append("END_PUBLISH")
        if getattr(self, "ext", False) and getattr(self, "templates", True) and r.random() < 0.6:
            self.gen_template()
        # classes
        n_classes = n_classes or max(1, int(r.choice([2, 3, 4]) * self.size))
        own = []
        shape = r.choice(["chain", "multi", "virtual", "flat"]) if n_classes >= 3 else r.choice(["chain", "flat"])
        for i in range(n_classes):
            bases = []
            if i < len(dep_bases) and dep_bases[i][1]:
                bases.append((dep_bases[i][1], False))
            elif own:
                if shape == "chain" and r.random() < 0.8:
                    bases.append((own[-1]["qname"], False))
                elif shape == "multi" and i == 2:
                    bases = [(own[0]["qname"], False), (own[1]["qname"], False)]
                elif shape == "virtual":
                    if i in (1, 2):
                        bases = [(own[0]["qname"], True)]
                    elif i == 3:
                        bases = [(own[1]["qname"], False), (own[2]["qname"], False)]
            own.append(self.gen_class(bases=bases, ns=ns))
        self.model["shape"] = shape
        # free functions (may use any class)
        self.h.append("BEGIN_PUBLISH")
        for i in range(max(1, int(r.choice([2, 3, 4]) * self.size))):
            self.model["functions"].append(self.gen_function(None, "free", ns=ns))
        if getattr(self, "enumalias", False):
            # (v3, enumalias) enums named through typedef / using aliases in results and parameters
            glob = [e for e in self.enums if not e.get("owner") and e.get("lib") == self.name and (e.get("ns") or None) == ns]
            for e in glob[:2]:
                n5 = r.randrange(10000)
                al = f"EnAl{n5}"
                self.h.append(f"typedef {e['name']} {al};" if r.random() < 0.5 else f"using {al} = {e['name']};")
                et = T("enum", name=e["qname"], scoped=e["scoped"])
                f = self.gen_function(None, "free", ns=ns, ret=et,
                                      params=[dict(name=f"ea_{n5}", type=et, default=None, default_value=None)])
                self.h[-1] = self.h[-1].replace(e["qname"], al).replace(e["name"], al)
                f["enum_alias"] = al
                self.model["functions"].append(f)
        # a free overload set
        oname = self.ident("fov_")
        fk = ["i", "f", "s", "if", "none"] + (["b"] if getattr(self, "ext", False) else [])
        fks = r.sample(fk, 2)
        if getattr(self, "ext", False) and "s" in fks and "b" not in fks:
            fks.append("b")
        if getattr(self, "ext", False) and "f" in fks and r.random() < 0.6:
            fks.append("F")
        fseen = set()
        for kd in fks:
            sg = tuple(("b" if (ch == "s" and not getattr(self, "strings", True)) else ch) for ch in (kd if kd != "none" else ""))
            if sg in fseen:
                continue       # two overloads may not differ in the return type only
            fseen.add(sg)
            ps = []
            for j, ch in enumerate(kd if kd != "none" else ""):
                t = {"i": T("int", c="int"), "f": T("float", c="double"), "F": T("float", c="float"), "b": T("bool"),
                     "s": T("string", ref=True) if getattr(self, "strings", True) else T("bool")}[ch]
                ps.append(dict(name=f"o{j}_{r.randrange(100)}", type=t, default=None, default_value=None))
            f = self.gen_function(None, "free", name=oname, params=ps, ns=ns)
            f["overload_set"] = oname
            self.model["functions"].append(f)
        if getattr(self, "opaque", False):
            # classes without any published member, derived from published ones, reached only through signatures
            for c in [c for c in own if not c.get("abstract") and not c.get("outer")][:2]:
                n = r.randrange(10000)
                inits = self.ctor_inits(dict(bases=[dict(qname=c["qname"], virtual=False)], members=[]))
                at = max(i for i, l in enumerate(self.h) if l == "BEGIN_PUBLISH")     # outside the publish region
                self.h.insert(at, f"class Opq{n} : public {c['qname']} {{ public: Opq{n}(){inits} {{}} int opq_v; }};")
                self.h.append(f"Opq{n} *opq_make_{n}();")
                self.h.append(f"int opq_use_{n}(const Opq{n} *p);")
                self.cxraw(f"Opq{n} *opq_make_{n}() {{ return new Opq{n}(); }}")
                self.cxraw(f"int opq_use_{n}(const Opq{n} *p) {{ return p ? 1 : 0; }}")
                # an unpublished class BETWEEN two published ones
                self.h.insert(at + 1, f"class OpqMid{n} : public {c['qname']} {{ public: OpqMid{n}(){inits.replace(c['qname'] + '(', c['qname'] + '(') } {{}} void internal_{n}(); int hidden_{n}; }};")
                minits = self.ctor_inits(dict(bases=[dict(qname=c["qname"], virtual=False)], members=[]))
                vb = [v for v in self.all_vbases(dict(bases=[dict(qname=c["qname"], virtual=False)]))]
                leaf_inits = " : " + ", ".join([f"{v}(vf::PoolTag())" for v in vb] + [f"OpqMid{n}()"])
                self.h.insert(at + 2, f"class OpqLeaf{n} : public OpqMid{n} {{ PUBLISHED: OpqLeaf{n}(); int get_leaf_{n}() const; }};")
                self.cxraw(f"void OpqMid{n}::internal_{n}() {{}}")
                self.cxraw(f"OpqLeaf{n}::OpqLeaf{n}(){leaf_inits} {{}}")
                self.cxraw(f"int OpqLeaf{n}::get_leaf_{n}() const {{ return {n}; }}")
        if getattr(self, "oddities", False):
            # declarations with types interrogate cannot wrap or only partly knows (exercise remove_type, forward
            # declarations); they are not part of the model (nothing is claimed about them)
            n = r.randrange(10000)
            odd = [f"struct Fwd{n};", f"void odd_fwd_{n}(Fwd{n} *p);", f"Fwd{n} *odd_fwdret_{n}();",
                   f"void odd_cb_{n}(int (*cb)(int, double));", f"void odd_rv_{n}(std::string &&s);",
                   f"void odd_pp_{n}(int **pp);", f"void odd_arr_{n}(int (&arr)[4]);",
                   f"void odd_va_{n}(const char *fmt, ...);", f"union OddU{n} {{ int a; float b; }};",
                   f"void odd_un_{n}(OddU{n} u);", f"void odd_vp_{n}(void *p, const void *q);",
                   f"template<class X> X odd_tmpl_{n}(X x);", f"long double odd_ld_{n}(long double x);",
                   f"wchar_t odd_wc_{n}(wchar_t c);"]
            pick = r.sample(odd[1:], r.randrange(3, len(odd) - 1))
            if self.oddities == "nofwd":
                # an incomplete type that no library defines cannot be resolved by a python-native module at import
                pick = [x for x in pick if f"Fwd{n}" not in x]
            for line in pick:
                if f"Fwd{n}" in line and odd[0] not in self.h:
                    self.h.append(odd[0])
                if f"OddU{n}" in line and odd[8] not in self.h and not line.startswith("union"):
                    self.h.append(odd[8])
                if line not in self.h:
                    self.h.append(line)
                    # trivial definitions so that generated wrappers link
                    body = {"odd_fwd_": "{}", "odd_fwdret_": "{ return nullptr; }", "odd_cb_": "{}", "odd_rv_": "{}",
                            "odd_pp_": "{}", "odd_arr_": "{}", "odd_va_": "{}", "odd_un_": "{}", "odd_vp_": "{}",
                            "odd_ld_": "{ return x; }", "odd_wc_": "{ return c; }"}
                    for k, bd in body.items():
                        if k in line:
                            self.cxraw(line.rstrip(";") + " " + bd)
            self.model["oddities"] = n
        if getattr(self, "ordering", False):
            # overload sets whose members are equally ranked for dispatch (unrelated classes, integer widths)
            oname = self.ident("ford_")
            mk = lambda t, j: dict(name=f"o{j}_{r.randrange(100)}", type=t, default=None, default_value=None)
            for c in [c for c in own if not c.get("abstract")][:4]:
                f = self.gen_function(None, "free", name=oname, params=[mk(T("obj", cls=c["qname"], mode="cref"), 0)], ns=ns)
                f["overload_set"] = oname
                self.model["functions"].append(f)
            oname = self.ident("fint_")
            for ct in ["int", "unsigned int", "short", "long"]:
                f = self.gen_function(None, "free", name=oname, params=[mk(T("int", c=ct), 0)], ns=ns)
                f["overload_set"] = oname
                self.model["functions"].append(f)
        self.h.append("END_PUBLISH")
        self.h.append("#endif")
        self.cx.append("")
        return self


class Lib:
    def __init__(self, g):
        self.name = g.name
        self.header = "\n".join(g.h) + "\n"
        self.source = "\n".join(g.cx) + "\n"
        self.model = g.model

    def write(self, d, rt_exports=True):
        """lib.h/lib.cxx go to d; vfpub.h and libgen_rt.h to d/sys (reached through -S by interrogate, so that
        their macros are not the user's own; through -I by g++)."""
        os.makedirs(os.path.join(d, "sys"), exist_ok=True)
        open(os.path.join(d, self.name + ".h"), "w").write(self.header)
        src = self.source
        if rt_exports:
            src += "\nVF_RT_EXPORTS\n"
        open(os.path.join(d, self.name + ".cxx"), "w").write(src)
        open(os.path.join(d, "sys", "vfpub.h"), "w").write(PUB_H)
        open(os.path.join(d, "sys", "libgen_rt.h"), "w").write(open(RT_HEADER).read())
        json.dump(self.model, open(os.path.join(d, self.name + ".model.json"), "w"), indent=1)
        return os.path.join(d, self.name + ".h")


def generate(rng, name="liba", size=1.0, docs=True, native=False, prior=None, dep_bases=(), n_classes=None,
             adversarial=False, strings=True, ordering=False, oddities=False, arrays=True, ext=False, opaque=False,
             shadow=False, enumalias=False):
    g = Gen(rng, name, size=size, docs=docs, native=native, prior=prior)
    g.strings = strings
    g.ordering = ordering
    g.oddities = oddities
    g.arrays = arrays
    g.opaque = opaque
    g.enumalias = enumalias
    g.shadow = shadow     # v3: inherited member typedef hiding an outer typedef (C01)
    g.ext = ext       # v2 features: bool overloads, MAKE_SEQ_PROPERTY, nested classes, hiding methods
    g.generate(n_classes=n_classes, dep_bases=dep_bases)
    return Lib(g)


def read_files(d):
    """the generated inputs of a case directory (for self-contained replay cases)"""
    out = {}
    for f in sorted(os.listdir(d)):
        p = os.path.join(d, f)
        if os.path.isfile(p) and (f.endswith((".h", ".cxx", ".N")) and "_igate" not in f and "_module" not in f
                                  or f.endswith(".model.json")):
            out[f] = open(p).read()
    return out


def write_files(d, files):
    os.makedirs(os.path.join(d, "sys"), exist_ok=True)
    for f, txt in files.items():
        os.makedirs(os.path.dirname(os.path.join(d, f)) or d, exist_ok=True)
        open(os.path.join(d, f), "w").write(txt)
    open(os.path.join(d, "sys", "vfpub.h"), "w").write(PUB_H)
    open(os.path.join(d, "sys", "libgen_rt.h"), "w").write(open(RT_HEADER).read())
