"""declgen -- declarations from the C++ declarator grammar over a small universe of named types (C06).

A *TU model* (JSON-serialisable) is
    {"env":   [{"id": "e3", "cls": "<construct class>", "text": "<one line>"} ...],
     "hosts": [{"id": "h0", "open": "namespace na { struct H0 : S {", "close": "}; }", "qual": "na::H0",
                "nested": ["struct S { };", ...]}],
     "decls": [ {"id": 7, "name": "f_7", "kind": "func|method|smethod|var|member|typedef|alias",
                 "site": "global" | "h0", "ret": T, "params": [T...], "pnames": bool, "cvq": ""|"const",
                 "virtual": bool, "type": T} ...]}
Types are nested lists:
    ["base", spelling, cv, west, elab, desc]          cv in "", "const", "volatile", "const volatile"
    ["tmpl", spelling, [args], cv, west, desc]         arg: a type or ["int", "<expr>"]
    ["ptr", cv, T]  ["lref", T]  ["rref", T]  ["arr", n, T]  ["fn", R, [params], cvq]  ["memptr", class_spelling, cv, T]
`desc` is the finite-alphabet description of the named type (kind/how it was found) used in violation keys.
Every declaration is rendered on its own line so that compiler diagnostics name it.  g++ is the authority on
what a spelling means; the generator's own symbol table only serves to produce mostly-valid programs.
"""
import copy

BUILTINS = ["int", "unsigned int", "char", "long", "unsigned long long", "short", "bool", "double", "float",
            "signed char", "unsigned char", "long long", "unsigned short", "wchar_t", "long double"]


# ---------------------------------------------------------------------------
# rendering
# ---------------------------------------------------------------------------

def _cvjoin(cv, s, west):
    if not cv:
        return s
    return (cv + " " + s) if west else (s + " " + cv)


def render_arg(a):
    if a[0] == "int":
        return a[1]
    return render_type(a, "")


def spec_str(t):
    if t[0] == "base":
        _, sp, cv, west, elab, _d = t
        s = (elab + " " if elab else "") + sp
        return _cvjoin(cv, s, west)
    _, sp, args, cv, west, _d = t
    inner = ", ".join(render_arg(a) for a in args)
    s = sp + "<" + inner + (" >" if inner.endswith(">") else ">")
    return _cvjoin(cv, s, west)


def render_type(t, inner):
    """C declarator printing: `inner` is the declarator built so far (name, or '' for an abstract declarator)."""
    k = t[0]
    if k == "ell":                  # trailing ellipsis of a parameter list (always the last "parameter")
        return "..."
    if k in ("base", "tmpl"):
        s = spec_str(t)
        return s + ((" " + inner) if inner else "")
    if k == "ptr":
        d = "*" + ((t[1] + " ") if t[1] else "") + inner
        d = d.rstrip() if not inner else d
        if t[2][0] in ("arr", "fn"):
            d = "(" + d + ")"
        return render_type(t[2], d)
    if k in ("lref", "rref"):
        d = ("&" if k == "lref" else "&&") + inner
        if t[1][0] in ("arr", "fn"):
            d = "(" + d + ")"
        return render_type(t[1], d)
    if k == "memptr":
        d = t[1] + "::*" + ((t[2] + " ") if t[2] else "") + inner
        d = d.rstrip() if not inner else d
        if t[3][0] in ("arr", "fn"):
            d = "(" + d + ")"
        return render_type(t[3], d)
    if k == "arr":
        return render_type(t[2], inner + "[" + str(t[1]) + "]")
    if k == "fn":
        ps = ", ".join(render_type(p, "") for p in t[2])
        return render_type(t[1], inner + "(" + ps + ")" + ((" " + t[3]) if t[3] else ""))
    raise ValueError(k)


def render_decl(d):
    k = d["kind"]
    if k in ("func", "method", "smethod"):
        ps = []
        for i, p in enumerate(d["params"]):
            ps.append(render_type(p, f"a{i}" if d.get("pnames", True) and p[0] != "ell" else ""))
        head = d["name"] + "(" + ", ".join(ps) + ")" + ((" " + d["cvq"]) if d.get("cvq") else "")
        s = render_type(d["ret"], head) + ";"
        if k == "smethod":
            s = "static " + s
        elif d.get("virtual"):
            s = "virtual " + s
        return s
    if k == "var":
        return "extern " + render_type(d["type"], d["name"]) + ";"
    if k == "member":
        return render_type(d["type"], d["name"]) + ";"
    # a typedef only reaches the database when something exported uses it: a global function does
    if k == "typedef":
        return "typedef " + render_type(d["type"], d["name"]) + "; void vf_use_" + d["name"] + "(" + d["name"] + " a0);"
    if k == "alias":
        return "using " + d["name"] + " = " + render_type(d["type"], "") + "; void vf_use_" + d["name"] + "(" + \
            d["name"] + " a0);"
    raise ValueError(k)


def render_tu(tu, keep=None, keep_env=None):
    """-> (text, linemap) ; linemap[line_no (1-based)] = ("env", id) | ("decl", id) | ("host", id)"""
    lines, lm = [], {}

    def emit(s, tag):
        lines.append(s)
        lm[len(lines)] = tag

    decls = [d for d in tu["decls"] if keep is None or d["id"] in keep]
    for e in tu["env"]:
        if keep_env is None or e["id"] in keep_env:
            emit(e["text"], ("env", e["id"]))
    for d in decls:
        if d["site"] == "global" and d["kind"] in ("typedef", "alias"):
            emit(render_decl(d), ("decl", d["id"]))
    for h in tu["hosts"]:
        mine = [d for d in decls if d["site"] == h["id"]]
        if h.get("pre"):
            emit(h["pre"], ("host", h["id"]))
        emit(h["open"], ("host", h["id"]))
        for n in h.get("nested", []):
            emit("  " + n, ("host", h["id"]))
        emit(" public:", ("host", h["id"]))
        for d in mine:
            emit("  " + render_decl(d), ("decl", d["id"]))
        emit(h["close"], ("host", h["id"]))
        # classes inside namespaces are only exported when a global entity refers to them
        if h.get("post"):
            emit(h["post"], ("host", h["id"]))
        emit("void vf_use_" + h["id"] + "(" + h.get("anchor", h["qual"]) + " *a0);", ("host", h["id"]))
    for u in tu.get("late_env", []):
        if keep_env is None or u["id"] in keep_env:
            emit(u["text"], ("env", u["id"]))
    for d in decls:
        if d["site"] == "global" and d["kind"] not in ("typedef", "alias"):
            emit(render_decl(d), ("decl", d["id"]))
    return "\n".join(lines) + "\n", lm


def qualified_name(tu, d):
    if d["site"] == "global":
        return "::" + d["name"]
    h = [h for h in tu["hosts"] if h["id"] == d["site"]][0]
    return "::" + h["qual"] + "::" + d["name"]


# ---------------------------------------------------------------------------
# structure descriptions (finite alphabet) and sizes
# ---------------------------------------------------------------------------

def struct_str(t):
    k = t[0]
    if k == "ell":
        return "..."
    if k == "base":
        s = t[5]
        if t[4]:
            s = "elab-" + t[4] + " " + s
        return ((t[2] + " ") if t[2] else "") + s
    if k == "tmpl":
        def lead(x):
            # how the written argument starts matters to a lexer/parser (`<::` is a digraph hazard, a leading
            # cv-qualifier selects another grammar rule)
            r = render_arg(x)
            for tok in ("::", "volatile", "const"):
                if r.startswith(tok):
                    return "^" + tok + " "
            return ""
        a = ",".join("intexpr" if x[0] == "int" else lead(x) + struct_str(x) for x in t[2])
        return ((t[3] + " ") if t[3] else "") + t[5] + "<" + a + ">"
    if k == "ptr":
        return ((t[1] + " ") if t[1] else "") + "ptr(" + struct_str(t[2]) + ")"
    if k == "lref":
        return "ref(" + struct_str(t[1]) + ")"
    if k == "rref":
        return "rref(" + struct_str(t[1]) + ")"
    if k == "arr":
        return ("array(" if isinstance(t[1], int) else "array[tparam](") + struct_str(t[2]) + ")"
    if k == "memptr":
        return ((t[2] + " ") if t[2] else "") + "memptr(" + struct_str(t[3]) + ")"
    if k == "fn":
        return "fn(" + struct_str(t[1]) + ";" + ",".join(struct_str(p) for p in t[2]) + ")" + \
            ((" " + t[3]) if t[3] else "")
    raise ValueError(k)


def type_size(t):
    k = t[0]
    if k == "ell":
        return 1
    if k == "base":
        return 1 + (1 if t[2] else 0) + (1 if t[4] else 0) + (0 if t[5] == "int" else 1)
    if k == "tmpl":
        return 2 + (1 if t[3] else 0) + sum(1 if a[0] == "int" else type_size(a) for a in t[2])
    if k == "ptr":
        return 1 + (1 if t[1] else 0) + type_size(t[2])
    if k in ("lref", "rref"):
        return 1 + type_size(t[1])
    if k == "arr":
        return 1 + type_size(t[2])
    if k == "memptr":
        return 2 + (1 if t[2] else 0) + type_size(t[3])
    if k == "fn":
        return 1 + type_size(t[1]) + sum(type_size(p) for p in t[2]) + (1 if t[3] else 0)
    raise ValueError(k)


def decl_size(d):
    if d["kind"] in ("func", "method", "smethod"):
        return type_size(d["ret"]) + sum(type_size(p) for p in d["params"]) + (1 if d.get("cvq") else 0) + \
            (1 if d.get("virtual") else 0) + (0 if d.get("pnames", True) else 1) + \
            (0 if d["ret"] == VOID else 1)
    return type_size(d["type"])


def layers_of(t, acc=None):
    """feature signatures of a type: every (outer, inner) pair of adjacent constructors + base descriptions."""
    acc = set() if acc is None else acc
    k = t[0]
    if k == "ell":
        acc.add("ellipsis")
        return acc

    def head(x):
        if x[0] == "ell":
            return "ellipsis"
        return x[0] if x[0] not in ("base", "tmpl") else ("tmpl" if x[0] == "tmpl" else "base")
    if k == "base":
        acc.add("base:" + t[5] + ("/" + t[2].replace(" ", "+") if t[2] else "") + ("/elab" if t[4] else "") +
                ("/west" if (t[2] and t[3]) else ""))
    elif k == "tmpl":
        acc.add("tmpl:" + t[5] + ":" + str(len(t[2])))
        for a in t[2]:
            if a[0] != "int":
                acc.add("targ>" + head(a))
                layers_of(a, acc)
            else:
                acc.add("targ>intexpr")
    elif k == "ptr":
        acc.add("ptr" + ("/" + t[1].replace(" ", "+") if t[1] else "") + ">" + head(t[2]))
        layers_of(t[2], acc)
    elif k in ("lref", "rref"):
        acc.add(k + ">" + head(t[1]))
        layers_of(t[1], acc)
    elif k == "arr":
        acc.add(("arr>" if isinstance(t[1], int) else "arr[tparam]>") + head(t[2]))
        layers_of(t[2], acc)
    elif k == "memptr":
        acc.add("memptr>" + head(t[3]))
        layers_of(t[3], acc)
    elif k == "fn":
        acc.add("fn>" + head(t[1]))
        layers_of(t[1], acc)
        for p in t[2]:
            acc.add("fnparam>" + head(p))
            layers_of(p, acc)
    return acc


VOID = ["base", "void", "", True, "", "void"]
INT = ["base", "int", "", True, "", "int"]


# ---------------------------------------------------------------------------
# reduction candidates
# ---------------------------------------------------------------------------

def type_candidates(t):
    """single-step simplifications of a type (may be ill-formed; the reference compiler filters)."""
    out = []
    k = t[0]
    if k == "ell":
        return out

    def add(x):
        if x != t and x not in out:
            out.append(x)
    if k == "base":
        if t[2]:
            add(["base", t[1], "", True, t[4], t[5]])
            if " " in t[2]:
                for one in t[2].split():
                    add(["base", t[1], one, t[3], t[4], t[5]])
            if t[3]:
                add(["base", t[1], t[2], False, t[4], t[5]])
        if t[4]:
            add(["base", t[1], t[2], t[3], "", t[5]])
        if t[5] != "int" and t[1] != "void":
            add(["base", "int", t[2], t[3], "", "int"])
            # canonical named types (always present in the environment): a class and a typedef at global scope
            if t[1] != "G":
                add(["base", "G", t[2], t[3], "", "class/qual"])
            if t[1] not in ("G", "I32"):
                add(["base", "I32", t[2], t[3], "", "typedef/qual"])
        return out
    if k == "tmpl":
        add(["base", "int", t[3], t[4], "", "int"])
        add(["base", "G", t[3], t[4], "", "class/qual"])
        if t[3]:
            add(["tmpl", t[1], t[2], "", True, t[5]])
        for i, a in enumerate(t[2]):
            if a[0] == "int":
                if a[1] != "2":
                    add(["tmpl", t[1], t[2][:i] + [["int", "2"]] + t[2][i + 1:], t[3], t[4], t[5]])
            else:
                for c in type_candidates(a):
                    add(["tmpl", t[1], t[2][:i] + [c] + t[2][i + 1:], t[3], t[4], t[5]])
                add(a)            # the argument itself
        if len(t[2]) > 1:
            add(["tmpl", t[1], t[2][:-1], t[3], t[4], t[5]])
        return out
    if k == "ptr":
        add(t[2] if t[2][0] != "fn" else t[2][1])
        if t[1]:
            add(["ptr", "", t[2]])
            if " " in t[1]:
                for one in t[1].split():
                    add(["ptr", one, t[2]])
        for c in type_candidates(t[2]):
            add(["ptr", t[1], c])
        return out
    if k in ("lref", "rref"):
        add(t[1] if t[1][0] != "fn" else t[1][1])
        if k == "rref":
            add(["lref", t[1]])
        for c in type_candidates(t[1]):
            add([k, c])
        return out
    if k == "arr":
        add(t[2])
        for c in type_candidates(t[2]):
            add(["arr", t[1], c])
        return out
    if k == "memptr":
        add(t[3] if t[3][0] != "fn" else t[3][1])
        if t[2]:
            add(["memptr", t[1], "", t[3]])
            if " " in t[2]:
                for one in t[2].split():
                    add(["memptr", t[1], one, t[3]])
        add(["ptr", t[2], t[3]])
        if t[1] != "G":
            add(["memptr", "G", t[2], t[3]])
        for c in type_candidates(t[3]):
            add(["memptr", t[1], t[2], c])
        return out
    if k == "fn":
        for i in range(len(t[2])):
            add(["fn", t[1], t[2][:i] + t[2][i + 1:], t[3]])
        if t[3]:
            add(["fn", t[1], t[2], ""])
        for c in type_candidates(t[1]):
            add(["fn", c, t[2], t[3]])
        for i, p in enumerate(t[2]):
            for c in type_candidates(p):
                add(["fn", t[1], t[2][:i] + [c] + t[2][i + 1:], t[3]])
        return out
    return out


def subterms(t):
    """proper sub-types that could stand on their own."""
    out = []
    k = t[0]
    kids = []
    if k == "ptr":
        kids = [t[2]]
    elif k in ("lref", "rref"):
        kids = [t[1]]
    elif k == "arr":
        kids = [t[2]]
    elif k == "memptr":
        kids = [t[3]]
    elif k == "fn":
        kids = [t[1]] + list(t[2])
    elif k == "tmpl":
        kids = [a for a in t[2] if a[0] != "int"]
    for c in kids:
        if c[0] == "ell":
            continue
        if c[0] != "fn":
            out.append(c)
        out.extend(subterms(c))
    return out


def _context_dependent(d):
    sig = decl_signature(d)
    return any(x in sig for x in ("/unq-", "/relqual", "/via-derived", "tmpl-member"))


def decl_candidates(d):
    """simpler declarations (same site, same kind); each keeps the fields needed by render_decl."""
    out = []

    def add(x):
        if x != d and x not in out:
            out.append(x)
    if d["kind"] in ("func", "method", "smethod"):
        ps = d["params"]
        base = dict(d)
        # isolate one component
        for i in range(len(ps)):
            if ps[i][0] != "ell":
                add(dict(base, params=[ps[i]], ret=VOID, cvq="", virtual=False, pnames=True))
        add(dict(base, params=[], cvq="", virtual=False, pnames=True))
        for i in range(len(ps)):
            add(dict(base, params=ps[:i] + ps[i + 1:]))
        if d["ret"] != VOID:
            add(dict(base, ret=VOID))
        if d.get("cvq"):
            add(dict(base, cvq=""))
        if d.get("virtual"):
            add(dict(base, virtual=False))
        if not d.get("pnames", True):
            add(dict(base, pnames=True))
        if d["kind"] != "func" and not _context_dependent(d):
            # the same declaration as a free function (spellings that depend on the class scope stay where they are)
            add(dict(base, kind="func", site="global", cvq="", virtual=False, name="f_0"))
        for s in subterms(d["ret"]):
            add(dict(base, ret=s))
        for c in type_candidates(d["ret"]):
            add(dict(base, ret=c))
        for i, p in enumerate(ps):
            for s in subterms(p):
                add(dict(base, params=ps[:i] + [s] + ps[i + 1:]))
            for c in type_candidates(p):
                add(dict(base, params=ps[:i] + [c] + ps[i + 1:]))
    else:
        if d["kind"] == "member" and not _context_dependent(d):
            add(dict(d, kind="var", site="global", name="v_0"))
        if d["kind"] == "alias":
            add(dict(d, kind="typedef", name="T_0"))
        for s in subterms(d["type"]):
            add(dict(d, type=s))
        for c in type_candidates(d["type"]):
            add(dict(d, type=c))
    return [copy.deepcopy(x) for x in out]


def decl_signature(d):
    """key signature of a (minimised) declaration: the non-trivial components only."""
    if d["kind"] in ("func", "method", "smethod"):
        parts = []
        if d["ret"] != VOID:
            parts.append("ret=" + struct_str(d["ret"]))
        for p in d["params"]:
            parts.append("param=" + struct_str(p))
        if d.get("cvq"):
            parts.append("cvq=" + d["cvq"])
        if d.get("virtual"):
            parts.append("virtual")
        if not d.get("pnames", True) and any(p[0] != "ell" for p in d["params"]):
            parts.append("unnamed-params")
        site = "" if d["kind"] == "func" else ("static-method:" if d["kind"] == "smethod" else "method:")
        return site + (",".join(parts) or "void(void)")
    return {"var": "var=", "member": "member=", "typedef": "typedef=", "alias": "alias="}[d["kind"]] + \
        struct_str(d["type"])


# ---------------------------------------------------------------------------
# the universe of named types
# ---------------------------------------------------------------------------

class Scope:
    def __init__(self, name, kind, parent):
        self.name, self.kind, self.parent = name, kind, parent
        self.types = {}
        self.usings = {}
        self.dirs = []
        self.bases = []

    def path(self):
        p, s = [], self
        while s is not None and s.parent is not None:
            p.append(s.name)
            s = s.parent
        return list(reversed(p))

    def find_local(self, name, seen=None):
        seen = seen or set()
        if id(self) in seen:
            return None
        seen.add(id(self))
        if self.kind == "class" and name == self.name and getattr(self, "atom", None) is not None:
            return self.atom, "injected"
        if name in self.types:
            return self.types[name], "local"
        if name in self.usings:
            return self.usings[name], "usingdecl"
        for bi, b in enumerate(self.bases):
            r = b.find_local(name, seen)
            if r:
                if r[1] in ("injected", "injected-base"):
                    return r[0], "injected-base"
                if len(self.bases) == 1:
                    return r[0], "base"
                pos = "first" if bi == 0 else ("last" if bi == len(self.bases) - 1 else "middle")
                return r[0], "mbase-" + pos
        for dscope in self.dirs:
            r = dscope.find_local(name, seen)
            if r:
                return r[0], "usingdir"
        return None


def lookup(site, name):
    s, first = site, True
    while s is not None:
        r = s.find_local(name)
        if r:
            via = r[1]
            if via == "local" and not first:
                via = "outer"
            return r[0], via
        s = s.parent
        first = False
    return None


class Atom:
    def __init__(self, name, scope, kind, nparams=None):
        self.name, self.scope, self.kind, self.nparams = name, scope, kind, nparams

    def qual(self):
        return "::".join(self.scope.path() + [self.name])


class Universe:
    """builds the environment lines and remembers which names exist where."""

    def __init__(self, rng):
        self.rng = rng
        self.glob = Scope("", "global", None)
        self.env = []
        self.late_env = []
        self.atoms = []
        self.ns_alias = {}      # alias name -> Scope
        self.n = 0
        self.int_consts = ["2", "3", "1+2", "(4-1)", "sizeof(char)+1"]

    def line(self, cls, text, late=False):
        self.n += 1
        (self.late_env if late else self.env).append({"id": f"e{self.n}", "cls": cls, "text": text})

    def ns(self, parent, name):
        key = "ns:" + name
        if key not in parent.__dict__.setdefault("_ns", {}):
            parent._ns[key] = Scope(name, "ns", parent)
        return parent._ns[key]

    def add(self, scope, name, kind, nparams=None):
        a = Atom(name, scope, kind, nparams)
        scope.types[name] = a
        self.atoms.append(a)
        if kind in ("class", "tmplclass"):
            a.inner = Scope(name, "class", scope)
            a.inner.atom = a
        return a

    def build(self):
        r = self.rng
        g = self.glob
        na = self.ns(g, "na")
        nb = self.ns(na, "nb")
        nc = self.ns(g, "nc")
        self.na, self.nb, self.nc = na, nb, nc
        S = self.add(na, "S", "class")
        self.add(S.inner, "In", "class")
        self.add(S.inner, "TI", "typedef")
        self.add(S.inner, "E", "enum")
        self.line("class-def", "namespace na { struct S { int m; struct In { int q; }; typedef int TI; enum E { e1, e2 }; "
                               "int sf(int) const; }; }")
        self.add(na, "SP", "typedef")
        self.add(na, "EC", "eclass")
        self.line("typedef+enum-class", "namespace na { typedef S *SP; enum class EC { x, y }; }")
        self.add(na, "Tm", "tmpl", (1, 2))
        self.line("class-template", "namespace na { template<class T, int N = 3> struct Tm { T a[N]; typedef T value_type; }; }")
        self.add(na, "Dflt", "tmpl", (0, 2))
        self.line("class-template-default-args", "namespace na { template<class T = int, class U = T *> struct Dflt { U v; }; }")
        bS = self.add(nb, "S", "class")
        Q = self.add(nb, "Q", "class")
        self.add(Q.inner, "In", "class")
        self.add(nb, "OuterS", "typedef")
        self.add(nb, "EA", "alias")
        self.line("nested-namespace", "namespace na { namespace nb { struct S { int z; }; struct Q { struct In { }; }; "
                                      "typedef na::S OuterS; using EA = na::S::E; } }")
        cQ = self.add(nc, "Q", "class")
        R = self.add(nc, "R", "class")
        self.add(R.inner, "QP", "typedef")
        self.line("class-def", "namespace nc { struct Q { }; struct R { typedef Q *QP; }; }")
        G = self.add(g, "G", "class")
        self.add(G.inner, "In", "class")
        self.add(G.inner, "TI", "typedef")
        self.add(G.inner, "E", "enum")
        self.line("class-def", "struct G { struct In { int w; }; typedef long TI; enum E { g1 }; int gm; int gf(int) const; };")
        self.add(g, "TmI", "typedef")
        self.add(g, "UA", "alias")
        self.line("typedef-of-template-id", "typedef na::Tm<int> TmI; using UA = na::Tm<na::S, 2>;")
        for n in ("I32", "I32b", "FP", "Arr3", "CStr"):
            self.add(g, n, "typedef")
        self.line("typedef-chain", "typedef int I32; typedef I32 I32b; typedef int (*FP)(int); typedef int Arr3[3]; "
                                   "typedef const char *CStr;")
        self.line("explicit-specialisation",
                  "template<class T> struct Tr { typedef T *type; typedef T elem; }; "
                  "template<> struct Tr<int> { typedef long type; typedef unsigned short elem; }; "
                  "namespace na { template<class T, int N = 1> struct Qs { typedef T type[N]; }; "
                  "template<> struct Qs<bool> { typedef unsigned char type; }; "
                  "template<> struct Qs<char, 3> { typedef const char *type; }; }")
        self.add(g, "GE", "enum")
        self.add(g, "GEC", "eclass")
        self.line("enum", "enum GE { ge1 }; enum class GEC : short { c1 };")
        ML = self.add(g, "MLinked", "class")
        self.mi_names = [self.add(ML.inner, "MTag", "typedef"), self.add(ML.inner, "MNode", "class"),
                         self.add(ML.inner, "MMode", "enum")]
        MC = self.add(g, "MCounted", "class")
        MN = self.add(g, "MNamed", "class")
        self.mi_names.append(self.add(MN.inner, "MLabel", "typedef"))
        self.mi_bases = (ML, MC, MN)
        self.line("multiple-inheritance-bases",
                  "struct MLinked { typedef double MTag; struct MNode { MNode *next; }; enum MMode { mm_fast, mm_slow }; }; "
                  "struct MCounted { int count; }; struct MNamed { typedef const char *MLabel; };")
        # same-named types in the enclosing scope for two of the four names
        self.add(g, "MTag", "typedef")
        self.add(g, "MNode", "class")
        self.line("shadowed-outer-names", "typedef int MTag; struct MNode { int id; };")
        if r.random() < 0.7:
            D1 = self.add(na, "D1", "class")
            D1.inner.bases.append(S.inner)
            self.add(D1.inner, "DIn", "class")
            self.line("derived-class", "namespace na { struct D1 : S { struct DIn { }; }; }")
        if r.random() < 0.7:
            self.add(g, "IV", "tmplint", (1, 1))
            self.int_consts += ["K3", "(kFour-1)"]
            self.line("nontype-template", "template<int N> struct IV { char b[N]; }; enum { K3 = 3 }; constexpr int kFour = 4;")
        if r.random() < 0.6:
            W = self.add(g, "Wrap", "tmplnest", (1, 1))
            self.add(g, "PtrT", "tmplalias", (1, 1))
            self.line("alias-template", "template<class T> using PtrT = T *; template<class T> struct Wrap { typedef T type; struct Inner { }; };")
        if r.random() < 0.6:
            self.add(g, "Fwd", "fwdclass")
            self.line("forward-decl", "struct Fwd; class Fwc;")
        if r.random() < 0.5:
            inl = self.ns(g, "inl")
            self.add(inl, "IS", "class")
            g.dirs.append(inl)
            self.line("inline-namespace", "inline namespace inl { struct IS { }; }")
        if r.random() < 0.5:
            self.ns_alias["nal"] = nb
            self.line("namespace-alias", "namespace nal = na::nb;")
        if r.random() < 0.5:
            nc.dirs.append(nb)
            self.line("using-directive", "namespace nc { using namespace na::nb; }")
        if r.random() < 0.5:
            nc.usings["Tm"] = na.types["Tm"]
            nc.usings["S"] = S
            self.line("using-declaration-in-namespace", "namespace nc { using na::Tm; using na::S; }")
        if r.random() < 0.35:
            self.line("virtual-base-no-access", "struct PV0 { virtual void g() = 0; }; struct VB : virtual PV0 { void g(); };")
        # placed after the host classes: visible to the global declarations only
        self.late_ops = []
        if r.random() < 0.5:
            self.late_ops.append(lambda: g.usings.__setitem__("Q", Q))
            self.line("using-declaration", "using na::nb::Q;", late=True)
        if r.random() < 0.4:
            self.late_ops.append(lambda: g.dirs.append(nc))
            self.line("using-directive", "using namespace nc;", late=True)
        return self

    def apply_late(self):
        for op in self.late_ops:
            op()
        self.late_ops = []

    # -- spelling of an atom as seen from `site`
    def spell(self, atom, site):
        """-> (spelling, via)"""
        r = self.rng
        if atom.kind == "builtin":
            return atom.name, "builtin"
        opts = []
        found = lookup(site, atom.name)
        if found:
            opts += [("unq", found[1])] * 3
        q = atom.qual()
        opts += [("qual", ""), ("qual", ""), ("abs", "")]
        sp = site.path()
        ap = atom.scope.path()
        k = 0
        while k < len(sp) and k < len(ap) and sp[k] == ap[k]:
            k += 1
        if 0 < k < len(ap):
            opts.append(("rel", str(k)))
        for al, sc in self.ns_alias.items():
            p = sc.path()
            if ap[:len(p)] == p:
                opts.append(("nsalias", al))
        # names of a base class reached through a derived class
        for other in self.atoms:
            if other.kind == "class" and getattr(other, "inner", None) and atom.scope in other.inner.bases:
                opts.append(("derived", other.qual()))
        style, arg = r.choice(opts)
        if style == "unq":
            act = found[0]
            return atom.name, act.kind_desc() + "/unq-" + arg
        if style == "qual":
            return q, atom.kind_desc() + "/qual"
        if style == "abs":
            return "::" + q, atom.kind_desc() + "/absqual"
        if style == "rel":
            return "::".join(ap[int(arg):] + [atom.name]), atom.kind_desc() + "/relqual"
        if style == "nsalias":
            p = self.ns_alias[arg].path()
            return "::".join([arg] + ap[len(p):] + [atom.name]), atom.kind_desc() + "/nsalias"
        if style == "derived":
            return arg + "::" + atom.name, atom.kind_desc() + "/via-derived"
        raise ValueError(style)


def _kind_desc(self):
    k = self.kind
    nested = self.scope.kind == "class"
    if k == "class":
        return "nested-class" if nested else "class"
    if k in ("enum", "eclass"):
        return ("nested-" if nested else "") + ("enum" if k == "enum" else "enum-class")
    if k in ("typedef", "alias"):
        return ("nested-" if nested else "") + k
    return k


Atom.kind_desc = _kind_desc


# ---------------------------------------------------------------------------
# random types and declarations
# ---------------------------------------------------------------------------

class DeclGen:
    def __init__(self, rng, depth=3):
        self.rng = rng
        self.depth = depth
        self.u = Universe(rng).build()
        self.hosts = []
        self.host_scopes = {}
        self.decls = []
        self.nid = 0

    def cv(self, p=0.3):
        r = self.rng.random()
        if r > p:
            return ""
        return self.rng.choice(["const", "const", "volatile", "const volatile"])

    def gen_base(self, site, depth, allow_void=False):
        r = self.rng
        x = r.random()
        west = r.random() < 0.6
        if allow_void and x < 0.08:
            return ["base", "void", self.cv(0.15), west, "", "void"]
        if x < 0.3:
            b = r.choice(BUILTINS)
            return ["base", b, self.cv(), west, "", "int" if b == "int" else "builtin"]
        atoms = self.u.atoms
        a = r.choice(atoms)
        if getattr(self, "force_atoms", None) and r.random() < 0.75:
            fa = r.choice(self.force_atoms)
            return ["base", fa.name, self.cv(0.2), west, "", fa.kind_desc() + "/unq-" + (lookup(site, fa.name) or (None, "none"))[1]]
        if a.kind in ("tmpl", "tmplint", "tmplnest", "tmplalias"):
            sp, desc = self.u.spell(a, site)
            lo, hi = a.nparams
            n = r.randint(lo, hi)
            args = []
            if a.kind == "tmplint":
                args = [["int", r.choice(self.u.int_consts)]]
            else:
                for i in range(n):
                    if a.name == "Tm" and i == 1:
                        args.append(["int", r.choice(self.u.int_consts)])
                    else:
                        args.append(self.gen_type(site, max(0, depth - 1), "targ"))
            t = ["tmpl", sp, args, self.cv(), west, desc]
            if a.kind == "tmplnest" and r.random() < 0.7:
                # a member of the instantiation: Wrap<X>::type / Wrap<X>::Inner
                mem = r.choice(["type", "Inner"])
                inner = spec_str(["tmpl", sp, args, "", True, desc])
                lead = ""
                for tok in ("::", "volatile", "const"):
                    if args and render_arg(args[0]).startswith(tok):
                        lead = "^" + tok
                return ["base", inner + "::" + mem, self.cv(), west, "", "tmpl-member-" + mem + lead]
            return t
        sp, desc = self.u.spell(a, site)
        elab = ""
        if a.kind in ("class", "fwdclass") and r.random() < 0.2:
            elab = r.choice(["struct", "class"])
        elif a.kind == "enum" and r.random() < 0.25:
            elab = "enum"
        if a.kind == "fwdclass":
            desc = "fwd-class/" + desc.split("/")[1]
            if r.random() < 0.5:
                sp = sp.replace("Fwd", "Fwc")
        return ["base", sp, self.cv(), west, elab, desc]

    def class_spelling(self, site):
        cands = [a for a in self.u.atoms if a.kind == "class"]
        a = self.rng.choice(cands)
        # no leading `::` here: `T ::C::*` would be read as `T::C::*` after a named type
        return self.u.spell(a, site)[0].lstrip(":")

    def gen_type(self, site, depth, ctx):
        r = self.rng
        nl = r.choice([0, 0, 0, 1, 1, 1, 2, 2, 3, 4, 5][: 4 + 2 * depth]) if depth > 0 else 0
        t = self.gen_base(site, depth, allow_void=(ctx in ("ret", "param") and True))
        is_void = (t[0] == "base" and t[1] == "void")
        if is_void and nl == 0 and ctx != "ret":
            nl = 1
        for i in range(nl):
            last = (i == nl - 1)
            k = t[0]
            opts = []
            if k not in ("lref", "rref"):
                opts += ["ptr", "ptr", "ptr"]
                if k != "fn" and not (k == "base" and t[1] == "void"):
                    opts += ["arr"]
                if k not in ("arr", "fn"):
                    opts += ["fn"]
                if not (k == "base" and t[1] == "void"):
                    opts += ["memptr"]
                if last and not (k == "base" and t[1] == "void") and ctx not in ("targ",):
                    opts += ["lref", "lref", "rref"]
            if k == "fn":
                opts = ["ptr", "ptr", "memptr"] + (["lref"] if last else [])
            if not opts:
                break
            c = r.choice(opts)
            if c == "ptr":
                t = ["ptr", self.cv(0.25), t]
            elif c == "arr":
                t = ["arr", r.choice([2, 3, 4]), t]
            elif c == "fn":
                np_ = r.choice([0, 1, 1, 2])
                ps = [self.gen_type(site, 0 if depth < 2 else 1, "param") for _ in range(np_)]
                t = ["fn", t, ps, ""]
            elif c == "memptr":
                if t[0] == "fn" and r.random() < 0.5:
                    t = ["fn", t[1], t[2], r.choice(["", "const"])]
                t = ["memptr", self.class_spelling(site), self.cv(0.15), t]
            elif c == "lref":
                t = ["lref", t]
            elif c == "rref":
                t = ["rref", t]
        if t[0] == "fn":
            t = ["ptr", "", t]
        if ctx == "ret" and t[0] == "arr":
            t = ["ptr", "", t]
        if ctx in ("var", "member", "typedef", "targ") and t[0] == "base" and t[1] == "void":
            t = ["ptr", "", t]
        return t

    def new_host(self, k):
        r = self.rng
        u = self.u
        where = r.choice([u.glob, u.na, u.nb, u.nc])
        name = f"H{k}"
        a = u.add(where, name, "class")
        u.atoms.remove(a)            # hosts are not used as parameter types
        sc = a.inner
        base_txt = ""
        if r.random() < 0.45:
            cands = [x for x in u.atoms if x.kind == "class" and x.scope.kind == "ns" or (x.kind == "class" and x.name == "G")]
            b = r.choice(cands)
            sc.bases.append(b.inner)
            base_txt = " : " + r.choice(["public ", "public ", ""]) + u.spell(b, where)[0]
        nested = []
        if r.random() < 0.5:
            for nm, txt, kind in r.sample([("S", "struct S { int hs; };", "class"), ("TI", "typedef short TI;", "typedef"),
                                           ("E", "enum E { h1 };", "enum"), ("Q", "using Q = unsigned;", "alias"),
                                           ("In", "struct In { };", "class")], r.choice([1, 2])):
                nested.append(txt)
                u.add(sc, nm, kind)
        p = where.path()
        opn = "".join(f"namespace {x} {{ " for x in p) + f"struct {name}{base_txt} {{"
        cls = "};" + " }" * len(p)
        h = {"id": f"h{k}", "open": opn, "close": cls, "qual": "::".join(p + [name]), "nested": nested}
        self.hosts.append(h)
        self.host_scopes[h["id"]] = sc
        return h

    def new_mi_host(self, k, shape):
        """host deriving from several classes; the nested names come from a base at the given position"""
        u = self.u
        ML, MC, MN = u.mi_bases
        order = {"single": [ML], "first": [ML, MC], "last": [MC, ML], "three": [MC, MN, ML],
                 "three-first": [ML, MN, MC]}[shape]
        where = self.rng.choice([u.glob, u.glob, u.na])
        name = f"H{k}"
        a = u.add(where, name, "class")
        u.atoms.remove(a)
        for b in order:
            a.inner.bases.append(b.inner)
        p = where.path()
        acc = self.rng.choice(["", "public "])
        opn = "".join(f"namespace {x} {{ " for x in p) + f"struct {name} : " + ", ".join(acc + b.name for b in order) + " {"
        h = {"id": f"h{k}", "open": opn, "close": "};" + " }" * len(p), "qual": "::".join(p + [name]), "nested": [],
             "mi": shape}
        self.hosts.append(h)
        self.host_scopes[h["id"]] = a.inner
        return h

    def new_mi_decl(self, site_id):
        """plain uses of the names inherited from the bases (kept simple so that nothing else can fail)"""
        r = self.rng
        site = self.host_scopes[site_id]
        names = [a for a in self.u.mi_names if (lookup(site, a.name) or (None, ""))[1].startswith(("base", "mbase"))]
        self.nid += 1
        k = self.nid

        def ty():
            a = r.choice(names)
            b = ["base", a.name, "", True, "", a.kind_desc() + "/unq-" + lookup(site, a.name)[1]]
            sh = r.choice(["v", "v", "p", "cr", "cp", "pcp"])
            if sh == "v":
                return b
            if sh == "p":
                return ["ptr", "", b]
            cb = ["base", a.name, "const", r.random() < 0.5, "", b[5]]
            if sh == "cr":
                return ["lref", cb]
            if sh == "cp":
                return ["ptr", "", cb]
            return ["ptr", "", ["ptr", "const", b]]
        kind = r.choice(["method", "method", "method", "smethod", "member"])
        if kind == "member":
            d = {"id": k, "name": f"dm_{k}", "kind": kind, "site": site_id, "type": ty()}
        else:
            d = {"id": k, "name": ("m" if kind == "method" else "sm") + f"_{k}", "kind": kind, "site": site_id,
                 "ret": ty() if r.random() < 0.6 else list(VOID), "params": [ty() for _ in range(r.choice([0, 1, 1, 2]))],
                 "pnames": r.random() < 0.8, "cvq": ("const" if kind == "method" and r.random() < 0.3 else ""), "virtual": False}
            if d["ret"] == VOID and not d["params"]:
                d["params"] = [ty()]
        self.decls.append(d)
        return d

    def new_tparam_host(self, k):
        """class template whose member arrays are bounded by a non-type template parameter (element types do not
        depend on template parameters), used through a typedef / alias of one instantiation"""
        r = self.rng
        u = self.u
        name = f"TB{k}"
        a = u.add(u.glob, name, "class")
        u.atoms.remove(a)
        arg = r.choice(["16", "5", "1+2", "(4-1)", f"VK{k}", f"VK{k}+1"])
        alias = f"TBI{k}"
        post = (f"typedef {name}<{arg}> {alias};" if r.random() < 0.5 else f"using {alias} = {name}<{arg}>;")
        h = {"id": f"h{k}", "pre": f"enum {{ VK{k} = 6 }};", "open": f"template<int K> struct {name} {{", "close": "};",
             "qual": f"{name}<{arg}>", "anchor": alias, "post": post, "nested": [], "tparam": True}
        self.hosts.append(h)
        self.host_scopes[h["id"]] = a.inner
        return h

    def new_chain_host(self, k, variant):
        """class template with chained default template arguments; instantiated with >= 2 trailing arguments omitted"""
        r = self.rng
        u = self.u
        name = f"TD{k}"
        a = u.add(u.glob, name, "class")
        u.atoms.remove(a)
        alias = f"TDI{k}"
        if variant == "type":
            head = f"template<class T, class U = T *, class W = const U *> struct {name} {{"
            arg = r.choice(["int", "char", "G"])
        else:
            head = f"template<int N = 2, int M = N + 1, int L = M * 2> struct {name} {{"
            arg = r.choice(["", "4", "1+2"])
        post = (f"typedef {name}<{arg}> {alias};" if r.random() < 0.5 else f"using {alias} = {name}<{arg}>;")
        h = {"id": f"h{k}", "open": head, "close": "};", "qual": f"{name}<{arg}>", "anchor": alias, "post": post,
             "nested": [], "tparam": True}
        self.hosts.append(h)
        self.host_scopes[h["id"]] = a.inner
        for _ in range(4):
            self.nid += 1
            kk = self.nid
            if variant == "type":
                b = lambda n: ["base", n, "", True, "", "tparam-with-chained-default"]
                t = r.choice([b("U"), b("W"), ["ptr", "", b("W")], ["lref", ["base", "U", "const", True, "", "tparam-with-chained-default"]],
                              ["ptr", "", b("U")]])
            else:
                el = r.choice([list(INT), ["base", "char", "", True, "", "builtin"]])
                t = r.choice([["arr", "M", el], ["arr", "L", el], ["ptr", "", ["arr", "M", el]], ["arr", "N", ["arr", "L", el]]])
            kind = r.choice(["member", "member", "method", "smethod"])
            if kind == "member":
                if t[0] == "lref":
                    t = t[1]
                self.decls.append({"id": kk, "name": f"dm_{kk}", "kind": "member", "site": h["id"], "type": t})
            else:
                self.decls.append({"id": kk, "name": ("m" if kind == "method" else "sm") + f"_{kk}", "kind": kind, "site": h["id"],
                                   "ret": list(VOID), "params": [t], "pnames": True, "cvq": "", "virtual": False})
        return h

    def specialisation_members(self):
        """qualified names of members of explicit full specialisations (and of the primary template, as control)"""
        r = self.rng
        names = ["Tr<int>::type", "Tr<int>::elem", "Tr<char>::type", "Tr<bool>::elem", "na::Qs<bool>::type",
                 "na::Qs<char, 3>::type", "na::Qs<float>::type", "na::Qs<char, 2>::type"]
        for nm in r.sample(names[:2], 1) + r.sample(names[2:4], 1) + r.sample(names[4:6], 1) + r.sample(names[6:], 1):
            self.nid += 1
            k = self.nid
            b = ["base", nm, "", True, "", "spec-member" if nm in names[:2] + names[4:6] else "primary-member"]
            t = r.choice([b, ["ptr", "", b], ["lref", ["base", nm, "const", True, "", b[5]]]])
            if r.random() < 0.5:
                self.decls.append({"id": k, "name": f"v_{k}", "kind": "var", "site": "global", "type": t if t[0] != "lref" else b})
            else:
                self.decls.append({"id": k, "name": f"f_{k}", "kind": "func", "site": "global", "ret": list(VOID), "params": [t],
                                   "pnames": True, "cvq": "", "virtual": False})

    def kbound_type(self, ctx):
        """array types whose bound is the template parameter K; non-dependent element types"""
        r = self.rng
        el = r.choice([["base", "char", "", True, "", "builtin"], list(INT), ["base", "unsigned short", "const", True, "", "builtin"],
                       ["base", "G", "", True, "", "class/qual"], ["ptr", "const", ["base", "char", "const", True, "", "builtin"]]])
        shape = r.choice(["a1", "a2", "a2b", "pa"] if ctx == "member" else ["pa", "ra", "a1p", "a2p", "pa"])
        if shape == "a1":
            return ["arr", "K", el]
        if shape == "a2":
            return ["arr", "K", ["arr", 4, el]]
        if shape == "a2b":
            return ["arr", 3, ["arr", "K", el]]
        if shape == "pa":
            return ["ptr", "", ["arr", "K", el]]
        if shape == "ra":
            return ["lref", ["arr", "K", el]]
        if shape == "a1p":
            return ["arr", "K", el]
        return ["arr", "K", ["arr", 4, el]]

    def new_tparam_decl(self, site_id):
        r = self.rng
        self.nid += 1
        k = self.nid
        kind = r.choice(["member", "member", "method", "method", "smethod"])
        if kind == "member":
            d = {"id": k, "name": f"dm_{k}", "kind": kind, "site": site_id, "type": self.kbound_type("member")}
        else:
            ret = r.choice(["void", "pa", "ra"])
            rt = list(VOID) if ret == "void" else (["ptr", "", ["arr", "K", list(INT)]] if ret == "pa" else
                                                   ["lref", ["arr", "K", ["base", "char", "const", True, "", "builtin"]]])
            d = {"id": k, "name": ("m" if kind == "method" else "sm") + f"_{k}", "kind": kind, "site": site_id, "ret": rt,
                 "params": [self.kbound_type("param") for _ in range(r.choice([0, 0, 1]) if ret != "void" else 1)],
                 "pnames": r.random() < 0.8, "cvq": ("const" if kind == "method" and r.random() < 0.3 else ""), "virtual": False}
        self.decls.append(d)
        return d

    def _simple(self, name, cv=""):
        return ["base", name, cv, True, "", "int" if name == "int" else "builtin"]

    def variadic_twins(self):
        """pairs of function types that are identical (parameter names included) except for a trailing ellipsis:
        function-pointer variables, free functions (declared after the late usings) and methods of one host"""
        r = self.rng
        pools = [[["ptr", "", self._simple("char", "const")]], [self._simple("int"), self._simple("double")],
                 [self._simple("int"), ["ptr", "", self._simple("char", "const")]], [self._simple("long")],
                 [["ptr", "", self._simple("void")], self._simple("unsigned int")]]
        r.shuffle(pools)
        self.late_twins = []

        def pair(mk):
            ps = pools.pop()
            ret = r.choice([list(VOID), self._simple("int")])
            order = [True, False] if r.random() < 0.5 else [False, True]
            for ell in order:
                self.nid += 1
                mk(self.nid, copy.deepcopy(ret), copy.deepcopy(ps) + ([["ell"]] if ell else []))
        pair(lambda k, ret, ps: self.decls.append(
            {"id": k, "name": f"v_{k}", "kind": "var", "site": "global", "type": ["ptr", "", ["fn", ret, ps, ""]]}))
        host = r.choice([h for h in self.hosts if not h.get("tparam")])["id"]
        cvq = r.choice(["", "const"])
        pair(lambda k, ret, ps: self.decls.append(
            {"id": k, "name": f"m_{k}", "kind": "method", "site": host, "ret": ret, "params": ps, "pnames": True,
             "cvq": cvq, "virtual": False}))
        pair(lambda k, ret, ps: self.decls.append(
            {"id": k, "name": f"f_{k}", "kind": "func", "site": "global", "ret": ret, "params": ps, "pnames": True,
             "cvq": "", "virtual": False}))

    def fn_template_args(self):
        """template arguments that are function(-pointer) types whose parenthesised parameter list contains another
        template-id followed by a comma"""
        r = self.rng
        tm = lambda a: ["tmpl", "na::Tm", [a], "", True, "tmpl/qual"]
        df = lambda *a: ["tmpl", "na::Dflt", list(a), "", True, "tmpl/qual"]
        ch = self._simple("char")
        it = self._simple("int")
        shapes = [df(["ptr", "", ["fn", it, [tm(it), ch], ""]]),
                  df(tm(ch), ["ptr", "", ["fn", it, [df(it, ch), tm(ch)], ""]]),
                  ["tmpl", "na::Tm", [["ptr", "", ["fn", list(VOID), [tm(it), df(ch), it], ""]], ["int", "2"]], "", True,
                   "tmpl/qual"],
                  df(["ptr", "", ["fn", list(VOID), [["lref", tm(it)], ["ptr", "", df(tm(ch))], it], ""]])]
        for t in r.sample(shapes, 2):
            self.nid += 1
            k = self.nid
            kind = r.choice(["func", "func", "var"])
            if kind == "var":
                self.decls.append({"id": k, "name": f"v_{k}", "kind": "var", "site": "global", "type": ["ptr", "", t]})
            else:
                self.decls.append({"id": k, "name": f"f_{k}", "kind": "func", "site": "global", "ret": list(VOID),
                                   "params": [r.choice([["ptr", "", t], t])], "pnames": True, "cvq": "", "virtual": False})

    def new_decl(self, site_id, early=False):
        r = self.rng
        self.nid += 1
        k = self.nid
        site = self.u.glob if site_id == "global" else self.host_scopes[site_id]
        if site_id == "global":
            kind = r.choice(["typedef", "alias"]) if early else r.choice(["func"] * 3 + ["var"])
        else:
            kind = r.choice(["method"] * 5 + ["smethod", "member", "member"])
        if kind in ("func", "method", "smethod"):
            np_ = r.choice([0, 1, 1, 2, 2, 3])
            d = {"id": k, "name": {"func": "f", "method": "m", "smethod": "sm"}[kind] + f"_{k}", "kind": kind,
                 "site": site_id, "ret": self.gen_type(site, self.depth, "ret") if r.random() < 0.7 else list(VOID),
                 "params": [self.gen_type(site, self.depth, "param") for _ in range(np_)],
                 "pnames": r.random() < 0.8, "cvq": ("const" if kind == "method" and r.random() < 0.3 else ""),
                 "virtual": kind == "method" and r.random() < 0.15}
        else:
            pre = {"var": "v", "member": "dm", "typedef": "T", "alias": "U"}[kind]
            d = {"id": k, "name": f"{pre}_{k}", "kind": kind, "site": site_id,
                 "type": self.gen_type(site, self.depth, kind if kind in ("var", "member") else "typedef")}
            if kind in ("typedef", "alias"):
                # later declarations may use it
                self.u.add(self.u.glob, d["name"], kind)
        self.decls.append(d)
        return d

    def build(self, n_decls=50, n_hosts=4):
        for k in range(n_hosts):
            self.new_host(k)
        sites = ["global"] * 4 + [h["id"] for h in self.hosts] * 2
        picks = [self.rng.choice(sites) for _ in range(n_decls)]
        n_glob = sum(1 for p in picks if p == "global")
        n_early = max(1, n_glob // 5)
        # typedefs / aliases are rendered before the host classes, the members next; the using-declarations and
        # -directives of the global scope come after the host classes and are visible to the rest only
        for _ in range(n_early):
            self.new_decl("global", early=True)
        for p in picks:
            if p != "global":
                self.new_decl(p)
        # always present: multiple inheritance with names from a non-last base (+ controls), and a class template
        # whose array bounds are a non-type template parameter
        k = len(self.hosts)
        shapes = ["first", self.rng.choice(["three", "three-first"]), self.rng.choice(["single", "last"])]
        for j, shape in enumerate(shapes):
            h = self.new_mi_host(k + j, shape)
            for _ in range(3):
                self.new_mi_decl(h["id"])
        h = self.new_tparam_host(k + len(shapes))
        for _ in range(5):
            self.new_tparam_decl(h["id"])
        k = len(self.hosts)
        self.new_chain_host(k, "type")
        self.new_chain_host(k + 1, "int")
        self.specialisation_members()
        self.variadic_twins()
        self.fn_template_args()
        self.u.apply_late()
        for _ in range(n_glob - n_early):
            self.new_decl("global")
        return {"env": self.u.env, "late_env": self.u.late_env, "hosts": self.hosts, "decls": self.decls}


def gen_tu(rng, n_decls=50, n_hosts=4, depth=3):
    return DeclGen(rng, depth=depth).build(n_decls=n_decls, n_hosts=n_hosts)
