"""advgen — libraries with adversarial names and literals (C03): identifiers that are keywords in Python, names
differing only in case or by '_', parameters named like the locals of generated wrappers, string/char/float
default arguments and macro constants that need escaping, namespaced and nested types that need qualification."""
import json
import os

from . import libgen
from .collide import SimpleLib

KW = ["def", "from", "lambda", "pass", "is", "None", "print", "import", "global", "yield", "with", "in", "exec",
      "del", "elif", "except", "finally", "raise", "nonlocal", "async", "await", "True", "False", "not",
      "and", "or"]
CXX_KW = {"and", "or", "not", "True", "False"} - {"True", "False"} | {"and", "or", "not"}   # alternative tokens in C++
LOCALS = ["self", "args", "kwds", "arg", "return_value", "param0", "param1", "local_this", "result", "module",
          "coerced", "index", "value", "key", "len", "i", "obj", "cls", "type"]
STR_DEFAULTS = ['""', '"abc"', r'"a\"b"', r'"back\\slash"', r'"tab\tnl\n"', '"per%cent %s %d"', r'"q\'q"',
                '"trigraph??/"', r'"\x41\101"', '"//not a comment"', '"/* nor this */"']
CHR_DEFAULTS = ["'a'", r"'\''", r"'\\'", "'\"'", r"'\n'", r"'\0'", "'%'"]
FLT_DEFAULTS = ["1e-3", "2.5f", "0.1", "-0.0", "1e300", "3.0e+5f", ".5", "5."]


def generate(rng, libname="liba", char_buffers=True):
    r = rng
    h = [f"#ifndef {libname.upper()}_H", f"#define {libname.upper()}_H", '#include "vfpub.h"', "#include <string>",
         '#include "libgen_rt.h"']
    cx = [f'#include "{libname}.h"']
    feats = []
    n = r.randrange(10000)
    # namespaced / nested types
    if r.random() < 0.8:
        feats.append("namespace-nested")
        h += [f"namespace ns{n} {{ namespace inner {{", f"class NsCls{n} {{", "PUBLISHED:", f"  NsCls{n}();",
              "  int get() const;", f"  enum Mode{n} {{ M_a{n}, M_b{n} = 7 }};", f"  class Nested{n} {{", "  PUBLISHED:",
              f"    Nested{n}();", "    int val() const;", "  };", f"  Nested{n} make_nested() const;",
              f"  void take_mode(Mode{n} m = M_b{n});", f"  Mode{n} get_mode() const;", "};", "BEGIN_PUBLISH",
              f"int ns_func{n}(const NsCls{n} &c, NsCls{n}::Nested{n} nn, NsCls{n}::Mode{n} m = NsCls{n}::M_a{n});",
              "END_PUBLISH", "} }"]
        q = f"ns{n}::inner::NsCls{n}"
        cx += [f"{q}::NsCls{n}() {{}}", f"int {q}::get() const {{ return 1; }}", f"{q}::Nested{n}::Nested{n}() {{}}",
               f"int {q}::Nested{n}::val() const {{ return 2; }}",
               f"{q}::Nested{n} {q}::make_nested() const {{ return Nested{n}(); }}",
               f"void {q}::take_mode(Mode{n}) {{}}", f"{q}::Mode{n} {q}::get_mode() const {{ return M_a{n}; }}",
               f"int ns{n}::inner::ns_func{n}(const NsCls{n} &, NsCls{n}::Nested{n}, NsCls{n}::Mode{n}) {{ return 3; }}"]
    # adversarial class
    h += [f"class Adv{n} {{", "PUBLISHED:", f"  Adv{n}();"]
    cx += [f"Adv{n}::Adv{n}() {{}}"]
    used = set()
    for kw in r.sample([k for k in KW if k not in ("and", "or", "not")], r.randrange(3, 8)):
        # method named like a Python keyword, parameters too
        pk = r.choice([k for k in KW if k not in ("and", "or", "not") and k != kw])
        lp = r.choice(LOCALS)
        if lp == pk:
            continue
        h.append(f"  int {kw}(int {pk}, int {lp} = 3);")
        cx.append(f"int Adv{n}::{kw}(int {pk}, int {lp}) {{ return {pk} + {lp}; }}")
        used.add(kw)
        feats.append("keyword-method")
    if r.random() < 0.7:
        feats.append("case-underscore-twins")
        base = r.choice(["get_value", "foo_bar", "set_x_y", "a_b"])
        parts = base.split("_")
        camel = parts[0] + "".join(p.capitalize() for p in parts[1:])
        h += [f"  int {base}() const;", f"  int {camel}() const;"]
        cx += [f"int Adv{n}::{base}() const {{ return 1; }}", f"int Adv{n}::{camel}() const {{ return 2; }}"]
    for i in range(r.randrange(1, 4)):
        d = r.choice(STR_DEFAULTS)
        feats.append("string-default")
        h.append(f"  std::string sq{i}_{n}(const std::string &s = {d}) const;")
        cx.append(f"std::string Adv{n}::sq{i}_{n}(const std::string &s) const {{ return s; }}")
    for i in range(r.randrange(1, 3)):
        d = r.choice(CHR_DEFAULTS)
        feats.append("char-default")
        h.append(f"  int ch{i}_{n}(char c = {d}) const;")
        cx.append(f"int Adv{n}::ch{i}_{n}(char c) const {{ return c; }}")
    for i in range(r.randrange(1, 3)):
        d = r.choice(FLT_DEFAULTS)
        feats.append("float-default")
        ty = "float" if d.endswith("f") else "double"
        h.append(f"  double fl{i}_{n}({ty} d = {d}) const;")
        cx.append(f"double Adv{n}::fl{i}_{n}({ty} d) const {{ return d; }}")
    if r.random() < 0.6 and char_buffers:
        # writable C strings next to const ones (a string remap must not make them const)
        feats.append("char-buffers")
        h += [f"  int fill_{n}(char *buf, int len);", f"  int peek_{n}(const char *s) const;", f"  char *own_{n}();"]
        cx += [f"int Adv{n}::fill_{n}(char *buf, int len) {{ if (len > 0) buf[0] = 0; return len; }}",
               f"int Adv{n}::peek_{n}(const char *s) const {{ return s ? s[0] : 0; }}",
               f"char *Adv{n}::own_{n}() {{ static char b[4]; return b; }}"]
    if r.random() < 0.5:
        feats.append("static-keyword")
        h.append(f"  static int {r.choice(['from_', 'import_', 'class_'])}(int x = -1);")
        cx.append(cx_static(h[-1], f"Adv{n}"))
    h.append("};")
    # (v3) abstract hierarchies: a class stays abstract unless every pure virtual is overridden with exactly the same
    # parameter types; a same-named function that differs in the const of a pointee/referent only hides it
    if r.random() < 0.85:
        feats.append("abstract-hierarchy")
        pay = f"Pay{n}"
        h += [f"class {pay} {{", "PUBLISHED:", f"  {pay}();", "  int w;", "};"]
        cx += [f"{pay}::{pay}() : w(0) {{}}"]
        shape = r.choice(["ptr", "ref", "both"])
        sigs = []
        if shape in ("ptr", "both"):
            sigs.append(("put_p", f"{pay} *item", f"const {pay} *item"))
        if shape in ("ref", "both"):
            sigs.append(("put_r", f"{pay} &item", f"const {pay} &item"))
        ab = f"Sink{n}"
        h += [f"class {ab} {{", "PUBLISHED:", f"  virtual ~{ab}();"] + \
             [f"  virtual int {nm}({mp}) = 0;" for nm, mp, cp in sigs] + ["  int level() const;", "};"]
        cx += [f"{ab}::~{ab}() {{}}", f"int {ab}::level() const {{ return 1; }}"]
        # concrete: overrides everything exactly
        cc = f"Full{n}"
        h += [f"class {cc} : public {ab} {{", "PUBLISHED:", f"  {cc}();"] + \
             [f"  {'virtual ' if r.random() < 0.5 else ''}int {nm}({mp});" for nm, mp, cp in sigs] + ["};"]
        cx += [f"{cc}::{cc}() {{}}"] + [f"int {cc}::{nm}({mp}) {{ return 2; }}" for nm, mp, cp in sigs]
        # still abstract: only hides (const added below the pointer/reference)
        hc = f"Hide{n}"
        h += [f"class {hc} : public {ab} {{", "PUBLISHED:"] + [f"  int {nm}({cp});" for nm, mp, cp in sigs] + ["  int extra() const;", "};"]
        cx += [f"int {hc}::{nm}({cp}) {{ return 3; }}" for nm, mp, cp in sigs] + [f"int {hc}::extra() const {{ return 4; }}"]
        # abstract without any user-declared special member, and a class deriving from it that completes it
        pa = f"Part{n}"
        h += [f"class {pa} : public {hc} {{", "PUBLISHED:", f"  int {sigs[0][0]}({sigs[0][1]});", "};"]
        cx += [f"int {pa}::{sigs[0][0]}({sigs[0][1]}) {{ return 5; }}"]
        if len(sigs) == 1:
            feats.append("abstract-completed-two-levels-down")
        h += ["BEGIN_PUBLISH", f"int use_sink{n}({ab} &s, {hc} *h);", "END_PUBLISH"]
        cx += [f"int use_sink{n}({ab} &s, {hc} *h) {{ return s.level() + (h ? h->extra() : 0); }}"]
    # macros
    for i in range(r.randrange(1, 5)):
        k = r.choice(["str", "chr", "neg", "expr", "flt", "strcat"])
        feats.append("macro-" + k)
        txt = {"str": r.choice(STR_DEFAULTS), "chr": r.choice(CHR_DEFAULTS), "neg": "(-5)", "expr": "(1 << 4 | 3)",
               "flt": r.choice([x for x in FLT_DEFAULTS if not x.endswith("f")]), "strcat": '"a" "b"'}[k]
        h.append(f"#define ADVM{i}_{n} {txt}")
    h.append("#endif")
    model = dict(lib=libname, adversarial=sorted(set(feats)), classes=[], functions=[], enums=[], macros=[])
    return SimpleLib(libname, "\n".join(h) + "\n", "\n".join(cx) + "\n", model)


def cx_static(decl, cls):
    import re
    m = re.search(r"static int (\w+)\(int x = -1\);", decl)
    return f"int {cls}::{m.group(1)}(int x) {{ return x; }}"
