"""Seed corpus + mutators for C15 (front-end totality).

Everything is driven by an explicit random.Random; nothing here uses the global
`random`.  Inputs are `bytes` (any byte value may appear).

 corpus(src_root)          -> list of (name, bytes): tests/**, a sample of parser-inc, hand-written snippets
 gen_source(rng, corpus)   -> (mutator_name, seed_name, bytes)     mutated C/C++ source text
 gen_nfile(rng)            -> (mutator_name, bytes)                mutated .N command file
 gen_defines(rng)          -> (mutator_name, [bytes, ...])         mutated -D arguments (no NUL bytes)
 gen_nesting(rng, depth)   -> (kind, bytes)                        deep nesting for stack use
 gen_ifops(rng)            -> (kind, bytes)                        every operator in #if / constant expressions
"""
import os
import re

MAX_LEN = 32 * 1024

# ---------------------------------------------------------------------------
# hand-written valid snippets (small, each exercising a different part of the grammar)
# ---------------------------------------------------------------------------

SNIPPETS = {
    "class_basic": b"""
class Base {
public:
  Base();
  virtual ~Base();
  virtual int get(int index) const = 0;
  static Base *make(const char *name, double scale = 1.5);
  int _value;
protected:
  void helper();
private:
  float _hidden[4];
};
class Derived : public Base {
public:
  Derived(int a, int b = 3);
  virtual int get(int index) const;
  Derived &operator = (const Derived &copy);
  bool operator == (const Derived &other) const;
  int operator [] (int n) const;
  operator bool () const;
};
""",
    "published": b"""
#define PUBLISHED __published
#define BEGIN_PUBLISH __begin_publish
#define END_PUBLISH __end_publish
#define MAKE_PROPERTY(n, ...) __make_property(n, __VA_ARGS__)
#define MAKE_SEQ(n, ...) __make_seq(n, __VA_ARGS__)
#define EXTENSION(x) __extension x
class Item {
PUBLISHED:
  Item();
  explicit Item(int v);
  int get_value() const;
  void set_value(int v);
  MAKE_PROPERTY(value, get_value, set_value);
  int get_num_things() const;
  int get_thing(int n) const;
  MAKE_SEQ(get_things, get_num_things, get_thing);
  enum Mode { M_a, M_b = 4, M_c = M_b << 2 };
  EXTENSION(int ext_method(int a));
public:
  int _v;
};
BEGIN_PUBLISH
int global_func(const Item &item, Item::Mode mode = Item::M_a);
extern const int global_var;
END_PUBLISH
""",
    "templates": b"""
template<class T, int N = 4>
class Vec {
public:
  typedef T value_type;
  Vec() {}
  T &operator [] (int i) { return _d[i]; }
  template<class U> Vec<U, N> cast() const;
  static const int size = N * 2 + 1;
private:
  T _d[N];
};
template<class T> struct Vec<T, 0> { };
template<> struct Vec<bool, 1> { int bits; };
typedef Vec<float, 3> Vec3f;
typedef Vec<Vec<int, 2>, 2> Mat2i;
template<class... Args> void variadic(Args&&... args);
template<class T> using Ptr = T *;
template<typename T> constexpr T pi = T(3.1415926535897932385L);
template<class T> T max_of(T a, T b) { return a > b ? a : b; }
extern template class Vec<double, 2>;
template class Vec<int, 2>;
""",
    "enums_exprs": b"""
enum Color { red, green = 5, blue = green + 2, mask = (1 << 4) | 3, neg = -1, big = 0x7fffffff };
enum class Scoped : unsigned char { a = 'a', b = 'b', c = sizeof(int) };
static const int k1 = 3 * (4 + 5) / 2 % 7;
static const int k2 = (k1 > 2) ? k1 : -k1;
static const bool k3 = !k1 || (k2 && ~k1);
static const unsigned long long k4 = 18446744073709551615ULL;
static const double k5 = 1.5e10 + .5 - 0x1p4;
static const int k6 = 010 + 0b101 + 1'000'000;
const char *const k7 = "abc" "def\\n\\x41\\101";
const wchar_t *k8 = L"wide";
const char16_t *k9 = u"sixteen";
const char *k10 = R"xy(raw "string" here)xy";
const char k11 = '\\'';
int arr[blue][sizeof(Color)];
static_assert(k1 == 6, "k1");
constexpr int sq(int x) { return x * x; }
int al alignas(16);
""",
    "functions": b"""
namespace ns { namespace inner {
  inline int f(int a, float b = 2.0f, const char *c = "x") { return a; }
  void g(int (*cb)(int, void *), void *data);
  int (*get_cb())(int, void *);
  void h(int (&arr)[3], int *const *pp, const volatile int &cv);
  auto trailing(int x) -> decltype(x + 1);
  [[nodiscard]] int attr(int x) noexcept;
  void ell(const char *fmt, ...);
  extern "C" int cfunc(int);
  extern "C" { void c1(); void c2(void); }
} }
using namespace ns;
using ns::inner::f;
namespace alias = ns::inner;
int main(int argc, char *argv[]) {
  for (int i = 0; i < argc; ++i) { if (argv[i]) continue; else break; }
  auto lam = [&](int x) mutable -> int { return x + argc; };
  switch (argc) { case 1: return 0; default: ; }
  try { throw 1; } catch (...) { }
  return lam(2);
}
""",
    "structs_unions": b"""
struct Point { int x, y; unsigned flags : 3; };
union U { int i; float f; struct { char a, b; } s; };
struct Outer {
  struct Inner { int q; enum E { e1, e2 }; } in;
  union { int anon_i; char anon_c; };
  static int count;
  mutable int m;
  friend class Other;
  friend int operator + (const Outer &a, const Outer &b);
  Outer() = default;
  Outer(const Outer &) = delete;
  Outer(Outer &&) noexcept;
  ~Outer();
  int Outer::*pm;
  int (Outer::*pmf)(int) const;
};
typedef struct { int a; } Anon, *AnonPtr;
typedef int (*FuncPtr)(int, ...);
typedef int IntArr[4][2];
struct Fwd;
struct Final final : Point { void v() ; };
struct VB : virtual public Point, private Outer { using Point::x; };
""",
    "macros": b"""
#define EMPTY
#define ONE 1
#define ADD(a, b) ((a) + (b))
#define STR(x) #x
#define CAT(a, b) a ## b
#define XCAT(a, b) CAT(a, b)
#define VA(fmt, ...) f(fmt, __VA_ARGS__)
#define VAOPT(x, ...) g(x __VA_OPT__(,) __VA_ARGS__)
#define NEST(x) ADD(x, ADD(x, ONE))
#define MULTI \\
   int multi_a; \\
   int multi_b;
MULTI
int XCAT(var_, ONE) = NEST(2);
const char *s = STR(a + b);
int v = ADD(ADD(1, 2), ADD((3, 4), 5));
#undef ONE
#ifdef ONE
#error not reached
#elif defined(ADD) && !defined(NOPE)
int elif_taken;
#else
int else_taken;
#endif
#if __cplusplus >= 201103L || defined __GNUC__
int cxx11;
#endif
#ifndef GUARD_H
#define GUARD_H
#endif
#pragma once
#line 100 "fake.h"
#include <string>
#if __has_include(<vector>)
#include <vector>
#endif
#warning a warning
#ident "x"
""",
    "modern": b"""
#include <cstddef>
namespace a::b::c { inline namespace v1 { struct S {}; } }
struct alignas(8) Al { char c; };
enum struct E2 : int;
using Fn = void (*)(int) noexcept;
constexpr auto lambda = [](auto x) { return x; };
template<class T> concept Small = sizeof(T) <= 4;
template<Small T> void only_small(T);
template<class T> requires (sizeof(T) > 1) void req(T);
struct Agg { int a{1}; int b = {2}; int c[2] = {1, 2}; };
inline constexpr std::size_t N = sizeof(Agg) / sizeof(int);
decltype(N) n2 = N;
auto [x1, y1] = Agg{};
static_assert(noexcept(N), "");
char32_t c32 = U'\\U0001F600';
unsigned long long operator ""_km(unsigned long long v);
struct Spaceship { auto operator<=>(const Spaceship &) const = default; };
thread_local int tls;
typedef decltype(nullptr) nullptr_t2;
__attribute__((visibility("default"))) int attr_gnu;
__declspec(dllexport) int attr_ms;
int typeid_use = sizeof(typeid(int));
""",
    "conditional_ops": b"""
#define A 3
#define B (-2)
#if A + B == 1 && A - B == 5 && A * B == -6 && A / B == -1 && A % 2 == 1
int arith;
#endif
#if (A << 2) == 12 && (A >> 1) == 1 && (A & 1) && (A | 4) == 7 && (A ^ 1) == 2 && ~A == -4
int bits;
#endif
#if A > B && A >= B && !(A < B) && !(A <= B) && A != B && !(A == B)
int cmp;
#endif
#if (A ? 1 : 0) && (0 || 1) && defined(A) && defined B && !defined(C)
int logic;
#endif
#if 'a' == 97 && 0x10 == 16 && 010 == 8 && 1L == 1 && 1u
int lits;
#endif
#if true && !false
int boolkw;
#endif
#if UNDEFINED_NAME
#elif UNDEFINED_FN(1)
#endif
""",
}

# .N command files
NFILES = [
    b"forcetype Vec<int, 2>\nforcetype Item\nrenametype Vec<float, 3> LVec3f\n",
    b"ignoretype Outer::Inner\nignoremember _hidden get_value\nignoreinvolved Point\n",
    b"defconstruct Vec3f 0.0f\nnoinclude string vector\nforceinclude <memory>\nforceinclude \"local.h\"\n",
    b"# comment line\n  forcevisible   Item  \nignorefile foo.h bar.h\nunknowncommand x y z\n",
    b"forcetype std::string\nforcetype int *\nrenametype Item::Mode ItemMode\ndefconstruct Item 1, 2\n",
]

# -D seeds
DEFINES = [
    [b"X"], [b"X=1"], [b"X=(1+2)", b"Y=X"], [b"F(a,b)=((a)+(b))"], [b"F(x)=#x"], [b"F(a,b)=a##b"],
    [b"V(...)=__VA_ARGS__"], [b"V(a,...)=a __VA_OPT__(,) __VA_ARGS__"], [b"G()=1"], [b"X="], [b"Y=defined(X)"],
    [b"X=\"str\""], [b"X='c'"], [b"Y=1/1"], [b"X=#pragma once"], [b"X=#define X 1", b"Y=#if 1"], [b"F(a)=#include \"main.h\""], [b"Y=#undef Y\n#pragma once"], [b"__cplusplus=201703L", b"X=__cplusplus"],
]

DEFINE_MAIN = b"""
#ifdef X
int x1 = X;
#endif
#if defined(F)
int f1 = F(1, 2);
int f2 = F((3), "a,b");
#endif
#ifdef V
int v1 = V(1, 2, 3);
int v2 = V();
#endif
#ifdef G
int g1 = G();
#endif
#if Y
int y;
#endif
#ifdef PROBE
#if PROBE
int probe_if;
#endif
#if PROBE(1)
int probe_if_call;
#endif
#if 0
#elif PROBE(1, 2) || PROBE
#endif
#if defined(PROBE) && W(PROBE)
#endif
int p1 = PROBE;
int p2 = PROBE(1);
int p3 = W(PROBE) + W(PROBE(2));
#endif
"""

# hostile bodies / heads of command-line definitions; the carrier (DEFINE_MAIN) uses PROBE from #if, #if PROBE(1),
# #elif, an argument of W() and plain text
DEF_BODIES = [
    b'W(1) && W("q\\', b'W("q\\', b"W('q\\", b'W("q', b"W('q", b'W("q\\")', b'W("q\\\\', b'W(1', b'W(', b'W((1)', b'W(1))', b'W', b'W)',
    b'W(1) W(2', b'W(,)', b'W(1,2)', b'W("a,b")', b"W(')')", b"W('\\'')", b'W(W(W(1)))', b'W(W(W(1', b'W(PROBE)', b'W(PROBE(1))',
    b'"abc', b"'a", b'"\\', b"'\\", b'\\', b'a\\', b'1 \\', b'"a" \\', b'(', b')', b'((1)', b'(1))', b'[', b'{', b'<',
    b'#', b'##', b'#a', b'# a', b'a#', b'a##', b'##a', b'a ## b', b'a ## ## b', b'#\\', b'##\\',
    b'PROBE', b'PROBE(1)', b'PROBE + 1', b'(PROBE)', b'PROBE PROBE', b'!PROBE', b'defined(PROBE)', b'defined(', b'defined', b'defined PROBE',
    b'__VA_ARGS__', b'__VA_OPT__(', b'__VA_OPT__(x)', b'1/0', b'1%0', b'1 ? 2', b'1 ?', b'R"(', b'R"x(abc', b'/*', b'//', b'/* c */ 1', b'0x', b'1e', b'1e+',
    b'', b' ', b'\t', b'\n1', b'1\n#error e', b'a\nb', b'1 2', b'1,2', b'a b c', b'__has_include(', b'__has_include(<', b'__has_include("',
    b'\xff', b'\xc3', b'1\xffa', b'"\xff', b'L"', b'u8"x', b"L'", b'1L"', b'x"y', b"x'y",
]
DEF_HEADS = [b"PROBE=", b"PROBE(a)=", b"PROBE(a,b)=", b"PROBE(...)=", b"PROBE()="]
DEF_ODD_HEADS = [b"PROBE(=", b"PROBE(a=", b"PROBE(a,=", b"PROBE(a", b"PROBE(", b"PROBE)", b"PROBE(a)(b)=", b"PROBE(1)=", b"PROBE(a,a)=",
                 b"PROBE(a,...,b)=", b"PROBE(a...)=", b"PROBE (a)=", b"PROBE =", b"PROBE==", b"=", b"", b" =1", b"1PROBE=", b"PROBE",
                 b"PROBE(a)", b"PROBE\n=", b"W=", b"W(x)=PROBE\x01", b"defined=", b"__VA_ARGS__=", b"PROBE(__VA_ARGS__)="]


def def_enumeration():
    """seed independent: (label, [definitions]).  -D'W(x)=x' plus one PROBE definition: every head x every body,
    and the odd heads with three bodies."""
    out = []
    for hi, h in enumerate(DEF_HEADS):
        for bi, body in enumerate(DEF_BODIES):
            out.append(("def_h%d_b%d" % (hi, bi), [b"W(x)=x", h + body]))
    for hi, h in enumerate(DEF_ODD_HEADS):
        for bi, body in enumerate((b"1", b'W("q\\', b"PROBE")):
            d = h + body
            out.append(("def_odd%d_b%d" % (hi, bi), [b"W(x)=x", d] if d else [b"W(x)=x", b""]))
    return [(lab, [x.replace(b"\0", b"\1") for x in ds]) for lab, ds in out]

# ---------------------------------------------------------------------------
# dictionary of edge literals (DESIGN C15) -- each is inserted alone on a line (LINE_DICT)
# or anywhere between two tokens (TOKEN_DICT)
# ---------------------------------------------------------------------------

LINE_DICT = [
    b"#define X(", b"#define X(a", b"#define X(a,", b"#define X(...", b"#define X(a,a) a", b"#define", b"#define 1",
    b"#define X(a) #", b"#define X(a) a##", b"#define X(a) ##a", b"#define X(a) #b", b"#define X() X()", b"#define X X",
    b"#define defined", b"#define __VA_ARGS__ 1", b"#define X(a,...) __VA_OPT__(", b"#undef", b"#undef 1",
    b"#if", b"#if (", b"#if )", b"#if 1/0", b"#if 1%0", b"#if 0/0", b"#if (-2147483647-1)/-1", b"#if 1 <<", b"#if 1 << 64",
    b"#if 1 << -1", b"#if 1 ? 2", b"#if 1 ? : 2", b"#if defined(", b"#if defined", b"#if defined()", b"#if defined(X",
    b"#if __has_include(", b"#if __has_include(<", b"#if __has_include(\"", b"#if __has_include()", b"#if __has_include",
    b"#if __has_include(<x>", b"#if 1 ^ 1", b"#if 5 ^ 5", b"#if 'a", b"#if \"", b"#if 0x", b"#if 0b", b"#if 1e", b"#if 1.0",
    b"#if 99999999999999999999999", b"#if X(", b"#if X(1", b"#if ,", b"#if 1,2", b"#if 1 = 1", b"#if sizeof(int)",
    b"#if (int)1", b"#if 1 +", b"#if -", b"#if !", b"#if ~", b"#if 1 ==", b"#if ::", b"#if a::b", b"#if nullptr",
    b"#if 1.5 % 2", b"#if \"a\" + 1", b"#if 'ab'", b"#if ''", b"#if L'a'", b"#if u8\"x\"[0]", b"#if 1 ? 2 : 1/0",
    b"#if true ? 1 : 2", b"#if alignof(int)", b"#if noexcept(1)", b"#if typeid(int)", b"#if new int", b"#if throw 1",
    b"#elif", b"#elif 1", b"#else", b"#endif", b"#else x", b"#endif x", b"#ifdef", b"#ifndef", b"#ifdef 1", b"#ifdef X Y",
    b"#include", b"#include <", b"#include \"", b"#include <>", b"#include \"\"", b"#include X", b"#include <a.h", b"#include \"a.h",
    b"#include \"main.h\"", b"#include \"inc.h\"", b"#include __FILE__", b"#include_next <string>", b"#include MACRO(x)",
    b"#pragma once", b"#pragma", b"#pragma \xff", b"#line", b"#line 0", b"#line 99999999999", b"#line 1 \"", b"#line x",
    b"#error", b"#error \xff\"", b"#warning", b"#", b"# 1 \"x.h\" 2", b"#unknown", b"#ident", b"#\\", b"#define X \\",
    b"#if 1 //", b"#if 1 /*", b"#define X /*", b"#define X(a) /* a */ a", b"#define X(a)a", b"#define X(a) \"a\" 'a' a",
    b"__begin_publish", b"__end_publish", b"__published:", b"__make_property(", b"__make_property(a)", b"__make_property(a, b, c, d, e, f, g);",
    b"__make_seq(a, b);", b"__make_seq_property(a, b, c);", b"__make_map_property(m, a, b);", b"__extension", b"__blocking", b"__make_property2(",
    b"__make_map_keys_seq(a,b,c);",
    b"#define K #pragma once", b"#define K #define K 1", b"#define K #undef K", b"#define K #include \"main.h\"", b"#define K #if 1",
    b"#define K #endif", b"#define K #else", b"#define K #error e", b"#define K #line 5", b"#define K(a) #pragma once", b"#define K # define K # define K",
    b"#if #pragma once", b"#if #define Q 1", b"#elif #include <string>", b"#define K \\\n#pragma once", b"#undef #define", b"#ifdef #if", b"#include #include",
    b"#pragma push_macro(\"X\")", b"#pragma pop_macro(\"X\")", b"#pragma push_macro(", b"#pragma pop_macro(\"\")",
    b"#pragma push_macro(\"defined\")", b"#pragma pop_macro(\"UNDEF\")", b"#pragma push_macro(\"F\")\n#pragma push_macro(\"F\")",
    b"#pragma push_macro(X)", b"#pragma pop_macro ( \"X\" ) trailing", b"#pragma once\n#pragma once", b"#undef UNDEFINED_NAME",
    b"#undef __cplusplus", b"#undef defined", b"#undef __FILE__", b"#undef X Y", b"#define X 1\n#define X 2", b"#define X(a) a\n#define X 2\nX(1)",
    b"#define X 1\n#undef X\n#undef X\nX", b"#if __has_include(X)", b"#if __has_include(\"\")", b"#if __has_include(<>)", b"#if __has_include(<a b>)",
    b"#if __has_include(__FILE__)", b"#if __has_include_next(<string>)", b"#if __has_include(<string>) && __has_include(\"main.h\")",
    b"#if __has_include(<string> )x", b"#if __has_include 1", b"#if defined(__has_include) && __has_include(<vector>", b"#include_next \"main.h\"",
    b"#include_next <", b"#include_next", b"#import <string>", b"#pragma GCC system_header", b"#pragma pack(push, 1)", b"#pragma message(\"m\")",
]

TOKEN_DICT = [
    b"0x", b"0X", b"0b", b"0B", b"1e", b"1e+", b"1E-", b"0x1p", b"1.", b".", b".e1", b"1..2", b"0x.p1", b"1'", b"1''2", b"'1",
    b"08", b"0b2", b"0xg", b"1u", b"1ull", b"1lul", b"1_x", b"1.0f", b"1.0_q", b"99999999999999999999", b"1e999", b"1e-999",
    b"0x8000000000000000", b"-9223372036854775808", b"2147483648", b"-2147483648", b"4294967296",
    b"'", b"''", b"'\\", b"'\\'", b"'\\x", b"'\\x'", b"'\\777'", b"'\\u12'", b"'\\U1234567'", b"'abcde'", b"L'", b"u8'a'", b"'\n",
    b"\"", b"\"\\", b"\"\\x\"", b"\"\\u\"", b"\"\\777\"", b"\"\\\n\"", b"L\"", b"u8\"", b"\"\n", b"\"\\q\"", b"\"\\x4141414141\"",
    b"R\"(", b"R\"", b"R\"x(", b"R\"x(a)y\"", b"R\"(a)\"", b"R\"0123456789abcdefg(a)0123456789abcdefg\"", b"LR\"(", b"u8R\"(x",
    b"R\"\\(a)\\\"", b"R\" (a) \"", b"R\"((", b"R\"()", b"R\"a(\n)a\"",
    b"/*", b"*/", b"//", b"/*/", b"//\\\n", b"/**/", b"/* \xff */", b"/***", b"//\xff",
    b"\\", b"\\\n", b"\\\r\n", b"\\ \n", b"??/", b"??=", b"<:", b":>", b"<%", b"%>", b"%:", b"%:%:", b"#", b"##", b"@", b"$", b"`",
    b"\x00", b"\xff", b"\x80", b"\xef\xbb\xbf", b"\x1a", b"\r", b"\x0c", b"\x0b", b"\xc3\xa9", b"\xc3", b"\xf0\x9f\x98\x80",
    b"(", b")", b"{", b"}", b"[", b"]", b"<", b">", b"<<", b">>", b">>>", b"<:", b"[[", b"]]", b"[[]]", b"[[a::b(c)]]", b"[[using a:b]]",
    b";", b",", b"::", b":::", b"...", b"....", b"->", b"->*", b".*", b"<=>", b"?", b":", b"=", b"==", b"^", b"^=", b"~", b"!", b"%", b"&&", b"||",
    b"operator", b"operator()", b"operator[]", b"operator,", b"operator new[]", b"operator\"\"_x", b"operator \"\" _y", b"operator<=>", b"operator co_await", b"operator int*",
    b"template", b"template<", b"template<>", b"typename", b"class", b"struct", b"union", b"enum", b"enum class", b"namespace", b"using", b"typedef",
    b"friend", b"virtual", b"static", b"extern", b"extern \"C\"", b"extern \"C++\"", b"extern \"X\"", b"inline", b"constexpr", b"consteval", b"constinit", b"mutable", b"explicit",
    b"explicit(true)", b"const", b"volatile", b"signed", b"unsigned", b"long", b"long long", b"long long long", b"short", b"char", b"int", b"bool", b"float", b"double",
    b"long double", b"void", b"auto", b"decltype", b"decltype(", b"decltype(auto)", b"char8_t", b"char16_t", b"wchar_t", b"__int128", b"unsigned float", b"short long",
    b"sizeof", b"sizeof(", b"sizeof...", b"sizeof...(", b"alignof(", b"alignas(", b"typeid(", b"noexcept", b"noexcept(", b"static_assert(", b"static_assert(0)", b"static_assert(1/0, \"\")",
    b"static_cast<", b"const_cast<int>(", b"reinterpret_cast<", b"dynamic_cast<", b"new", b"new (", b"delete", b"delete[]", b"throw", b"this", b"nullptr", b"true", b"false",
    b"public:", b"private:", b"protected:", b"public", b"= 0", b"= default", b"= delete", b"override", b"final", b"requires", b"concept", b"co_return", b"co_yield",
    b"__attribute__((", b"__attribute__((x))", b"__declspec(", b"__declspec(x)", b"__restrict", b"__extension__", b"asm(\"\")", b"__asm__", b"__typeof__(", b"__builtin_va_list",
    b"__is_constructible(", b"__is_constructible(int)", b"__is_base_of(int, int)", b"__is_convertible_to(", b"__has_virtual_destructor(int)", b"__is_abstract(", b"__is_enum(X)", b"__underlying_type(",
    b"__is_final(", b"__is_empty(int)", b"__is_class(", b"__is_union(", b"__is_pod(", b"__is_polymorphic(", b"__is_standard_layout(", b"__is_trivial(", b"__is_same(",
    b"__FILE__", b"__LINE__", b"__DATE__", b"__TIME__", b"__COUNTER__", b"__func__", b"__VA_ARGS__", b"__VA_OPT__", b"__VA_OPT__(", b"__has_include", b"__has_include(", b"defined", b"defined(",
    b"_Pragma(\"once\")", b"_Pragma(", b"__pragma(", b"KEYWORD", b"std::", b"::std", b"a::b::", b"a::template b<", b"typename a::b", b"~a", b"a::~a", b"x.~x()",
    b"1/0", b"1%0", b"0/0", b"1/0.0", b"1<<64", b"1<<-1", b"-1>>1", b"-1<<1", b"(-2147483647-1)/-1", b"(-2147483647-1)%-1", b"2147483647+1", b"-(-2147483647-1)", b"65536*65536",
    b"1^2", b"1 ? 2", b"? :", b"1 ?: 2", b"(int)", b"(int)1.5e300", b"(char)300", b"(bool)2", b"(float)1", b"(unsigned)-1", b"int(1)", b"int{1}", b"1.0/0", b"1.5 % 2", b"\"a\" + 1", b"!\"a\"", b"-\"a\"", b"~1.5",
    b"sizeof(int[1/0])", b"alignof(void)", b"sizeof(void)", b"sizeof(x)", b"nullptr + 1", b"&x", b"*x", b"x[1]", b"x.y", b"x->y", b"x()", b"x(1,2)", b"x<1>(2)", b"x<y>::z",
    b"int x[];", b"int x[0];", b"int x[-1];", b"int x[1/0];", b"int x[1<<40];", b"int :3;", b"int x:0;", b"int x:-1;", b"int x:99;", b"enum { a = 1/0 };", b"enum : int;", b"enum { a, a };",
    b"template<int N = 1/0> struct Q;", b"template<class T = T> struct W;", b"template<template<class> class T> struct TT;", b"template<auto V> struct AV;", b"template<class T, T v> struct IC;",
    b"struct X : X {};", b"struct Y : Z {};", b"struct S : int {};", b"class K { K k; };", b"typedef T T;", b"typedef int;", b"typedef;", b"using U = U;", b"using;", b"using namespace;", b"namespace N = N;",
    b"namespace {", b"namespace a::b {", b"inline namespace", b"extern \"C\" {", b"void f() {", b"struct A {", b"class", b"}", b"};", b"} x;", b"int f(int f(int f(int)));", b"int (*(*x)[3])(int);",
    b"int f(void, void);", b"int f(...);", b"int f(int = 1, int);", b"int f(int a = f(a));", b"void f(int x[1/0]);", b"auto f() -> ;", b"auto x = ;", b"int x = {", b"int x{1,};",
]

_BYTE_POOL = bytes([0, 1, 9, 10, 13, 26, 27, 32, 34, 35, 39, 40, 41, 42, 47, 48, 60, 62, 63, 64, 92, 96, 123, 125, 127, 128, 191, 192, 224, 239, 254, 255])

# ---------------------------------------------------------------------------
# corpus
# ---------------------------------------------------------------------------

_corpus_cache = {}


def corpus(src_root):
    """tests/** (sources and expected outputs), a deterministic sample of parser-inc (files of 40..6000 bytes,
    every 3rd in sorted order) and the hand-written snippets."""
    if src_root in _corpus_cache:
        return _corpus_cache[src_root]
    out = []
    tdir = os.path.join(src_root, "tests")
    for dp, dn, fn in sorted(os.walk(tdir)):
        dn.sort()
        for f in sorted(fn):
            if f.endswith((".h", ".c", ".cxx", ".hpp", ".I", ".N")):
                p = os.path.join(dp, f)
                out.append(("tests/" + os.path.relpath(p, tdir), open(p, "rb").read()))
    pdir = os.path.join(src_root, "parser-inc")
    k = 0
    for f in sorted(os.listdir(pdir)):
        p = os.path.join(pdir, f)
        if os.path.isfile(p) and 40 <= os.path.getsize(p) <= 6000 and f != "README":
            if k % 3 == 0:
                out.append(("parser-inc/" + f, open(p, "rb").read()))
            k += 1
    for n in sorted(SNIPPETS):
        out.append(("snippet/" + n, SNIPPETS[n]))
    _corpus_cache[src_root] = out
    return out


# ---------------------------------------------------------------------------
# tokeniser (only used to choose mutation points; never an oracle)
# ---------------------------------------------------------------------------

_TOK = re.compile(rb'''
   (?P<ws>[ \t\f\v]+)
 | (?P<nl>\r?\n)
 | (?P<lc>//[^\n]*)
 | (?P<bc>/\*.*?\*/)
 | (?P<raw>(?:u8|u|U|L)?R"[^(\n"]{0,20}\(.*?\)[^"\n]{0,20}")
 | (?P<str>(?:u8|u|U|L)?"(?:\\.|[^"\\\n])*")
 | (?P<chr>(?:u8|u|U|L)?'(?:\\.|[^'\\\n])*')
 | (?P<num>\.?[0-9](?:[eEpP][+-]|[0-9a-zA-Z_.'])*)
 | (?P<id>[A-Za-z_][A-Za-z0-9_]*)
 | (?P<punct><<=|>>=|<=>|\.\.\.|->\*|::|<<|>>|<=|>=|==|!=|&&|\|\||\+\+|--|\+=|-=|\*=|/=|%=|&=|\|=|\^=|->|\#\#|.)
''', re.X | re.S)

_tok_cache = {}


def tokenize(data):
    """-> list of (kind, bytes); concatenation of the bytes is `data`."""
    return [(m.lastgroup, m.group(0)) for m in _TOK.finditer(data)]


def _toks(name, data):
    if name not in _tok_cache:
        _tok_cache[name] = tokenize(data)
    return _tok_cache[name]


def _join(toks):
    return b"".join(t[1] for t in toks)


def _solid(toks):
    return [i for i, t in enumerate(toks) if t[0] not in ("ws", "nl")]


# ---------------------------------------------------------------------------
# mutators: fn(rng, name, data, corp) -> bytes
# ---------------------------------------------------------------------------

def m_identity(rng, name, data, corp):
    return data


def m_tok_delete(rng, name, data, corp):
    toks = list(_toks(name, data))
    for _ in range(rng.choice((1, 1, 2, 3, 8))):
        s = _solid(toks)
        if not s:
            break
        del toks[rng.choice(s)]
    return _join(toks)


def m_tok_dup(rng, name, data, corp):
    toks = list(_toks(name, data))
    s = _solid(toks)
    if not s:
        return data
    i = rng.choice(s)
    n = rng.choice((1, 1, 2, 5, 20))
    reps = rng.choice((1, 1, 2, 10, 200))
    run = toks[i:i + n]
    toks[i:i] = run * reps
    return _join(toks)


def m_tok_swap(rng, name, data, corp):
    toks = list(_toks(name, data))
    s = _solid(toks)
    if len(s) < 2:
        return data
    for _ in range(rng.choice((1, 1, 2, 4))):
        i, j = rng.choice(s), rng.choice(s)
        if rng.random() < 0.5:       # neighbours
            k = s.index(i)
            j = s[min(k + 1, len(s) - 1)]
        toks[i], toks[j] = toks[j], toks[i]
    return _join(toks)


def m_tok_replace(rng, name, data, corp):
    toks = list(_toks(name, data))
    s = _solid(toks)
    if not s:
        return data
    for _ in range(rng.choice((1, 1, 2, 4))):
        i = rng.choice(s)
        r = rng.random()
        if r < 0.5:
            new = rng.choice(TOKEN_DICT)
        elif r < 0.8:
            oname, odata = rng.choice(corp)
            ot = _toks(oname, odata)
            so = _solid(ot)
            new = ot[rng.choice(so)][1] if so else b"x"
        else:
            same = [t[1] for t in toks if t[0] == toks[i][0]]
            new = rng.choice(same)
        toks[i] = ("x", new)
    return _join(toks)


def m_tok_insert(rng, name, data, corp):
    toks = list(_toks(name, data))
    for _ in range(rng.choice((1, 1, 2, 3))):
        i = rng.randrange(len(toks) + 1)
        w = rng.choice(TOKEN_DICT)
        if rng.random() < 0.7:
            w = b" " + w + b" "
        toks.insert(i, ("x", w))
    return _join(toks)


_OPEN = (b"(", b"{", b"[", b"<", b"<:", b"<%", b"[[")
_CLOSE = (b")", b"}", b"]", b">", b":>", b"%>", b"]]", b">>")


def m_bracket(rng, name, data, corp):
    toks = list(_toks(name, data))
    br = [i for i, t in enumerate(toks) if t[1] in _OPEN or t[1] in _CLOSE]
    r = rng.random()
    if br and r < 0.45:
        for _ in range(rng.choice((1, 1, 2))):
            br = [i for i, t in enumerate(toks) if t[1] in _OPEN or t[1] in _CLOSE]
            if br:
                del toks[rng.choice(br)]
    elif br and r < 0.6:
        i = rng.choice(br)
        toks[i] = ("x", rng.choice(_OPEN + _CLOSE))
    else:
        i = rng.randrange(len(toks) + 1)
        toks.insert(i, ("x", rng.choice(_OPEN + _CLOSE) * rng.choice((1, 1, 2, 3))))
    return _join(toks)


def m_splice(rng, name, data, corp):
    toks = _toks(name, data)
    oname, odata = rng.choice(corp)
    ot = _toks(oname, odata)
    if not toks or not ot:
        return data
    i = rng.randrange(len(toks) + 1)
    j = rng.randrange(len(ot) + 1)
    if rng.random() < 0.3:      # insert a slice of the other file in the middle
        k = min(len(ot), j + rng.randrange(1, 40))
        return _join(toks[:i]) + _join(ot[j:k]) + _join(toks[i:])
    return _join(toks[:i]) + _join(ot[j:])


def m_line(rng, name, data, corp):
    lines = data.split(b"\n")
    if len(lines) < 2:
        return data
    op = rng.randrange(5)
    i = rng.randrange(len(lines))
    if op == 0:
        del lines[i]
    elif op == 1:
        lines.insert(i, lines[rng.randrange(len(lines))])
    elif op == 2:
        j = rng.randrange(len(lines))
        lines[i], lines[j] = lines[j], lines[i]
    elif op == 3:    # join with the next line / split
        lines[i] = lines[i] + b"\\"
    else:           # delete every directive of one kind (unbalances #if/#endif)
        kinds = [l.split()[0] for l in lines if l.lstrip().startswith(b"#") and l.split()]
        if kinds:
            k = rng.choice(kinds)
            n = rng.choice((1, 99))
            out = []
            for l in lines:
                if n and l.split() and l.split()[0] == k:
                    n -= 1
                    continue
                out.append(l)
            lines = out
    return b"\n".join(lines)


def m_dict_line(rng, name, data, corp):
    lines = data.split(b"\n")
    for _ in range(rng.choice((1, 1, 2, 3))):
        i = rng.randrange(len(lines) + 1)
        lines.insert(i, rng.choice(LINE_DICT))
    return b"\n".join(lines)


def m_byte_flip(rng, name, data, corp):
    if not data:
        return data
    b = bytearray(data)
    for _ in range(rng.choice((1, 1, 2, 4, 16))):
        i = rng.randrange(len(b))
        b[i] ^= 1 << rng.randrange(8)
    return bytes(b)


def m_byte_insert(rng, name, data, corp):
    b = bytearray(data)
    for _ in range(rng.choice((1, 1, 2, 4))):
        i = rng.randrange(len(b) + 1)
        c = rng.choice(_BYTE_POOL) if rng.random() < 0.8 else rng.randrange(256)
        b[i:i] = bytes([c]) * rng.choice((1, 1, 1, 2, 64))
    return bytes(b)


def m_byte_delete(rng, name, data, corp):
    if not data:
        return data
    b = bytearray(data)
    for _ in range(rng.choice((1, 1, 2, 4))):
        if not b:
            break
        i = rng.randrange(len(b))
        del b[i:i + rng.choice((1, 1, 2, 7))]
    return bytes(b)


def m_byte_set(rng, name, data, corp):
    if not data:
        return data
    b = bytearray(data)
    for _ in range(rng.choice((1, 1, 2, 4))):
        i = rng.randrange(len(b))
        b[i] = rng.choice(_BYTE_POOL)
    return bytes(b)


def m_trunc_rand(rng, name, data, corp):
    if not data:
        return data
    return data[:rng.randrange(len(data))]


_TRUNC_KINDS = ("lc", "bc", "raw", "str", "chr", "num", "id", "directive", "macro_params", "template_args", "call_args",
                "opener", "opener", "inside_template")


def m_trunc_in(rng, name, data, corp):
    """truncate inside a construct of a chosen kind (comment, string, raw string, char literal, number,
    directive, macro parameter list, template argument list, call argument list)."""
    toks = _toks(name, data)
    kind = rng.choice(_TRUNC_KINDS)
    pos = []
    off = 0
    prev_solid = None
    line_is_directive = False
    tdepth = 0
    for k, t in toks:
        if t == b"<" and prev_solid is not None and prev_solid[0] == "id":
            tdepth += 1
        elif t in (b">", b">>") and tdepth > 0:
            tdepth = max(0, tdepth - len(t))
        elif t in (b";", b"{", b"}"):
            tdepth = 0
        if k == "nl":
            line_is_directive = False
        if kind in ("lc", "bc", "raw", "str", "chr", "num", "id") and k == kind and len(t) > 1:
            pos.append(off + rng.randrange(1, len(t)))
        elif kind == "directive" and line_is_directive and k not in ("ws", "nl"):
            pos.append(off + rng.randrange(0, len(t) + 1))
        elif kind == "macro_params" and line_is_directive and t in (b"(", b","):
            pos.append(off + 1)
        elif kind == "template_args" and t in (b"<", b",") and prev_solid is not None and prev_solid[0] == "id":
            pos.append(off + 1)
        elif kind == "call_args" and t in (b"(", b","):
            pos.append(off + 1)
        elif kind == "opener" and t in _OPEN:
            pos.append(off + len(t))
        elif kind == "inside_template" and tdepth > 0 and k not in ("ws", "nl"):
            pos.append(off + len(t))
        if t == b"#" and (prev_solid is None or prev_solid[0] == "nl_marker"):
            line_is_directive = True
        if k == "nl":
            prev_solid = ("nl_marker", b"")
        elif k != "ws":
            prev_solid = (k, t)
        off += len(t)
    if not pos:
        return m_trunc_rand(rng, name, data, corp)
    p = rng.choice(pos)
    out = data[:p]
    if rng.random() < 0.3:
        out += b"\n"
    return out


def m_newlines(rng, name, data, corp):
    r = rng.randrange(4)
    if r == 0:
        return data.replace(b"\n", b"\r\n")
    if r == 1:
        return data.replace(b"\n", b"\r")
    if r == 2:       # backslash-newline at random places
        b = bytearray(data)
        for _ in range(rng.choice((1, 3, 10))):
            i = rng.randrange(len(b) + 1)
            b[i:i] = b"\\\n"
        return bytes(b)
    return data.rstrip(b"\n") + rng.choice((b"", b"\\", b"\\\n", b"//", b"/*", b"\"", b"'", b"#", b"# ", b"\r"))


# ---------------------------------------------------------------------------
# multi-step preprocessor state: sequences of related directives on ONE macro name, followed by uses of the name
# ---------------------------------------------------------------------------

PP_OPS = ("push", "pop", "defobj", "deffn", "undef")


def pp_op_line(op, name, rng=None):
    if op == "push":
        return b"#pragma push_macro(\"" + name + b"\")"
    if op == "pop":
        return b"#pragma pop_macro(\"" + name + b"\")"
    if op == "defobj":
        body = rng.choice((b"1", b"(2+3)", b"", b"int", b"\"s\"", name)) if rng else b"7"
        return b"#define " + name + b" " + body
    if op == "deffn":
        body = rng.choice((b"(a)", b"a##a", b"#a", b"", name + b"(a)")) if rng else b"((a)+1)"
        return b"#define " + name + b"(a) " + body
    if op == "defva":
        return b"#define " + name + b"(...) __VA_ARGS__"
    if op == "undef":
        return b"#undef " + name
    if op == "once":
        return b"#pragma once"
    if op == "ifdef":
        return b"#ifdef " + name + b"\nint " + name + b"_seen;\n#endif"
    if op == "hasinc":
        return b"#if __has_include(" + rng.choice((b"<string>", b"\"main.h\"", name, b"<" + name + b">", b"")) + b")\n#endif"
    if op == "incnext":
        return b"#include_next <string>"
    raise ValueError(op)


def pp_uses(name):
    """every way a later token stream can meet the name"""
    return [b"int use_" + name + b"_a = " + name + b";",
            b"int use_" + name + b"_b = " + name + b"(1);",
            b"#ifdef " + name + b"\nint use_" + name + b"_c;\n#endif",
            b"#if defined(" + name + b") && " + name + b"\n#endif",
            b"#if " + name + b"(2)\n#endif"]


def pp_sequences(maxlen=4):
    """all sequences of 1..maxlen operations over PP_OPS (seed independent)"""
    import itertools
    for n in range(1, maxlen + 1):
        for seq in itertools.product(PP_OPS, repeat=n):
            yield seq


def pp_sequence_files(per_file=12, maxlen=4):
    """-> list of (label, bytes): every operation sequence on its own macro name, each followed by uses; several
    independent sequences per file.  Only the first use kind that matters is kept per sequence to stay small:
    object-like use, call-like use and #if use all follow."""
    files, cur, k = [], [], 0
    for seq in pp_sequences(maxlen):
        name = b"Q%d" % k
        k += 1
        lines = [pp_op_line(op, name) for op in seq] + pp_uses(name)
        cur.append(b"\n".join(lines))
        if len(cur) == per_file:
            files.append(("ppseq%d" % len(files), b"\n".join(cur) + b"\n"))
            cur = []
    if cur:
        files.append(("ppseq%d" % len(files), b"\n".join(cur) + b"\n"))
    return files


_PP_RAND_OPS = ("push", "pop", "defobj", "deffn", "defva", "undef", "push", "pop", "once", "ifdef", "hasinc", "incnext")


def m_pp_sequence(rng, name, data, corp):
    """insert 2-4 related directives about one macro name at increasing random line positions, then uses of it"""
    toks = _toks(name, data)
    ids = sorted({t[1] for t in toks if t[0] == "id"})
    r = rng.random()
    if ids and r < 0.5:
        mac = rng.choice(ids)          # a name the file already uses (macro, type, variable, keyword...)
    elif r < 0.8:
        mac = rng.choice((b"X", b"F", b"ONE", b"ADD", b"PUBLISHED", b"T", b"std", b"defined", b"__VA_ARGS__", b"__cplusplus"))
    else:
        mac = b"Z%d" % rng.randrange(100)
    lines = data.split(b"\n")
    n = rng.randrange(2, 5)
    pos = sorted(rng.randrange(len(lines) + 1) for _ in range(n))
    ops = [rng.choice(_PP_RAND_OPS) for _ in range(n)]
    for i in reversed(range(n)):
        lines.insert(pos[i], pp_op_line(ops[i], mac, rng))
    use_at = pos[-1] + n
    uses = pp_uses(mac)
    rng.shuffle(uses)
    for u in uses[:rng.randrange(1, 4)]:
        lines.insert(min(len(lines), use_at + rng.randrange(0, 3)), u)
    return b"\n".join(lines)


# ---------------------------------------------------------------------------
# cycles of 2-4 macros, followed by uses that reach the string-level expander (#if, #elif, the value of a later
# object-like #define, __has_include) and the token-level one (plain use, call)
# ---------------------------------------------------------------------------

CYCLE_USES = ("if", "elif", "define_then_use", "define_then_if", "has_include", "plain", "call", "ifdef_if")


def macro_cycle_lines(names, kinds, decorate=None):
    """#define lines: names[i] expands to (a call of) names[i+1], the last one back to names[0].
    kinds[i] in 'o' (object-like) / 'f' (function-like)."""
    out = []
    n = len(names)
    for i in range(n):
        nxt = names[(i + 1) % n]
        ref = nxt + (b"(a)" if kinds[(i + 1) % n] == "f" and kinds[i] == "f" else
                     (b"(1)" if kinds[(i + 1) % n] == "f" else b""))
        body = ref if decorate is None else decorate(ref)
        head = names[i] + (b"(a)" if kinds[i] == "f" else b"")
        out.append(b"#define " + head + b" " + body)
    return out


def macro_cycle_use(use, names, kinds):
    m = names[0] + (b"(1)" if kinds[0] == "f" else b"")
    m1 = names[1 % len(names)] + (b"(2)" if kinds[1 % len(names)] == "f" else b"")
    if use == "if":
        return [b"#if " + m, b"int cyc_if;", b"#endif"]
    if use == "elif":
        return [b"#if 0", b"#elif " + m1, b"int cyc_elif;", b"#endif"]
    if use == "define_then_use":
        return [b"#define CYC_X " + m, b"int cyc_v = CYC_X;"]
    if use == "define_then_if":
        return [b"#define CYC_Y (" + m1 + b" + 1)", b"#if CYC_Y", b"#endif"]
    if use == "has_include":
        return [b"#if __has_include(" + names[0] + b")", b"#endif", b"#include " + names[0]]
    if use == "plain":
        return [b"int cyc_p = " + names[0] + b";"]
    if use == "call":
        return [b"int cyc_c = " + names[0] + b"(1, 2);"]
    if use == "ifdef_if":
        return [b"#ifdef " + names[0], b"#if defined(" + names[0] + b") && " + m + b" == " + m1, b"#endif", b"#endif"]
    raise ValueError(use)


def macro_cycle_files():
    """seed-independent: cycle lengths 2..4 x {all object-like, all function-like, alternating} x every use, plus
    self-definitions and 2-cycles of the names the #if evaluator treats specially"""
    out = []
    for i, w in enumerate((b"false", b"true", b"defined", b"__has_include", b"__FILE__", b"__LINE__", b"L", b"__VA_ARGS__",
                           b"__cplusplus", b"and", b"not", b"int", b"sizeof")):
        for body, lab in ((w, "self"), (b"CYK", "two")):
            text = b"#define " + w + b" " + body + b"\n" + (b"#define CYK " + w + b"\n" if lab == "two" else b"") + \
                   b"#if " + w + b"\nint a;\n#elif CYK\n#endif\n#if defined(" + w + b") || " + w + b"(1)\n#endif\nint v = " + w + b";\n"
            out.append(("cycle_kw_%s_%s" % (w.decode(), lab), text))
    for n in (2, 3, 4):
        for pat in ("o", "f", "of"):
            kinds = [pat[i % len(pat)] for i in range(n)]
            for use in CYCLE_USES:
                names = [b"CY%d" % i for i in range(n)]
                lines = macro_cycle_lines(names, kinds) + macro_cycle_use(use, names, kinds)
                out.append(("cycle_%d%s_%s" % (n, pat, use), b"\n".join(lines) + b"\n"))
    return out


def m_macro_cycle(rng, name, data, corp):
    """define a cycle of 2-4 macros at random line positions of the file (names taken from the file half of the
    time, so that existing macros and identifiers get drawn into the cycle), then 1-3 uses later on"""
    toks = _toks(name, data)
    ids = sorted({t[1] for t in toks if t[0] == "id"})
    n = rng.randrange(2, 5)
    names = []
    for i in range(n):
        if ids and rng.random() < 0.4:
            c = rng.choice(ids)
        else:
            c = b"CY%d" % i
        if c not in names:
            names.append(c)
    if len(names) < 2:
        names = [b"CYA", b"CYB"]
    kinds = [rng.choice("of") for _ in names]
    deco = rng.choice((None, None, lambda r: b"(" + r + b" + 1)", lambda r: r + b" " + r, lambda r: b"#a " + r if False else b"1 ? " + r + b" : 0"))
    defs = macro_cycle_lines(names, kinds, deco)
    rng.shuffle(defs)
    lines = data.split(b"\n")
    pos = sorted(rng.randrange(len(lines) + 1) for _ in defs)
    for i in reversed(range(len(defs))):
        lines.insert(pos[i], defs[i])
    at = pos[-1] + len(defs)
    for _ in range(rng.randrange(1, 4)):
        use = macro_cycle_use(rng.choice(CYCLE_USES), names, kinds)
        at = min(len(lines), at + rng.randrange(0, 3))
        lines[at:at] = use
        at += len(use)
    return b"\n".join(lines)


# ---------------------------------------------------------------------------
# several files on one command line
# ---------------------------------------------------------------------------

MULTI_BROKEN = [b"int broken syntax here (;\n", b"struct { int a\n", b"#if 1\nint unterminated_if;\n", b"}\n",
                b"class Q { public: int f( };\n", b"int x = ;\n", b"template<class T> struct;\n"]
GUARDS = ("once", "guard", "none")
MULTI_PATTERNS = ("independent", "broken_includes_others", "others_include_broken", "chain", "mutual")


def _guarded(fname, guard, body):
    if guard == "once":
        return b"#pragma once\n" + body
    if guard == "guard":
        g = fname.upper().replace(b".", b"_")
        return b"#ifndef " + g + b"\n#define " + g + b"\n" + body + b"#endif\n"
    return body


def multi_files(n, broken, guard, pattern, broken_text, bodies=None):
    """-> (files, args): files = [(name, bytes)], args = command-line order.  File number `broken` holds
    broken_text; the others are valid.  pattern says who includes whom."""
    names = [b"f%d.h" % i for i in range(n)]
    files = []
    for i in range(n):
        inc = []
        others = [j for j in range(n) if j != i]
        if pattern == "broken_includes_others" and i == broken:
            inc = others
        elif pattern == "others_include_broken" and i != broken:
            inc = [broken]
        elif pattern == "chain" and i + 1 < n:
            inc = [i + 1]
        elif pattern == "mutual":
            inc = others
        body = b"".join(b"#include \"" + names[j] + b"\"\n" for j in inc)
        body += (bodies[i] if bodies else b"struct S%d { int m%d; };\nint g%d(int a);\n" % (i, i, i))
        if i == broken:
            body += broken_text
        # an unguarded file in a mutual pattern would recurse to the fd limit: legal, but slow and off-topic
        g = guard if not (pattern == "mutual" and guard == "none") else "guard"
        files.append((names[i], _guarded(names[i], g, body)))
    return files, names


def multi_enumeration():
    """seed independent: 2-3 files, the broken one at every position, every guard kind, every include pattern"""
    out = []
    for n in (2, 3):
        for broken in range(n):
            for guard in GUARDS:
                for pattern in MULTI_PATTERNS:
                    files, args = multi_files(n, broken, guard, pattern, MULTI_BROKEN[(n + broken) % len(MULTI_BROKEN)])
                    out.append(("multi_n%d_b%d_%s_%s" % (n, broken, guard, pattern), files, args, broken))
    return out


def gen_multi(rng, corp):
    """-> (label, files, args, primary index): 2-3 files with random guards/patterns; one file is broken (a fixed
    syntax error or a mutated corpus file); the command line lists them in random order, sometimes one twice or one
    not at all (it is then only reached through #include)."""
    n = rng.randrange(2, 4)
    broken = rng.randrange(n)
    guard = rng.choice(GUARDS)
    pattern = rng.choice(MULTI_PATTERNS)
    if rng.random() < 0.5:
        btext = rng.choice(MULTI_BROKEN)
        label = "multi_syntax"
    else:
        m, s, btext = gen_source(rng, [c for c in corp if len(c[1]) < 3000] or corp, stack_p=0.0)
        label = "multi_" + m
    files, args = multi_files(n, broken, guard, pattern, btext)
    args = list(args)
    rng.shuffle(args)
    r = rng.random()
    if r < 0.15:
        args.append(rng.choice(args))
    elif r < 0.3 and len(args) > 1:
        args.pop(rng.randrange(len(args)))
    return label, files, args, broken


# ---------------------------------------------------------------------------
# self-referential and cyclic declarations (using-directives, typedef/base cycles, members, aliases, initialisers)
# ---------------------------------------------------------------------------

SELF_REF_LOOKUPS = [b"undeclared x;", b"int f() { return nope::q; }", b"nope::T y;", b"typedef undeclared_t U2;",
                    b"struct D : undeclared_base {};", b"int v = undeclared_v + 1;", b"template<class T> struct Q : nope<T> {};",
                    b"using nope::thing;", b"int g(undeclared_p a);", b"enum { e = undeclared_e };"]


def self_ref_files():
    """seed independent: (label, bytes).  Each file builds one cyclic or self-referential structure and then uses it
    (lookups of undeclared names force the complete search of the cycle)."""
    out = []

    def add(label, text):
        out.append((label, text if text.endswith(b"\n") else text + b"\n"))

    # cycles of using-directives of length 1..3, in namespaces, then every kind of failing lookup inside and outside
    for n in (1, 2, 3):
        names = [b"N%d" % i for i in range(n)]
        head = b"".join(b"namespace " + x + b" { int in_" + x + b"; }\n" for x in names)
        uses = b"".join(b"namespace " + names[i] + b" { using namespace " + names[(i + 1) % n] + b"; }\n" for i in range(n))
        for j, look in enumerate(SELF_REF_LOOKUPS):
            add("using_cycle%d_in_%d" % (n, j), head + uses + b"namespace " + names[0] + b" { " + look + b" }\n")
            add("using_cycle%d_out_%d" % (n, j), head + uses + b"using namespace " + names[-1] + b";\n" + look + b"\n")
        add("using_cycle%d_qual" % n, head + uses + b"int q = " + names[0] + b"::missing;\n" + names[0] + b"::Missing m;\n")
    add("using_global_self", b"using namespace ::;\nnamespace A { using namespace ::A; using namespace A; undeclared x; }\n")
    add("using_inline_cycle", b"inline namespace I { namespace J { using namespace I; } using namespace J; }\nundeclared x;\n")
    add("using_in_class_scope", b"namespace A { struct S; }\nnamespace B { using namespace A; }\nnamespace A { using namespace B; struct S { undeclared_t m; S(); }; }\n")
    add("namespace_alias_cycle", b"namespace A {}\nnamespace B = A;\nnamespace A { namespace B = A; }\nnamespace C = C;\nB::x y;\nC::z w;\n")
    # a class that derives from itself through forward declarations, typedefs, aliases, templates, nesting
    bases = [
        ("fwd_typedef", b"struct X;\ntypedef X XT;\nstruct X : XT { int a; };\n"),
        ("fwd_typedef2", b"struct X;\ntypedef X XT;\ntypedef XT XT2;\nstruct X : public XT2 { int a; };\n"),
        ("fwd_using_alias", b"struct X;\nusing XA = X;\nstruct X : XA { int a; };\n"),
        ("fwd_direct", b"struct X;\nstruct X : X { int a; };\n"),
        ("fwd_qualified", b"namespace N { struct X; }\nstruct N::X : N::X { int a; };\n"),
        ("fwd_global_qualified", b"struct X;\nstruct X : ::X { int a; };\n"),
        ("mutual", b"struct B;\nstruct A : B { int a; };\nstruct B : A { int b; };\nA va; B vb;\n"),
        ("mutual3", b"struct A; struct B; struct C;\nstruct A : C {};\nstruct B : A {};\nstruct C : B { virtual void f(); };\nC c;\n"),
        ("mutual_typedef", b"struct B;\ntypedef B BT;\nstruct A : BT { int a; };\nstruct B : A { int b; };\n"),
        ("template_self", b"template<class T> struct R : R<T> { T v; };\nR<int> r;\n"),
        ("template_self_ptr", b"template<class T> struct R : R<T*> { T v; };\nR<int> r;\ntypedef R<char> RC;\n"),
        ("crtp_wrong", b"template<class T> struct Base : T {};\nstruct D : Base<D> { int a; };\nD d;\n"),
        ("nested_of_self", b"struct O : O::I { struct I { int q; }; };\n"),
        ("virtual_self", b"struct X;\ntypedef X XT;\nstruct X : virtual public XT { virtual ~X(); virtual int f() = 0; };\n"),
        ("union_self", b"union U;\ntypedef U UT;\nunion U : UT { int a; };\n"),
        ("enum_base_self", b"enum E : E { a };\nenum class F : F;\n"),
    ]
    for lab, text in bases:
        add("base_" + lab, text)
        add("base_" + lab + "_published", b"#define PUBLISHED __published\n" + text.replace(b"{ int a; }", b"{ PUBLISHED: int a; X(); int get() const; }"))
    # members, typedefs, aliases, initialisers and default arguments that refer to themselves
    for lab, text in [
        ("member_self", b"class K { public: K k; };\nK v;\n"),
        ("member_self_array", b"struct K { K k[2]; int n; };\n"),
        ("member_self_static", b"struct K { static K k; K *p; K &r; };\n"),
        ("member_mutual", b"struct B;\nstruct A { B b; };\nstruct B { A a; };\nA x;\n"),
        ("member_typedef_self", b"struct K;\ntypedef K KT;\nstruct K { KT k; };\n"),
        ("typedef_self", b"typedef T T;\nT v;\ntypedef struct S S;\ntypedef S *S;\n"),
        ("typedef_cycle", b"typedef B A;\ntypedef A B;\nA va;\nB vb;\nstruct Z : A {};\n"),
        ("typedef_redefine", b"typedef int T;\ntypedef T T;\ntypedef T *T;\nT t;\n"),
        ("using_alias_self", b"using U = U;\nusing V = W;\nusing W = V;\nU u; V v;\n"),
        ("alias_template_self", b"template<class T> using P = P<T>;\nP<int> p;\ntemplate<class T> using Q = Q<T*>*;\nQ<int> q;\n"),
        ("var_self_init", b"int x = x;\nconst int k = k + 1;\nint arr[k];\nconstexpr int c = c;\nenum { e = c };\n"),
        ("var_mutual_init", b"extern const int b;\nconst int a = b;\nconst int b = a;\nint arr[a];\n#if 0\n#endif\nstatic_assert(a == b, \"\");\n"),
        ("enum_self", b"enum E { a = b, b = a, c = c };\nint arr[a];\n"),
        ("enum_sizeof_self", b"enum E { a = sizeof(E), b = (int)E::a };\nstruct S { int x[sizeof(S)]; };\n"),
        ("default_arg_self", b"int f(int a = f());\nint g(int a = g(g()));\nstruct S { S(S s = S()); };\n"),
        ("decltype_self", b"decltype(x) x;\nauto y = y;\ndecltype(f()) f();\n"),
        ("template_default_self", b"template<class T = T> struct A;\ntemplate<int N = N> struct B;\ntemplate<class T, class U = A<U>> struct C;\nC<int> c;\n"),
        ("template_arg_self", b"template<class T> struct W { typedef W<W<T>> next; next n; };\nW<int> w;\ntypedef W<int>::next::next::next deep;\n"),
        ("friend_self", b"struct F { friend struct F; friend F; friend int F::f(); };\n"),
        ("scope_self", b"struct S { struct S; typedef S S2; S2::S2::S2 *p; };\nS::S::S q;\n"),
        ("make_property_self", b"#define MAKE_PROPERTY(n, ...) __make_property(n, __VA_ARGS__)\nstruct P { __published: int get_p() const; MAKE_PROPERTY(p, get_p, p); MAKE_PROPERTY(get_p, get_p); };\n"),
        ("make_seq_self", b"struct Q { __published: int get_num() const; int get(int) const; __make_seq(get, get, get); __make_seq(s, s, s); };\n"),
        ("extension_self", b"struct X { __published: __extension X(X); __extension operator X(); };\n"),
    ]:
        add("self_" + lab, text)
    return out


_DECL_NAME = re.compile(rb"\b(struct|class|union|namespace|enum|typedef)\s+(?:[A-Za-z_]\w*\s+)*?([A-Za-z_]\w*)\s*[{;:=]")


def m_self_ref(rng, name, data, corp):
    """make declarations of the file refer to themselves or to each other in a cycle: pick names the file declares
    (classes, namespaces, typedefs) and append/insert using-directives, typedefs, base lists and members that close a
    cycle, followed by a lookup of an undeclared name."""
    found = {}
    for m in _DECL_NAME.finditer(data):
        found.setdefault(m.group(1), [])
        if m.group(2) not in found[m.group(1)] and m.group(2) not in (b"public", b"final", b"T", b"typename"):
            found[m.group(1)].append(m.group(2))
    nss = found.get(b"namespace", []) or [b"ns"]
    tys = (found.get(b"struct", []) + found.get(b"class", []) + found.get(b"union", [])) or [b"SelfT"]
    tds = found.get(b"typedef", []) or [b"SelfTD"]
    add = []
    for _ in range(rng.randrange(1, 4)):
        k = rng.randrange(9)
        a, b2 = rng.choice(tys), rng.choice(tys)
        n1, n2 = rng.choice(nss), rng.choice(nss)
        if k == 0:
            add.append(b"namespace " + n1 + b" { using namespace " + n2 + b"; }\nnamespace " + n2 + b" { using namespace " + n1 + b"; " + rng.choice(SELF_REF_LOOKUPS) + b" }")
        elif k == 1:
            add.append(b"struct " + a + b";\ntypedef " + a + b" " + a + b"_t;\nstruct " + a + b" : " + a + b"_t { int selfm; };")
        elif k == 2:
            add.append(b"struct " + a + b" : " + b2 + b" {};\nstruct " + b2 + b" : " + a + b" {};")
        elif k == 3:
            add.append(b"typedef " + rng.choice(tds) + b" " + a + b";\ntypedef " + a + b" " + rng.choice(tds) + b";")
        elif k == 4:
            add.append(b"struct " + a + b"_holder { " + a + b"_holder h; " + a + b" m; };")
        elif k == 5:
            add.append(b"using namespace " + n1 + b";\nnamespace " + n1 + b" { using namespace ::" + n1 + b"; }\n" + rng.choice(SELF_REF_LOOKUPS))
        elif k == 6:
            add.append(b"namespace " + n1 + b" = " + n2 + b";\nnamespace " + n2 + b" { namespace " + n1 + b" { using namespace " + n2 + b"; } }")
        elif k == 7:
            add.append(b"template<class SelfP> struct " + a + b"_r : " + a + b"_r<SelfP> {};\n" + a + b"_r<" + b2 + b"> selfv;")
        else:
            add.append(b"const int selfk = selfk;\nint selfarr[selfk];\nenum { selfe = selfe2, selfe2 = selfe };")
    lines = data.split(b"\n")
    if rng.random() < 0.6:
        lines.extend(add)
    else:
        for a in add:
            lines.insert(rng.randrange(len(lines) + 1), a)
    lines.append(rng.choice(SELF_REF_LOOKUPS))
    return b"\n".join(lines) + b"\n"


# ---------------------------------------------------------------------------
# end of input inside every kind of bracket: every token-prefix of small bracket-heavy declarations
# ---------------------------------------------------------------------------

BRACKET_SNIPPETS = [
    ("variadic_inst", b"template<class... T> struct V;\nV<int, char, V<int> > v;\n"),
    ("variadic_nontype", b"template<int... N> struct I;\nI<1, 2, (3 > 2), sizeof(int)> i;\n"),
    ("variadic_mixed", b"template<class A, class... R> struct M;\ntypedef M<int, M<char>, const char *> MT;\n"),
    ("defaulted_inst", b"template<class A, class B = int, int C = 4> struct D {};\nD<char> d1; D<char, long> d2; D<> d3;\n"),
    ("nested_inst", b"template<class T> struct A {};\ntemplate<class T, class U> struct P {};\nP<A<A<int> >, A<P<int, char> > > p;\n"),
    ("template_template", b"template<template<class> class TT, class T> struct H { TT<T> m; };\ntemplate<class T> struct A {};\nH<A, int> h;\n"),
    ("nontype_expr", b"template<int N, bool B = (N > 2)> struct S {};\nS<(1 < 2) ? 3 : 4> s; S<sizeof(int[3]), true> t;\n"),
    ("scoped_inst", b"namespace n { template<class T> struct A { template<class U> struct B { typedef U type; }; }; }\nn::A<int>::B<char>::type x;\n"),
    ("spec_partial", b"template<class T, class U> struct Q;\ntemplate<class T> struct Q<T, T*> { int a; };\ntemplate<> struct Q<int, char> {};\n"),
    ("function_template", b"template<class T, class... A> T make(A&&... a);\nint r = make<int, char, long>('c', 2L);\n"),
    ("alias_template", b"template<class T> struct A {};\ntemplate<class... T> using L = A<A<T...> >;\nL<int, char> l;\n"),
    ("var_template", b"template<class T, T... v> constexpr T sum = (v + ...);\nint s = sum<int, 1, 2, 3>;\n"),
    ("call_args", b"int f(int, int (*)(int, char), ...);\nint r = f(1, (int (*)(int, char))0, f(2, 0), \"s\", 'c');\n"),
    ("parens_decl", b"int (*(*fp)(int (*)(void), char (&)[3]))[4];\nvoid (S::*pm)(int) const;\n"),
    ("braces_init", b"struct A { int a[2][2] = {{1, 2}, {3, 4}}; struct { int q; } in{5}; };\nint v[] = {1, {2}, };\n"),
    ("brackets", b"int a[2][3][sizeof(int[4])];\nint b = a[1][a[0][0][0]][2];\nauto l = [&, b](int (&x)[2]) mutable -> int { return x[0]; };\n"),
    ("attributes", b"[[nodiscard, gnu::always_inline(1, 2)]] int f [[deprecated(\"x\")]] (int a [[maybe_unused]]);\nstruct [[gnu::packed]] alignas(8) S {};\n"),
    ("digraphs", b"int a<:2:> = <% 1, 2 %>;\n%:define DG(x) x\nint b = DG(a<:0:>);\n"),
    ("keyword_parens", b"static_assert(sizeof(int) >= alignof(char), \"m\");\nint f() noexcept(noexcept(f()));\ndecltype(f()) x = static_cast<int>(sizeof...(int));\n"),
    ("requires", b"template<class T> concept C = requires(T a, T b) { { a + b } -> C; typename T::type; };\ntemplate<C T> requires (sizeof(T) > 1) void g(T);\n"),
    ("macro_args", b"#define F(a, b, ...) a b __VA_ARGS__\n#define G(x) F(x, (x, x), <x>, [x], {x})\nint G(int) q;\nF((1, 2), \"a,b\", ')', (,), <,>)\n"),
    ("if_parens", b"#define A(x) (x)\n#if (A((1)) + (2 * (3))) > defined(A) && __has_include(<string>)\nint t;\n#elif (1\n#endif\n"),
    ("strings_comments", b"const char *s = \"a\\\"b\" R\"x(raw ) \" )x\" u8\"u\" L'\\''; /* c1 /* */ // c2 \\\n still\nint after;\n"),
    ("class_body", b"class K : public B<int>, private virtual C { public: K(int a = (1, 2)) : B<int>(a), m{a} {} template<class T> operator T() const; private: int m : 3; };\n"),
    ("published", b"struct P { __published: int get(int i = g(1, 2)) const; __make_property(p, get, set); __make_seq(s, num, get); __extension void e(int (*)(int)); };\n"),
    ("enum_body", b"enum class E : unsigned char { a = (1 << 2), b = sizeof(int[2]), c = a | b, };\nenum { x = E::a < E::b };\n"),
    ("extern_c", b"extern \"C\" { int f(void); namespace n { struct S { union { int a; struct { char b, c; }; }; }; } }\n"),
    ("operator_decl", b"struct O { int operator()(int, int) const; int operator[](int); void *operator new[](unsigned long); O operator<<(O) const; bool operator<(O) const; template<class T> bool operator>(T) const; O operator,(O); operator int (*)(int)(); };\n"),
    ("function_body", b"int f(int a) { if (a) { for (;;) { while (a) { do { switch (a) { case 1: { break; } } } while (0); } } } return (a); }\nint after_body;\n"),
    ("lambda_capture", b"auto l = [x = (1, 2), &y, ...z = g<int, (3 > 2)>()](auto&&... a) { return [&]{ return sizeof...(a); }(); };\n"),
]


def bracket_prefix_files(step=1):
    """seed independent: every prefix of every BRACKET_SNIPPETS entry that ends at a token boundary (white space
    stripped), i.e. end of file inside every bracket / string / comment of those declarations."""
    out = []
    for lab, text in BRACKET_SNIPPETS:
        toks = tokenize(text)
        acc = b""
        k = 0
        for kind, t in toks:
            acc += t
            if kind in ("ws", "nl"):
                continue
            k += 1
            if k % step == 0 and len(acc) < len(text):
                out.append(("prefix_%s_%d" % (lab, k), acc, lab))
    return out


# ---------------------------------------------------------------------------
# .N command files: every command x hostile operands
# ---------------------------------------------------------------------------

NFILE_COMMANDS = [b"forcetype", b"forcevisible", b"renametype", b"ignoretype", b"defconstruct", b"ignoreinvolved",
                  b"ignorefile", b"ignoremember", b"noinclude", b"forceinclude", b"unknowncmd"]
NFILE_OPERANDS = [
    b"", b" ", b"Item", b"Item Item", b"NoSuchType", b"Item::Mode", b"Item::NoSuch", b"::Item", b"Item::", b"::", b"Item::Item::Item",
    b"struct { int a; }", b"struct { int a; } x", b"struct", b"struct Item", b"struct NoSuch", b"class { }", b"union { int a; char b; }",
    b"enum { a, b }", b"enum", b"enum Item::Mode", b"struct Fresh { int a; }", b"struct Item { int again; }",
    b"int", b"int *", b"int &", b"int &&", b"const", b"const int * const *", b"void", b"void *", b"unsigned", b"long long long", b"unsigned float",
    b"int[3]", b"int[]", b"int[", b"int[-1]", b"int[1/0]", b"int(", b"int()", b"int (*)(int)", b"int (*)(", b"int (Item::*)(int) const", b"int Item::*",
    b"Vec<int, 2>", b"Vec<", b"Vec<int", b"Vec<int,", b"Vec<int, 2", b"Vec<int, 2> >", b"Vec<>", b"Vec", b"Vec<Vec<int, 2>, 2>", b"Vec<int, 1/0>",
    b"Vec<int, 2>::value_type", b"Vec<int, 2>::nope", b"Vec<bool, 1>", b"Ptr<Item>", b"Ptr<", b"pi<int>", b"variadic<int>",
    b"decltype(1)", b"decltype(", b"decltype(nope)", b"decltype(*5)", b"typename Vec<int,2>::value_type", b"typename", b"auto", b"decltype(auto)",
    b"std::string", b"std::", b"std", b"Outer::Inner", b"Outer::Inner::E", b"Anon", b"AnonPtr", b"FuncPtr", b"IntArr", b"Fwd", b"Final", b"VB", b"U",
    b"1", b"1 2", b"\"str\"", b"'c'", b"Item 1", b"Item \"x\"", b"Item (", b"Item )", b"Item {", b"Item }", b"Item ;", b"Item , Item", b"Item = 3",
    b"Item 0.0f", b"Item 1, 2", b"Item Item()", b"Item 1/0", b"Item (1", b"Item x y z", b"NoSuch 1", b"Vec3f 0.0f", b"Vec3f", b"Vec3f LVec3f", b"Vec3f Vec3f",
    b"<memory>", b"<memory", b"memory>", b"\"local.h\"", b"\"local.h", b"<>", b"\"\"", b"<", b"\"", b"< a >", b"<a> <b>",
    b"#", b"# Item", b"Item # trailing", b"\\", b"Item \\", b"\xff", b"Item\xff", b"\x00", b"Item\tItem", b"__published", b"__make_property(a, b)",
    b"operator", b"operator int", b"Item::operator ==", b"~Item", b"Item::~Item", b"this", b"nullptr", b"sizeof(int)", b"template<class T> struct Q",
    b"X" * 300, b"Item::" * 200 + b"Item", b"(" * 300, b"Vec<" * 40, b"*" * 500,
]

N_MAIN_TEXT = b"""
#define PUBLISHED __published
class Item {
PUBLISHED:
  Item();
  explicit Item(int v);
  int get_value() const;
  void set_value(int v);
  enum Mode { M_a, M_b = 4 };
public:
  int _v;
};
template<class T, int N = 4>
class Vec {
public:
  typedef T value_type;
  Vec() {}
  T &operator [] (int i) { return _d[i]; }
private:
  T _d[N];
};
template<> struct Vec<bool, 1> { int bits; };
typedef Vec<float, 3> Vec3f;
template<class... Args> void variadic(Args&&... args);
template<class T> using Ptr = T *;
template<typename T> constexpr T pi = T(3);
struct Point { int x, y; };
union U { int i; float f; };
struct Outer { struct Inner { int q; enum E { e1, e2 }; } in; };
typedef struct { int a; } Anon, *AnonPtr;
typedef int (*FuncPtr)(int, ...);
typedef int IntArr[4][2];
struct Fwd;
struct Final final : Point { void v(); };
struct VB : virtual public Point { using Point::x; };
"""


def nfile_enumeration():
    """seed independent: (label, bytes) one command line per file: every command x every operand"""
    out = []
    for ci, c in enumerate(NFILE_COMMANDS):
        for oi, o in enumerate(NFILE_OPERANDS):
            sep = b" " if (ci + oi) % 5 else b"\t "
            out.append(("ncmd_%s_%d" % (c.decode(), oi), c + sep + o + (b"\n" if oi % 3 else b"")))
    return out


def m_dict_compose(rng, name, data, corp):
    """a small file made only of dictionary items around a few valid lines."""
    lines = []
    for _ in range(rng.randrange(1, 8)):
        r = rng.random()
        if r < 0.5:
            lines.append(rng.choice(LINE_DICT))
        elif r < 0.85:
            lines.append(b" ".join(rng.choice(TOKEN_DICT) for _ in range(rng.randrange(1, 6))))
        else:
            src = rng.choice(corp)[1].split(b"\n")
            lines.append(rng.choice(src))
    tail = rng.choice((b"\n", b"", b"\n#endif\n", b"\n;\n"))
    return b"\n".join(lines) + tail


MUTATORS = {
    "identity": (m_identity, 1),
    "tok_delete": (m_tok_delete, 8),
    "tok_dup": (m_tok_dup, 6),
    "tok_swap": (m_tok_swap, 6),
    "tok_replace": (m_tok_replace, 10),
    "tok_insert": (m_tok_insert, 10),
    "bracket": (m_bracket, 6),
    "splice": (m_splice, 6),
    "line": (m_line, 5),
    "dict_line": (m_dict_line, 10),
    "byte_flip": (m_byte_flip, 5),
    "byte_insert": (m_byte_insert, 5),
    "byte_delete": (m_byte_delete, 4),
    "byte_set": (m_byte_set, 3),
    "trunc_rand": (m_trunc_rand, 3),
    "trunc_in": (m_trunc_in, 8),
    "newlines": (m_newlines, 3),
    "dict_compose": (m_dict_compose, 8),
    "pp_sequence": (m_pp_sequence, 10),
    "macro_cycle": (m_macro_cycle, 8),
    "self_ref": (m_self_ref, 8),
}
_MUT_NAMES = sorted(MUTATORS)
_MUT_WEIGHTS = [MUTATORS[n][1] for n in _MUT_NAMES]


def gen_source(rng, corp, stack_p=0.25):
    """-> (mutator_name, seed_name, data).  With probability stack_p a second mutator is stacked."""
    name, data = rng.choice(corp)
    # small seeds are preferred: large seeds make each run slower and crashes harder to minimise
    if len(data) > 4000 and rng.random() < 0.6:
        name, data = rng.choice(corp)
    m = rng.choices(_MUT_NAMES, _MUT_WEIGHTS)[0]
    out = MUTATORS[m][0](rng, name, data, corp)
    label = m
    if rng.random() < stack_p and m != "identity":
        m2 = rng.choices(_MUT_NAMES, _MUT_WEIGHTS)[0]
        if m2 not in ("identity", "dict_compose"):
            out = MUTATORS[m2][0](rng, "\0stacked", out, corp)
            _tok_cache.pop("\0stacked", None)
            label = m + "+" + m2
    return label, name, out[:MAX_LEN]


def gen_nfile(rng, corp):
    base = rng.choice(NFILES)
    r = rng.random()
    if r < 0.05:
        return "n_identity", base
    if r < 0.45:
        # 1-4 command lines from the command x operand alphabet, optionally mutated at byte level
        lines = []
        for _ in range(rng.randrange(1, 5)):
            o = rng.choice(NFILE_OPERANDS)
            if rng.random() < 0.3:
                o = o + b" " + rng.choice(NFILE_OPERANDS)
            if rng.random() < 0.2 and o:
                o = o[:rng.randrange(len(o))]
            lines.append(rng.choice(NFILE_COMMANDS) + rng.choice((b" ", b" ", b"\t", b"  ", b"")) + o)
        if rng.random() < 0.3:
            lines.insert(rng.randrange(len(lines) + 1), rng.choice(base.split(b"\n")))
        return "n_cmd", b"\n".join(lines) + rng.choice((b"\n", b"", b"\r\n"))
    if r < 0.65:
        lines = base.split(b"\n")
        i = rng.randrange(len(lines))
        cmd = rng.choice(NFILE_COMMANDS + [b""])
        n = rng.randrange(0, 5)
        arg = b" ".join(rng.choice(TOKEN_DICT) for _ in range(n))
        lines.insert(i, cmd + rng.choice((b" ", b"", b"\t", b"  ")) + arg)
        return "n_dict", b"\n".join(lines)
    m = rng.choice(("tok_delete", "tok_dup", "tok_replace", "tok_insert", "bracket", "byte_flip", "byte_insert",
                    "byte_delete", "trunc_rand", "newlines", "splice"))
    out = MUTATORS[m][0](rng, "\0n", base, corp)
    _tok_cache.pop("\0n", None)
    return "n_" + m, out[:MAX_LEN]


def gen_defines(rng, corp):
    base = [bytes(d) for d in rng.choice(DEFINES)]
    r = rng.random()
    if r < 0.1:
        return "d_identity", base
    i = rng.randrange(len(base))
    if r < 0.3:
        h = rng.choice(DEF_HEADS + DEF_ODD_HEADS)
        body = rng.choice(DEF_BODIES)
        if rng.random() < 0.4:
            body = body + rng.choice((b" ", b" && ", b"", b"+")) + rng.choice(DEF_BODIES)
        return "d_probe", [b"W(x)=x", (h + body).replace(b"\0", b"\1")[:2000]]
    if r < 0.5:
        name = rng.choice((b"X", b"Y", b"F(a,b)", b"F(", b"F(a", b"F()", b"V(...)", b"V(a,...)", b"G()", b"", b"1", b"F(a,a)", b"F(1)", b"X Y", b"(", b"X)"))
        body = b" ".join(rng.choice(TOKEN_DICT) for _ in range(rng.randrange(0, 4)))
        base[i] = name + rng.choice((b"=", b"=", b"", b"==")) + body
        label = "d_dict"
    else:
        m = rng.choice(("tok_delete", "tok_dup", "tok_replace", "tok_insert", "bracket", "byte_flip", "byte_insert",
                        "byte_delete", "trunc_rand"))
        base[i] = MUTATORS[m][0](rng, "\0d", base[i], corp)
        _tok_cache.pop("\0d", None)
        label = "d_" + m
    base = [d.replace(b"\0", b"\1")[:2000] for d in base]
    return label, base


# ---------------------------------------------------------------------------
# deep nesting
# ---------------------------------------------------------------------------

NEST_KINDS = ("paren_expr", "paren_if", "template_args", "if_levels", "namespaces", "structs", "blocks", "pointers",
              "arrays", "unary", "fn_declarators", "macro_calls", "scopes", "ternary", "binary_chain", "init_braces",
              "string_concat", "macro_chain", "paren_decl", "template_decl", "enum_chain", "typedef_chain",
              "include_self", "lambda_nest", "cast_chain", "defined_chain", "comment_stars", "base_chain")


def gen_nesting(rng, kind, n):
    k = kind
    if k == "paren_expr":
        return b"int x = " + b"(" * n + b"1" + b")" * n + b";\n"
    if k == "paren_if":
        return b"#if " + b"(" * n + b"1" + b")" * n + b"\nint x;\n#endif\n"
    if k == "template_args":
        return b"template<class T> struct A {};\ntypedef " + b"A<" * n + b"int" + b" >" * n + b" deep;\n"
    if k == "if_levels":
        return b"#if 1\n" * n + b"int x;\n" + b"#endif\n" * n
    if k == "namespaces":
        return b"namespace a {\n" * n + b"int x;\n" + b"}\n" * n
    if k == "structs":
        return b"struct A {\n" * n + b"int x;\n" + b"};\n" * n
    if k == "blocks":
        return b"void f() " + b"{" * n + b"}" * n + b"\n"
    if k == "pointers":
        return b"int " + b"*" * n + b"x;\nint " + b"*const " * n + b"y = 0;\n"
    if k == "arrays":
        return b"int x" + b"[1]" * n + b";\n"
    if k == "unary":
        return b"int x = " + rng.choice((b"-", b"!", b"~", b"+", b"- -", b"*&")) * n + b"1;\n#if " + b"!" * n + b"1\n#endif\n"
    if k == "fn_declarators":
        return b"int " + b"(*" * n + b"f" + b")(int)" * n + b";\n"
    if k == "macro_calls":
        return b"#define F(x) (x+1)\nint x = " + b"F(" * n + b"1" + b")" * n + b";\n"
    if k == "scopes":
        return b"int x = " + b"a::" * n + b"b;\n" + b"a::" * n + b"T y;\n"
    if k == "ternary":
        return b"int x = " + b"1 ? " * n + b"0" + b" : 0" * n + b";\n#if " + b"1 ? " * n + b"0" + b" : 0" * n + b"\n#endif\n"
    if k == "binary_chain":
        op = rng.choice((b"+", b"-", b"*", b"|", b"&&", b"<<", b",", b"==", b"<"))
        return b"int x = 1" + (b" " + op + b" 1") * n + b";\n#if 1" + (b" " + op + b" 1") * n + b"\n#endif\n"
    if k == "init_braces":
        return b"int x = " + b"{" * n + b"1" + b"}" * n + b";\n"
    if k == "string_concat":
        return b"const char *s = " + b"\"a\" " * n + b";\n"
    if k == "macro_chain":
        out = [b"#define M0 1\n"]
        for i in range(1, n + 1):
            out.append(b"#define M%d (M%d + M%d)\n" % (i, i - 1, 0) if i % 2 else b"#define M%d M%d\n" % (i, i - 1))
        out.append(b"int x = M%d;\n#if M%d\n#endif\n" % (n, n))
        return b"".join(out)
    if k == "paren_decl":
        return b"int " + b"(" * n + b"x" + b")" * n + b";\n"
    if k == "template_decl":
        return b"template<class T> " * n + b"struct A;\n" + b"template<" + b"template<" * min(n, 200) + b"class" + b"> class" * min(n, 200) + b" T> struct B;\n"
    if k == "enum_chain":
        out = [b"enum E {\n e0 = 1,\n"]
        for i in range(1, n + 1):
            out.append(b" e%d = e%d + 1,\n" % (i, i - 1))
        out.append(b"};\nint arr[e%d];\n" % n)
        return b"".join(out)
    if k == "typedef_chain":
        out = [b"typedef int T0;\n"]
        for i in range(1, n + 1):
            out.append(b"typedef T%d *T%d;\n" % (i - 1, i))
        out.append(b"T%d v;\nstruct S { T%d m; };\n" % (n, n))
        return b"".join(out)
    if k == "include_self":
        # the including file is called main.h / inc.h by the harness
        return b"#include \"main.h\"\n#include \"inc.h\"\nint x;\n"
    if k == "lambda_nest":
        return b"auto x = " + b"[]{ return " * n + b"1" + b"; }()" * n + b";\n"
    if k == "cast_chain":
        return b"int x = " + b"(int)" * n + b"1;\nint y = " + b"int(" * n + b"1" + b")" * n + b";\n"
    if k == "defined_chain":
        return b"#if " + b"defined(A) || " * n + b"0\n#endif\n#define A(x) x\n#if " + b"A(" * n + b"1" + b")" * n + b"\n#endif\n"
    if k == "comment_stars":
        return b"/" + b"*" * n + b"/ int x; /" + b"*/" * n + b"\n//" + b"\\\n" * n + b"\nint y;\n"
    if k == "base_chain":
        out = [b"struct B0 { virtual void f(); };\n"]
        for i in range(1, n + 1):
            out.append(b"struct B%d : B%d { };\n" % (i, i - 1))
        out.append(b"B%d inst;\n" % n)
        return b"".join(out)
    raise ValueError(kind)


# ---------------------------------------------------------------------------
# every operator in #if and in constant expressions, with edge operands
# ---------------------------------------------------------------------------

BINOPS = [b"+", b"-", b"*", b"/", b"%", b"<<", b">>", b"&", b"|", b"^", b"&&", b"||", b"==", b"!=", b"<", b">", b"<=", b">=",
          b"<=>", b",", b"=", b"+=", b"->", b".", b"::", b"?", b":", b".*", b"->*", b"and", b"or", b"xor", b"bitand", b"bitor",
          b"not_eq", b"##"]
UNOPS = [b"-", b"+", b"!", b"~", b"*", b"&", b"++", b"--", b"not", b"compl", b"sizeof", b"sizeof ", b"alignof", b"defined ",
         b"(int)", b"(bool)", b"(char)", b"(unsigned)", b"(float)", b"(void)", b"(long long)", b"(unsigned char)", b"throw ",
         b"new ", b"delete ", b"typeid", b"noexcept", b"co_await ", b"(int*)", b"(T)", b"static_cast<int>", b"__is_enum"]
OPERANDS = [b"0", b"1", b"-1", b"2", b"3", b"31", b"32", b"63", b"64", b"65", b"2147483647", b"(-2147483647-1)", b"4294967295",
            b"9223372036854775807", b"(-9223372036854775807-1)", b"18446744073709551615", b"18446744073709551616u", b"0x7fffffff", b"0xffffffffffffffff", b"1u", b"1ll", b"1ull", b"'a'", b"'\\0'", b"'\\377'",
            b"L'a'", b"1.5", b"0.0", b"-0.0", b"1e308", b"1e999", b"1.f", b"\"s\"", b"\"\"", b"true", b"false", b"nullptr",
            b"X", b"UNDEF", b"F(1)", b"defined(X)", b"sizeof(int)", b"(1,2)", b"()", b"(", b")", b"", b"int", b"E1", b"k", b"::k",
            b"N::k", b"S::m", b"this", b"arr", b"arr[0]", b"f()", b"f", b"&f", b"*p", b"T()", b"T{}", b"int()", b"__LINE__", b"__FILE__"]

_EXPR_CTX = [
    (b"#define X 3\n#define F(a) (a)\n#if %s\nint taken;\n#endif\n", "if"),
    (b"#define X 3\n#if 0\n#elif %s\nint taken;\n#endif\n", "elif"),
    (b"enum E0 { E1 = 4 };\nconst int k = 7;\nenum E { v = %s };\n", "enum"),
    (b"const int k = 7;\nstatic const int c = %s;\nint arr[c];\n", "const"),
    (b"const int k = 7;\nint arr[%s];\n", "array"),
    (b"struct S { static const int m = 2; int bf : %s; };\n", "bitfield"),
    (b"template<int N> struct T {};\ntypedef T<%s> TT;\nTT inst;\n", "template_arg"),
    (b"template<int N = %s> struct T {};\nT<> inst;\n", "template_default"),
    (b"int f(int a = %s);\n", "default_arg"),
    (b"static_assert(%s, \"m\");\n", "static_assert"),
    (b"struct alignas(%s) Q {};\n", "alignas"),
    (b"constexpr auto v = %s;\ndecltype(%s) w;\n", "auto"),
    (b"void f() noexcept(%s);\nstruct K { explicit(%s) K(int); };\n", "noexcept"),
    (b"#define X 3\n#define V %s\n#if V\n#endif\nint a = V;\n", "macro_body"),
]


def gen_ifops(rng):
    r = rng.random()
    if r < 0.45:
        e = rng.choice(OPERANDS) + b" " + rng.choice(BINOPS) + b" " + rng.choice(OPERANDS)
        kind = "bin"
    elif r < 0.65:
        e = rng.choice(UNOPS) + rng.choice(OPERANDS)
        if rng.random() < 0.3:
            e = rng.choice(UNOPS) + b"(" + e + b")"
        kind = "un"
    elif r < 0.8:
        e = rng.choice(OPERANDS) + b" ? " + rng.choice(OPERANDS) + b" : " + rng.choice(OPERANDS)
        kind = "tern"
    else:
        e = rng.choice(OPERANDS)
        for _ in range(rng.randrange(2, 5)):
            e = b"(" + e + b" " + rng.choice(BINOPS) + b" " + rng.choice(UNOPS[:8]) + rng.choice(OPERANDS) + b")"
        kind = "nest"
    ctx, cname = rng.choice(_EXPR_CTX)
    return "ifops_" + kind + "_" + cname, ctx.replace(b"%s", e)
