"""natgen — libgen libraries with the -python-native feature set of property C02.

Built on libgen.Gen (same trace runtime, same model format; libgen itself is untouched so stored seeds of the other
checks keep generating the same libraries).  On top of what libgen emits, every library gets, spread over its classes:

  ovset      overload sets (method / static / free) with 2-5 members over 0-4 arities whose members are distinguishable
             by Python type category (int / float / str / instance of class or derived class), trailing defaults
             (arities that overlap only through defaults), integer members of different widths, and the
             f(int,int) / f(int,double,int=d) shape
  constpair  const / non-const overload pairs, non-const-only and const-only methods, functions handing out const
             and non-const pointers / references to existing objects
  kwnames    methods and parameters whose C++ names are Python keywords
  coerce     non-explicit and explicit converting constructors + functions taking the class by const reference / value
  setitem    int &operator [](int) (item assignment), with size() (sequence protocol) or without (mapping protocol)
  ops        comparison and arithmetic operators beyond libgen's (!=, <=, >, >=, -, *, +=)
  nested     a nested published class
  enumneg    a scoped enum with negative member values used as parameter and result
  consts     published integer / string macros
  seqprop    MAKE_SEQ_PROPERTY

generate(rng, name) -> libgen.Lib (model has the extra keys "features", per function "feature").
"""
import json

from . import libgen
from .libgen import T, ctype, INT_RANGE

# valid C++ identifiers that are Python 3 keywords
PY_KEYWORDS = ["def", "from", "lambda", "pass", "is", "in", "global", "with", "yield", "del", "raise", "as", "elif",
               "except", "finally", "nonlocal", "None", "True", "False"]
INT_WIDTHS = ["int", "unsigned int", "short", "unsigned short", "long", "unsigned long", "long long",
              "unsigned long long", "signed char", "unsigned char"]
FEATURES = ["ovset", "constpair", "kwnames", "coerce", "setitem", "ops", "nested", "enumneg", "seqprop", "ovset2", "inquiry", "ops"]


def P(name, t, default=None, default_value=None):
    return dict(name=name, type=t, default=default, default_value=default_value)


class NatGen(libgen.Gen):
    def __init__(self, rng, name, **kw):
        super().__init__(rng, name, native=True, docs=False, **kw)
        self.strings = True
        self.arrays = True
        self.ordering = False
        self.oddities = False
        self.next_cls_name = None
        self.n_top = None
        self.top_count = 0
        self.in_extra = False
        self.deck = []
        self.model["features"] = []
        self.free_extra = []       # callables that emit free functions later (inside the last BEGIN_PUBLISH)

    # ---- plumbing
    def ident(self, prefix):
        if prefix == "Cls" and self.next_cls_name:
            n, self.next_cls_name = self.next_cls_name, None
            return n
        return super().ident(prefix)

    def capture(self, fn):
        """run fn() with header output captured; returns the captured lines"""
        saved = self.h
        self.h = []
        try:
            fn()
            out = self.h
        finally:
            self.h = saved
        return out

    def gen_function(self, cls=None, kind="free", name=None, ret=None, params=None, **kw):
        if kind == "ctor" and params:
            # a constructor taking another class by value / reference is a converting constructor from every class
            # derived from both, which makes libgen's own copy-constructor initialisers ambiguous: use pointers
            for p in params:
                t = p["type"]
                if t["k"] == "obj" and t["mode"] in ("val", "cref", "ref"):
                    t["mode"] = "cptr" if t["mode"] == "cref" else "ptr"
        return super().gen_function(cls, kind, name=name, ret=ret, params=params, **kw)

    def feat(self, name):
        if name not in self.model["features"]:
            self.model["features"].append(name)

    def own_classes(self):
        return [c for c in self.model["classes"] if c.get("complete")]

    # ---- class generation with extras
    def gen_class(self, bases=(), ns=None, nested_in=None, abstract_root=False):
        r = self.r
        if not self.deck:
            self.deck = list(FEATURES)
            r.shuffle(self.deck)
        todo = [self.deck.pop() for _ in range(min(len(self.deck), r.choice([2, 3, 3])))]
        nested_lines = None
        nested_cls = None
        if "nested" in todo and ns is None:
            outer = super().ident("Cls")

            def mk():
                nonlocal nested_cls
                nested_cls = self.plain_class(ns=outer)
            nested_lines = self.capture(mk)
            self.next_cls_name = outer
        cls = super().gen_class(bases=bases, ns=ns)
        cls["features"] = []
        if nested_lines is not None:
            # splice the nested class right after this class's PUBLISHED: line
            i = len(self.h) - 1
            while not self.h[i].startswith("class " + cls["name"]):
                i -= 1
            self.h[i + 2:i + 2] = ["  " + l if l and not l.startswith(("PUBLISHED:", "public:")) else l for l in nested_lines] + ["PUBLISHED:"]
            nested_cls["nested_in"] = cls["qname"]
            cls["nested"].append(nested_cls["qname"])
            cls["features"].append("nested")
            self.feat("nested")
        ind = "  "
        extra = self.capture(lambda: self.extras(cls, [t for t in todo if t != "nested"], ind))
        at = len(self.h) - 5
        assert self.h[at] == "public:", self.h[at:]
        self.h[at:at] = extra
        if ns is None and not self.in_extra:
            self.top_count += 1
            if self.top_count == self.n_top:
                self.add_mi_group()
        return cls

    def depth(self, q):
        return 1 + max([self.depth(b["qname"]) for b in self.classes[q]["bases"]], default=-1)

    def ancs(self, q):
        out = set()
        for b in self.classes[q]["bases"]:
            out |= {b["qname"]} | self.ancs(b["qname"])
        return out

    def small_class(self, bases):
        saved = self.size
        self.size = 0.5
        try:
            return libgen.Gen.gen_class(self, bases=bases)
        finally:
            self.size = saved

    def add_mi_group(self):
        """class D : Deep, Shallow with depth(Deep) >= 2 > depth(Shallow) (the deeper base listed first) and overload
        sets over {ancestors of Deep, Deep, Shallow, D}: an instance of each must reach exactly its own overload"""
        self.in_extra = True
        top = [c for c in self.model["classes"] if "::" not in c["qname"] and c.get("complete")]
        deep = max(top, key=lambda c: self.depth(c["qname"]))
        while self.depth(deep["qname"]) < 2:
            deep = self.small_class([(deep["qname"], False)])
        fam = self.ancs(deep["qname"]) | {deep["qname"]}
        shallow = [c for c in top if c["qname"] not in fam and deep["qname"] not in self.ancs(c["qname"]) and
                   not ((self.ancs(c["qname"]) | {c["qname"]}) & fam) and self.depth(c["qname"]) < self.depth(deep["qname"])]
        sh = self.r.choice(shallow) if shallow else self.small_class([])
        d = self.small_class([(deep["qname"], False), (sh["qname"], False)])
        d["mi_deep_first"] = True
        mid = self.classes[deep["qname"]]["bases"][0]["qname"]
        self.model["mi_group"] = dict(deep=deep["qname"], shallow=sh["qname"], derived=d["qname"], mid=mid, sets=[])
        self.feat("mi-deep-first")

        def later():
            for mode in ("cref", self.r.choice(["ptr", "cptr", "ref"])):
                name = self.ident("mio_")
                for q in [deep["qname"], d["qname"]] + self.r.sample([mid, sh["qname"]], self.r.choice([0, 1, 2])):
                    f = self.emit(None, "free", name, [P(f"m0_{self.r.randrange(100)}", T("obj", cls=q, mode=mode))],
                                  ret=T("int", c="int"), feature="mi-ovset")
                    f["overload_set"] = name
                self.model["mi_group"]["sets"].append(name)
        self.free_extra.append(later)
        self.add_proto_classes()
        self.in_extra = False

    # ---- dedicated classes for the attribute / iterator / named item / three-way comparison / stream protocols
    def clean_class(self, forbid):
        """a small stand-alone class none of whose libgen-made members has a name in forbid (retry with rollback)"""
        for attempt in range(12):
            nh, nc, ncl, nen, nmen = len(self.h), len(self.cx), len(self.model["classes"]), len(self.enums), len(self.model["enums"])
            c = self.small_class([])
            names = {m["name"] for m in c["methods"]}
            if not (names & forbid) and not c["properties"] and not c["seqs"] and not c["members"]:
                return c
            del self.h[nh:], self.cx[nc:], self.model["classes"][ncl:], self.enums[nen:], self.model["enums"][nmen:]
            del self.classes[c["qname"]]
        return None

    def splice(self, cls, fn):
        """run fn() and put the header lines it emits into the PUBLISHED section of the (already closed) class"""
        at = next(i for i, l in enumerate(self.h) if l == f"  unsigned long long st_{cls['name']};") - 1
        assert self.h[at] == "public:", self.h[at]
        extra = self.capture(fn)
        self.h[at:at] = extra

    def raw_method(self, cls, decl, head, body, eid, name, op, params=(), ret=None, const=True, **kw):
        """a hand-written published method (declaration line, definition head, body lines)"""
        self.h.append("  " + decl)
        self.cx.append(head + " {")
        self.cx += body
        self.cx.append("}")
        f = dict(eid=eid, name=name, qname=cls["qname"] + "::" + name, cls=cls["qname"], kind="method", const=const,
                 virtual=False, static=False, params=list(params), ret=ret or T("void"), doc=None, lib=self.name,
                 ret_owner="value", operator=op, feature="proto")
        f.update(kw)
        cls["methods"].append(f)
        return f

    def add_proto_classes(self):
        r = self.r
        OPN = {"operator []", "size", "operator ==", "operator <", "operator int", "operator ()"}
        sref = T("string", ref=True)
        # A: attribute protocol + compare_to + get_hash
        a = self.clean_class(OPN)
        if a is not None:
            def mk_a():
                for nm, op, ps, ret, const in (
                        ("__getattr__", "getattr", [P("name", sref)], r.choice([T("int", c="int"), T("string", ref=False)]), True),
                        ("__setattr__", "setattr", [P("name", sref), P("value", r.choice([T("int", c="int"), T("float", c="double")]))], T("void"), False),
                        ("__delattr__", "delattr", [P("name", sref)], T("void"), False)):
                    self.emit(a, "method", nm, ps, ret=ret, const=const, ind="  ", feature="proto")["operator"] = op
                f = self.emit(a, "method", "compare_to", [P("other", T("obj", cls=a["qname"], mode="cref"))], ret=T("int", c="int"),
                              const=True, ind="  ", feature="proto")
                f["cmp_to"] = True
                self.const_handles(a, "  ")
            self.splice(a, mk_a)
            a["attr_class"] = True
            self.feat("proto-attr")
        # B: named item methods through the sequence protocol (+ __contains__ as a plain method)
        b = self.clean_class(OPN)
        if b is not None:
            it = T("int", c="int")

            def mk_b():
                n = self.emit(b, "method", "__len__", [], ret=it, const=True, ind="  ", feature="proto")
                self.fix_body_return(n, "4")
                n["operator"] = "len"
                self.emit(b, "method", "__getitem__", [P("i", it)], ret=r.choice([it, T("float", c="double")]), const=True, ind="  ",
                          feature="proto")["operator"] = "getitem_n"
                self.emit(b, "method", "__setitem__", [P("i", it), P("v", r.choice([it, T("float", c="double")]))], ret=T("void"),
                          const=False, ind="  ", feature="proto")["operator"] = "setitem_n"
                self.emit(b, "method", "__delitem__", [P("i", it)], ret=T("void"), const=False, ind="  ",
                          feature="proto")["operator"] = "delitem_n"
                self.emit(b, "method", "__contains__", [P("x", it)], ret=T("bool"), const=True, ind="  ", feature="proto")
                self.const_handles(b, "  ")
            self.splice(b, mk_b)
            b["named_items"] = "sequence"
            self.feat("proto-items-seq")
        # C: named item methods through the mapping protocol (string keys), iterator protocol, output / write
        c = self.clean_class(OPN | {"next"})
        if c is not None:
            q, name = c["qname"], c["name"]
            it = T("int", c="int")

            def mk_c():
                self.emit(c, "method", "__getitem__", [P("key", sref)], ret=it, const=True, ind="  ",
                          feature="proto")["operator"] = "getitem_n"
                self.emit(c, "method", "__setitem__", [P("key", sref), P("v", it)], ret=T("void"), const=False, ind="  ",
                          feature="proto")["operator"] = "setitem_n"
                self.emit(c, "method", "__delitem__", [P("key", sref)], ret=T("void"), const=False, ind="  ",
                          feature="proto")["operator"] = "delitem_n"
                e1, e2 = self.new_eid(), self.new_eid()
                self.raw_method(c, f"{name} *__iter__();", f"{q} *{q}::__iter__()",
                                [f"  vf::Ev vf_e({e1}, this);", f"  vf_it_{name} = 0;", '  vf_e.obj("r", this);', "  return this;"],
                                e1, "__iter__", "iter", ret=T("obj", cls=q, mode="ptr"), const=False, returns="this")
                self.raw_method(c, f"{name} *__next__();", f"{q} *{q}::__next__()",
                                [f"  vf::Ev vf_e({e2}, this);",
                                 f"  {q} *vf_r = vf_it_{name} < 3 ? {q}::vf_pool(vf_it_{name}) : nullptr;", f"  ++vf_it_{name};",
                                 '  vf_e.obj("r", vf_r);', "  return vf_r;"],
                                e2, "__next__", "next", ret=T("obj", cls=q, mode="ptr"), const=False)
            self.splice(c, mk_c)
            c.setdefault("raw_public", []).append(f"#ifndef CPPPARSER\n  int vf_it_{name} = 0;\n#endif")
            c["named_items"] = "mapping"
            c["iter_class"] = True
            self.feat("proto-items-map")
            self.feat("proto-iter")

    def plain_class(self, ns):
        """a small class generated by libgen only (used as nested class)"""
        saved = self.size
        self.size = 0.5
        try:
            return super().gen_class(bases=(), ns=ns)
        finally:
            self.size = saved

    def extras(self, cls, todo, ind):
        for t in todo:
            getattr(self, "x_" + t)(cls, ind)
            cls["features"].append(t)
            self.feat(t)

    # ---- helpers for parameter kinds
    def cat_type(self, cat, exclude_cls=()):
        """a parameter type of Python category cat: i int, f float, s str, o instance"""
        r = self.r
        if cat == "i":
            return T("int", c=r.choice(INT_WIDTHS))
        if cat == "I":
            return T("int", c="int")
        if cat == "f":
            return T("float", c=r.choice(["float", "double"]))
        if cat == "D":
            return T("float", c="double")
        if cat == "s":
            return r.choice([T("string", ref=True), T("string", ref=False), T("cstr")])
        if cat == "b":
            return T("bool")
        if cat == "e" and self.enums:
            e = r.choice(self.enums)
            return T("enum", name=e["qname"], scoped=e["scoped"])
        if cat == "o":
            cands = [c for c in self.classes.values() if c.get("complete") and c["qname"] not in exclude_cls]
            if cands:
                c = r.choice(cands)
                return T("obj", cls=c["qname"], mode=r.choice(["ptr", "cptr", "ref", "cref", "cref", "val"]))
        return T("int", c="int")

    @staticmethod
    def catkey(t):
        k = t["k"]
        if k == "int":
            return "i"
        if k == "enum":
            # Python has only int for an unscoped enum value: never let it compete with an integer parameter
            return "e:" + t["name"] if t.get("scoped") else "i"
        if k == "float":
            return "f"
        if k in ("string", "cstr"):
            return "s"
        if k == "bool":
            return "b"
        return "o:" + t["cls"]

    def add_defaults(self, ps, n):
        for i in range(len(ps) - 1, max(len(ps) - 1 - n, -1), -1):
            txt, val = self.default_for(ps[i]["type"])
            if txt is None:
                break
            ps[i]["default"], ps[i]["default_value"] = txt, val

    def emit(self, cls, kind, name, params, ret=None, const=False, ind="  ", feature=None, static_ok=True):
        f = self.gen_function(cls, kind, name=name, params=params, ret=ret, const=const, indent=ind if cls else "")
        f["feature"] = feature
        if cls is not None:
            cls["methods"].append(f)
        else:
            self.model["functions"].append(f)
        return f

    # ---- overload sets
    def overload_members(self, shape=None):
        """list of parameter lists; members pairwise distinguishable by category signature or by arity beyond defaults"""
        r = self.r
        shape = shape or r.choice(["cats", "cats", "widths", "iid", "classes", "defaults", "mixed"])
        members = []
        n = 0

        def mk(cats, ndef=0):
            nonlocal n
            ps = []
            for j, ch in enumerate(cats):
                ps.append(P(f"p{j}_{r.randrange(100)}", self.cat_type(ch)))
            self.add_defaults(ps, ndef)
            n += 1
            return ps
        if shape == "iid":
            # DESIGN §5-15: f(int,int) vs f(int,double,int=d)
            members.append(mk("II"))
            ps = mk("IDI", 1)
            members.append(ps)
            if r.random() < 0.5:
                members.append(mk(r.choice(["s", "", "IsI"])))
        elif shape == "widths":
            ws = r.sample(INT_WIDTHS, r.choice([2, 3]))
            for w in ws:
                members.append([P(f"p0_{r.randrange(100)}", T("int", c=w))])
            if r.random() < 0.5:
                members.append(mk(r.choice(["f", "s"])))
        elif shape == "classes":
            cands = [c for c in self.classes.values() if c.get("complete")]
            r.shuffle(cands)
            for c in cands[:r.choice([2, 3])]:
                members.append([P(f"p0_{r.randrange(100)}", T("obj", cls=c["qname"], mode=r.choice(["cref", "cptr", "ptr", "ref"])))])
            members.append(mk(r.choice(["i", "s", ""])))
        elif shape == "defaults":
            # arities that meet only through defaults
            members.append(mk(r.choice(["i", "s", "f"])))
            members.append(mk(r.choice(["ii", "if", "si", "fs"]), 1))
            members.append(mk(r.choice(["iii", "sfi", "isf", "ffi"]), r.choice([1, 2])))
        else:
            pool = ["", "i", "f", "s", "o", "ii", "if", "is", "io", "fi", "si", "oi", "so", "iif", "isi", "ois", "fso",
                    "iiii", "sifo", "e", "ie", "b"]
            for cats in r.sample(pool, r.choice([2, 3, 4, 5])):
                members.append(mk(cats, r.choice([0, 0, 1, 2]) if cats else 0))
        # drop members that g++ would reject (same parameter-type list) or that are indistinguishable by category
        out, seen = [], set()
        for ps in members:
            sg = tuple(self.catkey(p["type"]) + (":" + p["type"]["c"] if shape == "widths" and p["type"]["k"] == "int" else "")
                       for p in ps)
            # two members with the same category prefix up to the shorter's required count are kept apart
            clash = False
            nreq = len([p for p in ps if p["default"] is None])
            for osg, onreq, olen in seen:
                lo = max(nreq, onreq)
                hi = min(len(sg), olen)
                if lo <= hi and any(sg[:k] == osg[:k] for k in range(lo, hi + 1)):
                    clash = True
            if clash:
                continue
            seen.add((sg, nreq, len(sg)))
            out.append(ps)
        return out, shape

    def x_ovset(self, cls, ind, free=False):
        r = self.r
        members, shape = self.overload_members()
        if len(members) < 2:
            members, shape = self.overload_members("defaults")
        name = self.ident("nov_")
        kind = "free" if free else r.choice(["method", "method", "static"])
        # all members of one set share constness (const / non-const pairs are a feature of their own)
        const = kind == "method" and r.random() < 0.3
        for ps in members:
            f = self.emit(None if free else cls, kind, name, ps, const=const, ind=ind, feature="ovset:" + shape)
            f["overload_set"] = name

    def x_ovset2(self, cls, ind):
        self.x_ovset(cls, ind)

    # ---- const / non-const
    def x_constpair(self, cls, ind):
        r = self.r
        q = cls["qname"]
        name = self.ident("cp_")
        rk = r.choice(["int", "ptr", "ref"])
        if rk == "int":
            r1, r2 = T("int", c="int"), T("int", c="int")
        elif rk == "ptr":
            r1, r2 = T("obj", cls=q, mode="ptr"), T("obj", cls=q, mode="cptr")
        else:
            r1, r2 = T("obj", cls=q, mode="ref"), T("obj", cls=q, mode="cref")
        ps = [P(f"p0_{r.randrange(100)}", T("int", c="int"))] if r.random() < 0.5 else []
        a = self.emit(cls, "method", name, [dict(p) for p in ps], ret=r1, const=False, ind=ind, feature="constpair")
        b = self.emit(cls, "method", name, [dict(p) for p in ps], ret=r2, const=True, ind=ind, feature="constpair")
        a["overload_set"] = b["overload_set"] = name
        a["const_pair"] = b["const_pair"] = True
        # a non-const-only mutator and a const-only reader, and sources of const / non-const handles to this object
        self.emit(cls, "method", self.ident("mut_"), [P("v", T("int", c="int"))], ret=T("void"), const=False, ind=ind,
                  feature="constpair")
        self.emit(cls, "method", self.ident("rd_"), [], ret=T("int", c="long long"), const=True, ind=ind, feature="constpair")
        for mode, cst in (("cptr", True), ("cref", True), ("ptr", False), ("ref", False)):
            f = self.emit(cls, "method", self.ident("hnd_"), [], ret=T("obj", cls=q, mode=mode), const=cst, ind=ind,
                          feature="constpair")
            self.force_return_this(cls, f)

    def force_return_this(self, cls, f):
        """the last emitted body returns this (so the handle aliases an object the driver knows)"""
        q = cls["qname"]
        i = len(self.cx) - 1
        while " *vf_r = " not in self.cx[i]:
            i -= 1
        self.cx[i] = self.cx[i].split("=")[0] + "= this;"
        f["returns"] = "this"

    # ---- Python keywords as C++ names
    def x_kwnames(self, cls, ind):
        r = self.r
        have = {m["name"] for m in cls["methods"]}
        for b in cls["bases"]:
            have |= {m["name"] for m in self.classes[b["qname"]]["methods"]}
        names = [k for k in PY_KEYWORDS if k not in have]
        for kw in r.sample(names, min(len(names), r.choice([2, 3]))):
            n = r.choice([0, 1, 2])
            ps = [P(f"a{j}_{r.randrange(100)}", self.cat_type(r.choice("ifs"))) for j in range(n)]
            self.emit(cls, r.choice(["method", "method", "static"]), kw, ps, const=False, ind=ind, feature="kwnames")
        # keyword parameter names (two parameters so that the wrapper takes keyword arguments)
        kws = r.sample(["from", "lambda", "is", "in", "def", "pass", "global"], 2)
        ps = [P(kws[0], self.cat_type(r.choice("if"))), P(kws[1], self.cat_type(r.choice("is")))]
        self.add_defaults(ps, r.choice([0, 1]))
        self.emit(cls, "method", self.ident("kwp_"), ps, const=False, ind=ind, feature="kwparams")

    # ---- coercion constructors
    def x_coerce(self, cls, ind):
        r = self.r
        name, q = cls["name"], cls["qname"]
        have = {tuple(self.catkey(p["type"]) for p in c["params"]) for c in cls["ctors"]}
        added = []
        for cat, explicit in r.sample([("i", False), ("f", False), ("s", False), ("i", True), ("s", True)], 2):
            t = self.cat_type(cat)
            if (self.catkey(t),) in have:
                continue
            have.add((self.catkey(t),))
            ps = [P(f"c0_{r.randrange(100)}", t)]
            # gen_function reads fn.get('explicit') only after building fn, so emit the declaration by hand
            fn = self.gen_function(cls, "ctor", name=name, ret=T("void"), params=ps, indent=ind)
            if explicit:
                i = len(self.h) - 1
                self.h[i] = self.h[i].replace(ind + name + "(", ind + "explicit " + name + "(", 1)
                fn["explicit"] = True
            fn["feature"] = "coerce"
            cls["ctors"].append(fn)
            added.append(fn)
        # coercion needs a default-constructible class; multi-parameter constructors are reached by passing a tuple:
        # an explicit one must never be used for that, a non-explicit one may
        if not any(not c["params"] for c in cls["ctors"]):
            fn = self.gen_function(cls, "ctor", name=name, ret=T("void"), params=[], indent=ind)
            fn["feature"] = "coerce"
            cls["ctors"].append(fn)
        for cats, explicit in ((r.choice(["ii", "if", "si", "fi"]), True), (r.choice(["fs", "is", "ss", "ff"]), False)):
            if not explicit and r.random() < 0.5:
                continue
            ps = [P(f"c{j}_{r.randrange(100)}", self.cat_type(ch)) for j, ch in enumerate(cats)]
            key = tuple(self.catkey(p["type"]) for p in ps)
            if any(len(k) == 2 and k == key for k in have) or any(len(c["params"]) == 2 and
                   tuple(self.catkey(p["type"]) for p in c["params"]) == key for c in cls["ctors"]):
                continue
            have.add(key)
            fn = self.gen_function(cls, "ctor", name=name, ret=T("void"), params=ps, indent=ind)
            if explicit:
                i = len(self.h) - 1
                self.h[i] = self.h[i].replace(ind + name + "(", ind + "explicit " + name + "(", 1)
                fn["explicit"] = True
            fn["feature"] = "coerce"
            cls["ctors"].append(fn)
        cls["coerce"] = True
        # users: free functions taking the class by const reference / value / pointer
        def later():
            ps = [P(f"k0_{r.randrange(100)}", T("obj", cls=q, mode="cref"))]
            self.emit(None, "free", self.ident("fco_"), ps, ret=self.rand_scalar(False), feature="coerce-user")
            for mode in r.sample(["cref", "val", "cptr", "ref"], 2):
                ps = [P(f"k0_{r.randrange(100)}", T("obj", cls=q, mode=mode))]
                if r.random() < 0.4:
                    ps.append(P(f"k1_{r.randrange(100)}", self.cat_type("i")))
                self.emit(None, "free", self.ident("fco_"), ps, ret=self.rand_scalar(False), feature="coerce-user")
        self.free_extra.append(later)

    # ---- item assignment
    def can_setitem(self, cls):
        """Python type slots are inherited as a whole (a base's mapping slot even shadows a derived class's sequence
        slot), while a C++ operator [] merely hides the base's: item assignment is only generated where neither the
        class nor any ancestor or descendant declares operator [] / size()"""
        if cls.get("item_array") or cls.get("named_items"):
            return False
        q = cls["qname"]

        def anc(qq):
            for b in self.classes[qq]["bases"]:
                yield b["qname"]
                yield from anc(b["qname"])
        related = {q} | set(anc(q)) | {c["qname"] for c in self.classes.values() if q in set(anc(c["qname"]))}
        return not any(m["name"] in ("operator []", "size", "__getitem__", "__len__") for r_ in related for m in self.classes[r_]["methods"])

    def const_handles(self, cls, ind):
        """sources of const views of an instance (methods returning this as const K* / const K&)"""
        if any(m.get("returns") == "this" and m["ret"].get("mode") in ("cptr", "cref") for m in cls["methods"]):
            return
        for mode in ("cptr", "cref"):
            f = self.emit(cls, "method", self.ident("hnd_"), [], ret=T("obj", cls=cls["qname"], mode=mode), const=True, ind=ind,
                          feature="constpair")
            self.force_return_this(cls, f)

    def x_setitem(self, cls, ind, seq=None):
        r = self.r
        explicit_seq = seq is not None
        q, name = cls["qname"], cls["name"]
        if not self.can_setitem(cls):
            return
        if seq is None:
            seq = r.random() < 0.5

        def anc(qq):
            for b in self.classes[qq]["bases"]:
                yield b["qname"]
                yield from anc(b["qname"])
        if not seq and any(m["name"] == "size" for b in anc(q) for m in self.classes[b]["methods"]):
            if explicit_seq:
                return False     # an inherited size() could turn the mapping variant into a sequence
            seq = True
        self.const_handles(cls, ind)
        e1 = self.new_eid()
        arr = "vf_arr_" + name
        self.h.append(f"{ind}int &operator [](int idx);")
        self.cx.append(f"int &{q}::operator [](int idx) {{")
        self.cx.append(f"  vf::Ev vf_e({e1}, this);")
        self.cx.append('  vf_e.put("a0", idx);')
        self.cx.append(f"  int &vf_r = {arr}[(unsigned)idx % 4u];")
        self.cx.append('  vf_e.put("r", vf_r);')
        self.cx.append("  return vf_r;")
        self.cx.append("}")
        f1 = dict(eid=e1, name="operator []", qname=q + "::operator []", cls=q, kind="method", const=False, virtual=False,
                  static=False, params=[P("idx", T("int", c="int"))], ret=T("int", c="int"), doc=None, lib=self.name,
                  ret_owner="value", operator="[]", feature="setitem", item_ref=True, seq=seq)
        cls["methods"].append(f1)
        if not any(m["name"] == "operator []" and m.get("const") for m in cls["methods"][:-1]):
            f2 = self.gen_function(cls, "method", name="operator []", ret=T("int", c="int"), params=[P("idx", T("int", c="int"))],
                                   const=True, indent=ind)
            # the const overload reads the same storage
            i = len(self.cx) - 1
            while "vf_r = vf::make_int" not in self.cx[i]:
                i -= 1
            self.cx[i] = f"  int vf_r = {arr}[(unsigned)idx % 4u];"
            f2.update(operator="[]c", feature="setitem", item_ref=False, seq=seq, fixed_result="arr")
            cls["methods"].append(f2)
        else:
            for m in cls["methods"]:
                if m["name"] == "operator []" and m.get("const"):
                    m["seq"] = seq
        if seq:
            s = self.gen_function(cls, "method", name="size", ret=T("int", c="int"), params=[], const=True, indent=ind)
            self.fix_body_return(s, "4")
            s["feature"] = "setitem"
            s["operator"] = "len"      # with an integer operator [] this is the sequence protocol's __len__
            cls["methods"].append(s)
        cls["item_array"] = dict(name=arr, size=4, seq=seq)
        cls.setdefault("raw_public", []).append(f"#ifndef CPPPARSER\n  int {arr}[4] = {{11, 22, 33, 44}};\n#endif")
        cid = q.replace("::", "_")
        self.cx.append(f'extern "C" int vf_item_{cid}(void *p, int i) {{ return (({q} *)p)->{arr}[i & 3]; }}')

    # ---- more operators
    # (no binary operator &: libgen's own bodies take addresses with &x, which an overloaded operator & in two bases
    # makes ambiguous; &= is harmless)
    BINOPS = ["+", "-", "*", "/", "%", "<<", ">>", "|", "^"]

    def x_ops(self, cls, ind):
        r = self.r
        q = cls["qname"]
        have = {m["name"] for m in cls["methods"]}
        selfc = T("obj", cls=q, mode="cref")
        selfv = T("obj", cls=q, mode="val")
        table = [("operator !=", "!=", T("bool"), [P("rhs", selfc)], True),
                 ("operator <=", "<=", T("bool"), [P("rhs", selfc)], True),
                 ("operator >", ">", T("bool"), [P("rhs", selfc)], True),
                 ("operator >=", ">=", T("bool"), [P("rhs", selfc)], True),
                 ("operator ==", "==", T("bool"), [P("rhs", selfc)], True),
                 ("operator <", "<", T("bool"), [P("rhs", selfc)], True),
                 ("operator ()", "()", T("int", c="long"), [P("x", T("int", c="int")), P("y", T("float", c="double"))], False)]
        for nm, op, ret, ps, const in r.sample(table, r.choice([2, 3, 4])):
            if nm in have:
                continue
            have.add(nm)
            f = self.emit(cls, "method", nm, ps, ret=ret, const=const, ind=ind, feature="ops")
            f["operator"] = op

        def rhs_kinds(op):
            # an integer right operand of / and /= only reaches the Python 2 nb_divide slot (documented in the
            # generator: "different semantics than in C++"): not generated
            pool = ["self", "f"] if op in ("/", "/=") else ["self", "i", "f"]
            return r.sample(pool, r.choice([1, 2, 2, len(pool)]) if len(pool) > 2 else r.choice([1, 2]))

        def rhs(kind, j):
            t = selfc if kind == "self" else T("int", c=r.choice(["int", "long", "short"])) if kind == "i" else T("float", c="double")
            return [P(f"rhs{j}_{r.randrange(100)}", t)]
        # binary arithmetic / bitwise operators, each an overload set over {class, int, double} right operands
        for op in r.sample(self.BINOPS, r.choice([3, 4, 5])):
            nm = "operator " + op
            if nm in have or (op == "-" and any(m.get("operator") == "neg" for m in cls["methods"])) \
                    or (op == "+" and any(m.get("operator") == "pos" for m in cls["methods"])):
                continue
            have.add(nm)
            for j, kind in enumerate(rhs_kinds(op)):
                ret = selfv if kind == "self" or r.random() < 0.7 else r.choice([T("int", c="int"), T("float", c="double")])
                f = self.emit(cls, "method", nm, rhs(kind, j), ret=ret, const=True, ind=ind, feature="ops")
                f["operator"] = op
                f["overload_set"] = nm
        # in-place operators (return *this)
        for op in r.sample([o + "=" for o in self.BINOPS + ["&"]], r.choice([2, 3, 4])):
            nm = "operator " + op
            if nm in have:
                continue
            have.add(nm)
            for j, kind in enumerate(rhs_kinds(op)):
                f = self.emit(cls, "method", nm, rhs(kind, j), ret=T("obj", cls=q, mode="ref"), const=False, ind=ind, feature="ops")
                f["operator"] = op
                f["overload_set"] = nm
                self.force_return_this(cls, f)
        # unary operators
        if "operator ~" not in have and r.random() < 0.6:
            have.add("operator ~")
            self.emit(cls, "method", "operator ~", [], ret=selfv, const=True, ind=ind, feature="ops")["operator"] = "inv"
        if "operator -" not in have and r.random() < 0.5:
            have.add("operator -")
            self.emit(cls, "method", "operator -", [], ret=selfv, const=True, ind=ind, feature="ops")["operator"] = "neg"
        if "operator +" not in have and r.random() < 0.3:
            have.add("operator +")
            self.emit(cls, "method", "operator +", [], ret=selfv, const=True, ind=ind, feature="ops")["operator"] = "pos"
        # named number-protocol methods
        named = [("__pow__", "pow", True), ("__ipow__", "ipow", False), ("__floordiv__", "floordiv", True),
                 ("__radd__", "radd", True), ("__rsub__", "rsub", True), ("__rmul__", "rmul", True)]
        for nm, op, const in r.sample(named, r.choice([2, 3, 4])):
            if nm in have:
                continue
            have.add(nm)
            kinds = r.sample(["i", "f"], r.choice([1, 2]))
            for j, kind in enumerate(kinds):
                if op == "ipow":
                    f = self.emit(cls, "method", nm, rhs(kind, j), ret=T("obj", cls=q, mode="ref"), const=False, ind=ind, feature="ops")
                    self.force_return_this(cls, f)
                else:
                    f = self.emit(cls, "method", nm, rhs(kind, j), ret=selfv if r.random() < 0.7 else T("float", c="double"),
                                  const=True, ind=ind, feature="ops")
                f["operator"] = op
                f["overload_set"] = nm

    def emit_cast(self, cls, ind, ct, op):
        """operator <ct>() const (declared without a return type)"""
        t = T("bool") if ct == "bool" else T("float", c=ct)
        f = self.gen_function(cls, "method", name="operator " + ct, ret=t, params=[], const=True, indent=ind)
        decl = self.h.pop()
        self.h.append(decl.replace(f"{ct} operator {ct}", f"operator {ct}"))
        q = cls["qname"]
        i = len(self.cx) - 1
        while not self.cx[i].startswith(f"{ct} {q}::operator {ct}"):
            i -= 1
        self.cx[i] = self.cx[i].replace(f"{ct} {q}::operator {ct}", f"{q}::operator {ct}")
        f.update(typecast=True, operator=op, feature="inquiry")
        cls["methods"].append(f)
        return f

    # ---- inquiries: truth value, hash, repr / str, float conversion
    def x_inquiry(self, cls, ind):
        r = self.r
        have = {m["name"] for m in cls["methods"]}
        x = r.random()
        if x < 0.4:
            self.emit(cls, "method", "__bool__", [], ret=T("bool"), const=True, ind=ind, feature="inquiry")["operator"] = "bool"
        elif x < 0.8:
            self.emit_cast(cls, ind, "bool", "bool")
        x = r.random()
        if x < 0.4:
            self.emit(cls, "method", "__hash__", [], ret=T("int", c="int"), const=True, ind=ind, feature="inquiry")["operator"] = "hash"
        elif x < 0.8:
            f = self.emit(cls, "method", "get_hash", [], ret=T("int", c="int"), const=True, ind=ind, feature="inquiry")
            f["hash_method"] = True
        if r.random() < 0.6:
            self.emit(cls, "method", "__repr__", [], ret=T("string", ref=False), const=True, ind=ind, feature="inquiry")["operator"] = "repr"
        if r.random() < 0.6:
            self.emit(cls, "method", "__str__", [], ret=T("string", ref=False), const=True, ind=ind, feature="inquiry")["operator"] = "str"
        if r.random() < 0.6:
            self.emit_cast(cls, ind, "double", "float")
        if r.random() < 0.4 and not any(m.get("operator") == "cast" for m in cls["methods"]):
            self.emit(cls, "method", "__int__", [], ret=T("int", c="int"), const=True, ind=ind, feature="inquiry")["operator"] = "cast"

    def x_nested(self, cls, ind):
        pass

    # ---- scoped enum with negative values
    def x_enumneg(self, cls, ind):
        r = self.r
        name = self.ident("Eneg")
        q = cls["qname"] + "::" + name
        vals = r.sample([-1, -2, -100, 0, 5, -2147483648, 2147483647], 3)
        members = []
        self.h.append(f"{ind}enum class {name} {{")
        for v in vals:
            mn = self.ident("nv_")
            txt = "(-2147483647 - 1)" if v == -2147483648 else str(v)
            self.h.append(f"{ind}  {mn} = {txt},")
            members.append(dict(name=mn, qname=q + "::" + mn, value=v))
        self.h.append(f"{ind}}};")
        e = dict(name=name, qname=q, scoped=True, members=members, doc=None, owner=cls["qname"], lib=self.name, ns=None)
        self.enums.append(e)
        self.model["enums"].append(e)
        cls["enums"].append(q)
        et = T("enum", name=q, scoped=True)
        self.emit(cls, "method", self.ident("en_"), [P("e0", et)], ret=et, const=False, ind=ind, feature="enumneg")
        self.emit(cls, "static", self.ident("ens_"), [P("e0", et), P("k", T("int", c="int"))], ret=T("int", c="int"),
                  ind=ind, feature="enumneg")

    # ---- MAKE_SEQ_PROPERTY
    def x_seqprop(self, cls, ind):
        sname = self.ident("elts_")
        n = self.gen_function(cls, "method", name="get_num_" + sname, ret=T("int", c="int"), params=[], const=True,
                              indent=ind)
        self.fix_body_return(n, "3")
        g = self.gen_function(cls, "method", name="get_" + sname, ret=self.r.choice([T("int", c="int"), T("float", c="double")]),
                              params=[P("n", T("int", c="int"))], const=True, indent=ind)
        n["feature"] = g["feature"] = "seqprop"
        cls["methods"] += [n, g]
        self.h.append(f"{ind}MAKE_SEQ_PROPERTY({sname}, get_num_{sname}, get_{sname});")
        cls.setdefault("seq_properties", []).append(dict(name=sname, qname=cls["qname"] + "::" + sname, num=n["qname"],
                                                         element=g["qname"]))

    # ---- default arguments that are constant expressions (comparisons / arithmetic over constexpr ints and doubles)
    def const_defaults(self):
        r = self.r
        import math
        consts = []       # (name, kind, value)
        lines = []
        for j in range(2):
            v = r.choice([1.5, 2.25, 0.5, 3.75, 7.5])
            n = self.ident("vfk_d")
            lines.append(f"constexpr double {n} = {v!r};")
            consts.append((n, "f", v))
        for j in range(2):
            v = r.choice([1, 2, 3, 5, 8])
            n = self.ident("vfk_i")
            lines.append(f"constexpr int {n} = {v};")
            consts.append((n, "i", v))
        at = self.h.index("#endif", self.h.index("#define VF_POOLTAG")) + 1
        self.h[at:at] = lines
        ds = [c for c in consts if c[1] == "f"]
        is_ = [c for c in consts if c[1] == "i"]
        enums = [e for e in self.enums if not e["scoped"] and not e["owner"]]
        ops = ["<=", "<", ">=", ">", "==", "!="]
        r.shuffle(ops)
        pyop = {"<=": lambda a, b: a <= b, "<": lambda a, b: a < b, ">=": lambda a, b: a >= b, ">": lambda a, b: a > b,
                "==": lambda a, b: a == b, "!=": lambda a, b: a != b}

        def cmp_expr(op):
            """a comparison mixing a real constant with an integer next to it (decides differently when truncated)"""
            d = r.choice(ds)
            kind = r.randrange(4)
            if kind == 0:
                k = r.choice([math.floor(d[2]), math.ceil(d[2])])
                return f"({d[0]} {op} {k})", pyop[op](d[2], k)
            if kind == 1:
                k = r.choice([math.floor(d[2]), math.ceil(d[2])])
                return f"({k} {op} {d[0]})", pyop[op](k, d[2])
            if kind == 2:
                i = r.choice(is_)
                return f"({d[0]} {op} {i[0]})", pyop[op](d[2], i[2])
            i = r.choice(is_)
            return f"({i[0]} * 2 {op} {d[0]} * 2)", pyop[op](i[2] * 2, d[2] * 2)

        def bool_default(op):
            e, v = cmp_expr(op)
            if r.random() < 0.25:
                return f"!{e}", not v
            return e, v

        def int_default(op):
            x = r.randrange(4)
            i = r.choice(is_)
            if x == 0:
                return f"{i[0]} * 3 + 1", i[2] * 3 + 1
            if x == 1 and enums:
                m = r.choice(r.choice(enums)["members"])
                return m["qname"], m["value"]
            e, v = cmp_expr(op)
            a, b = r.choice([(i[0], i[2]), ("7", 7)]), r.choice([("-2", -2), ("40", 40)])
            return f"({e} ? {a[0]} : {b[0]})", (a[1] if v else b[1])

        def dbl_default(op):
            d = r.choice(ds)
            i = r.choice(is_)
            x = r.randrange(3)
            if x == 0:
                return f"{d[0]} * 2", d[2] * 2
            if x == 1:
                return f"{i[0]} / 2.0 + {d[0]}", i[2] / 2.0 + d[2]
            e, v = cmp_expr(op)
            return f"({e} ? {d[0]} : 0.25)", (d[2] if v else 0.25)
        for j in range(3):
            o1, o2 = ops[2 * j], ops[2 * j + 1]
            ps = [P(f"q0_{r.randrange(100)}", self.cat_type(r.choice("ifs")))]
            t, v = bool_default(o1)
            ps.append(P(f"q1_{r.randrange(100)}", T("bool"), t, int(v)))
            t, v = bool_default(o2)
            ps.append(P(f"q2_{r.randrange(100)}", T("bool"), t, int(v)))
            if j == 1:
                t, v = int_default(r.choice(ops))
                ps.append(P(f"q3_{r.randrange(100)}", T("int", c="int"), t, v))
            elif j == 2:
                t, v = dbl_default(r.choice(ops))
                ps.append(P(f"q3_{r.randrange(100)}", T("float", c="double"), t, v))
            if r.random() < 0.3:
                ps = ps[1:]
            self.emit(None, "free", self.ident("fcd_"), ps, ret=self.rand_scalar(False), feature="const-default")
        self.feat("const-defaults")

    # ---- whole library
    def generate(self, n_classes=None, ns=None, dep_bases=()):
        self.n_top = n_classes or self.r.choice([3, 4])
        super().generate(n_classes=self.n_top, ns=ns, dep_bases=dep_bases)
        # every library has a class with int item assignment through the sequence protocol (operator[] + size()) and
        # one through the mapping protocol, each with sources of const views: added after the fact where the deck did
        # not deal them
        if not any(c.get("coerce") and not any(m["const"] and not m["static"] for m in c["members"])
                   for c in self.model["classes"]):
            for c in self.model["classes"]:
                if "::" in c["qname"] or any(m["const"] and not m["static"] for m in c["members"]) or c.get("coerce"):
                    continue
                at = next(i for i, l in enumerate(self.h) if l == f"  unsigned long long st_{c['name']};") - 1
                assert self.h[at] == "public:", self.h[at]
                extra = self.capture(lambda: self.x_coerce(c, "  "))
                self.h[at:at] = extra
                c.setdefault("features", []).append("coerce")
                self.feat("coerce")
                break
        for want in (True, False):
            if any(c.get("item_array", {}).get("seq") == want for c in self.model["classes"]):
                continue
            for c in self.model["classes"]:
                if "::" in c["qname"] or not self.can_setitem(c) or c.get("item_array"):
                    continue
                at = next(i for i, l in enumerate(self.h) if l == f"  unsigned long long st_{c['name']};") - 1
                assert self.h[at] == "public:", self.h[at]
                extra = self.capture(lambda: self.x_setitem(c, "  ", seq=want))
                if not c.get("item_array"):
                    continue
                self.h[at:at] = extra
                c.setdefault("features", []).append("setitem")
                self.feat("setitem")
                break
        i = self.h.index("#include <string>")
        self.h.insert(i + 1, "#include <ostream>")
        # raw public members requested by extras (arrays for item assignment)
        for c in self.model["classes"]:
            for line in c.get("raw_public", []):
                i = next(i for i, l in enumerate(self.h) if l == f"  unsigned long long st_{c['name']};")
                self.h.insert(i, line)
        # free extras + published constants go before the final END_PUBLISH
        assert self.h[-2] == "END_PUBLISH" and self.h[-1] == "#endif"
        tail = self.h[-2:]
        del self.h[-2:]
        r = self.r
        for fn in self.free_extra:
            fn()
        self.x_ovset(None, "", free=True)
        self.const_defaults()
        self.feat("free-ovset")
        consts = []
        for i in range(r.choice([2, 3])):
            mn = self.ident("NC_" + self.name.upper() + "_")
            # integer macros only: a published string macro is emitted unescaped by the tree (C03 finding)
            v = r.choice([0, 1, 42, 65535, 2147483647, -7])
            self.h.append(f"#define {mn} {v}" if v >= 0 else f"#define {mn} ({v})")
            consts.append(dict(name=mn, kind="int", value=v))
        self.model["constants"] = consts
        self.feat("consts")
        self.h += tail
        # force creation of every library-owned pool object up front (baseline of the lifetime ledger)
        self.cx.append('extern "C" void vf_pool_init() {')
        for c in self.model["classes"]:
            self.cx.append(f"  for (int i = 0; i < 3; ++i) {c['qname']}::vf_pool(i);")
        self.cx.append("}")
        # liveness by instance id (sub-objects registered by base constructors are merged into the complete object)
        self.cx.append('extern "C" int vf_iid_live(int iid) { for (auto &r : vf::g_ranges) if (r.iid == iid) return 1; return 0; }')
        return self


def generate(rng, name="liba", size=1.0, n_classes=None):
    g = NatGen(rng, name, size=size)
    g.generate(n_classes=n_classes)
    return libgen.Lib(g)
