"""condgen -- conditional-inclusion workloads for C09.

Exhaustive tier: every well-nested directive sequence over
    openers  #if 0 | #if 1 | #if A | #ifdef A | #ifndef A          (codes 0..4)
    elifs    #elif 0 | #elif 1 | #elif A | #elifdef A | #elifndef A (codes 5..9)
    #else (10), #endif (11)
with at most D directives and nesting <= 3, under three preludes (A undefined / #define A 0 / #define A 1).
A sequence is a tuple of codes.  The space is walked depth-first, so a *prefix* names a sub-space and a worker can
enumerate "all completions of this prefix" on its own (cases stay self-contained and need no ranking).

One marker declaration follows every directive (and one precedes the first), so each text segment between two
directives carries exactly one marker: a sequence of n directives has n+1 markers, numbered 0..n.

Random tier: deeper trees whose conditions come from exprgen (mode "pp"), generated together with their ground truth:
the generator tracks the macro state along the taken path, so it knows which segments survive.
"""
from . import exprgen as E

OPEN = ["#if 0", "#if 1", "#if A", "#ifdef A", "#ifndef A"]
ELIF = ["#elif 0", "#elif 1", "#elif A", "#elifdef A", "#elifndef A"]
TEXT = OPEN + ELIF + ["#else", "#endif"]
ELSE, ENDIF = 10, 11
PRELUDES = [("undef", None), ("zero", "0"), ("one", "1")]
MAXDEPTH = 3


def _state(prefix):
    """stack of else-seen flags after a (valid) prefix, or None when the prefix is not valid."""
    st = []
    for c in prefix:
        if c < 5:
            if len(st) >= MAXDEPTH:
                return None
            st.append(False)
        elif c < 10:
            if not st or st[-1]:
                return None
        elif c == ELSE:
            if not st or st[-1]:
                return None
            st[-1] = True
        else:
            if not st:
                return None
            st.pop()
    return st


def completions(prefix, D):
    """all complete (depth 0) sequences of length <= D that start with `prefix` (including prefix itself)."""
    st = _state(prefix)
    if st is None:
        return
    seq = list(prefix)

    def rec():
        if not st:
            yield tuple(seq)
        room = D - len(seq) - len(st)       # directives we may still add beyond the endifs we owe
        if room < 0:
            return
        if st:
            # #endif costs nothing extra (already owed)
            seq.append(ENDIF)
            e = st.pop()
            for x in rec():
                yield x
            st.append(e)
            seq.pop()
        if room >= 1 and st and not st[-1]:
            for c in range(5, 10):
                seq.append(c)
                for x in rec():
                    yield x
                seq.pop()
            seq.append(ELSE)
            st[-1] = True
            for x in rec():
                yield x
            st[-1] = False
            seq.pop()
        if room >= 2 and len(st) < MAXDEPTH:
            for c in range(5):
                seq.append(c)
                st.append(False)
                for x in rec():
                    yield x
                st.pop()
                seq.pop()

    if len(seq) + len(st) > D:
        return
    for x in rec():
        yield x


def count(D):
    return sum(1 for _ in completions((), D))


def prefixes(D, L):
    """a partition of the space: complete sequences shorter than L (as ("done", seq)) and the valid prefixes of
    length exactly L that still have completions (as ("prefix", p))."""
    out = []

    def rec(p):
        st = _state(p)
        if st is None or len(p) + len(st) > D:
            return
        if len(p) == L:
            out.append(("prefix", tuple(p)))
            return
        if not st:
            out.append(("done", tuple(p)))
        for c in range(12):
            rec(p + [c])

    rec([])
    return out


def survivors(seq, a):
    """ground truth (C17 6.10.1): which of the markers 0..len(seq) survive.  a: None (A undefined) / 0 / 1"""
    def truth(code):
        k = code % 5
        if k == 0:
            return False
        if k == 1:
            return True
        if k == 2:
            return bool(a)
        if k == 3:
            return a is not None
        return a is None
    out = [0]
    st = []          # frames: [parent_active, taken, active]
    active = True
    for i, c in enumerate(seq):
        if c < 5:
            t = active and truth(c)
            st.append([active, t, t])
            active = t
        elif c < 10:
            f = st[-1]
            if f[0] and not f[1] and truth(c):
                f[1] = f[2] = True
            else:
                f[2] = False
            active = f[2]
        elif c == ELSE:
            f = st[-1]
            f[2] = f[0] and not f[1]
            f[1] = f[1] or f[2]
            active = f[2]
        else:
            f = st.pop()
            active = f[0]
        if active:
            out.append(i + 1)
    return out


def render(seq, tag, inject=None):
    """lines of one sequence; marker k is `int <tag>_<k>;`.  inject: (segment index, [lines]) adds lines right after
    the marker of that segment."""
    lines = ["int %s_0;" % tag]
    if inject and inject[0] == 0:
        lines.extend(inject[1])
    for i, c in enumerate(seq):
        lines.append(TEXT[c])
        lines.append("int %s_%d;" % (tag, i + 1))
        if inject and inject[0] == i + 1:
            lines.extend(inject[1])
    return lines


def prelude_lines(p):
    return ["#undef A"] + (["#define A " + p] if p is not None else [])


def a_value(p):
    return None if p is None else int(p)


def shape(seq):
    return " ".join(TEXT[c][1:].replace(" ", "_") for c in seq)


# ---------------------------------------------------------------------------
# structural minimisation of a failing sequence
# ---------------------------------------------------------------------------

def reductions(seq):
    """smaller well-nested sequences obtained by deleting one whole conditional or one #elif*/#else directive."""
    seq = list(seq)
    out = []
    # matching endif of each opener
    st = []
    match = {}
    for i, c in enumerate(seq):
        if c < 5:
            st.append(i)
        elif c == ENDIF:
            match[st.pop()] = i
    for o, e in match.items():
        out.append(tuple(seq[:o] + seq[e + 1:]))           # drop the whole conditional
        out.append(tuple(seq[:o] + seq[o + 1:e] + seq[e + 1:]) if _state(seq[:o] + seq[o + 1:e] + seq[e + 1:]) == []
                   else None)
    for i, c in enumerate(seq):
        if 5 <= c <= ELSE:
            out.append(tuple(seq[:i] + seq[i + 1:]))
    res = []
    for s in out:
        if s is not None and _state(s) == [] and s not in res and len(s) < len(seq):
            res.append(s)
    res.sort(key=len)
    return res


# ---------------------------------------------------------------------------
# random tier
# ---------------------------------------------------------------------------

MACROS = ["CM0", "CM1", "CM2", "CM3", "CM4", "CM5"]
UNDEF_IDS = ["cu0", "cu1", "CU2", "_cu3"]
NEVER = ["CN0", "CN1"]          # never defined: for defined()/ifdef


class RandomFile:
    """one generated file: text lines + ground truth (surviving marker names in order) + per-marker line numbers,
    skipped line ranges, and the list of evaluated conditions (for localisation)."""

    def __init__(self, rng, budget=14, maxdepth=5, hasincs=(), lit_forms=None, spelling=True, junk=True):
        self.rng = rng
        self.lines = []
        self.truth = []            # surviving markers
        self.marker_line = {}
        self.skipped = []          # (first line, last line) of skipped segments, 1-based
        self.conds = []            # dicts: line, node (or None for ifdef forms), kind, name, value, state snapshot
        self.state = {}            # macro name -> ("expr", node, value, typ) | ("empty",)
        self.nm = 0
        self.hasincs = list(hasincs)
        self.lit_forms = lit_forms
        self.spelling = spelling
        self.junk = junk
        self.maxdepth = maxdepth
        self.features = set()
        self.budget = budget
        self.segment(True)
        while self.budget > 0:
            if rng.random() < 0.3:
                self.define(True)
            else:
                self.cond(True, 1)
                self.segment(True)

    # -- pieces
    def emit(self, s):
        self.lines.append(s)
        return len(self.lines)

    def marker(self, active):
        self.nm += 1
        nm = "cm_%d" % self.nm
        ln = self.emit("int %s;" % nm)
        self.marker_line[nm] = ln
        if active:
            self.truth.append(nm)
        return ln

    def gen(self):
        refs = []
        for nm, d in self.state.items():
            if d[0] == "expr":
                refs.append(["ref", "macro", nm, d[2], d[3], d[4]])
        defs = [(nm, nm in self.state) for nm in MACROS + NEVER]
        return E.ExprGen(self.rng, mode="pp", refs=refs * 2, ids=UNDEF_IDS, defs=defs, hasincs=self.hasincs,
                         lit_forms=self.lit_forms, comma=False)

    def define(self, active):
        rng = self.rng
        nm = rng.choice(MACROS)
        r = rng.random()
        if r < 0.25 and nm in self.state:
            self.emit("#undef " + nm)
            if active:
                self.state.pop(nm, None)
            self.features.add("dir:undef" + ("" if active else ":skipped"))
            return
        if nm in self.state:
            self.emit("#undef " + nm)
            if active:
                self.state.pop(nm, None)
        if r < 0.4:
            self.emit("#define " + nm)
            new = ("empty",)
        else:
            # no `defined`/__has_include (undefined behaviour when produced by expansion) and no references to other
            # macros (their later redefinition would change this macro's value) in a replacement list
            g = E.ExprGen(self.rng, mode="pp", refs=[], ids=UNDEF_IDS, lit_forms=self.lit_forms, comma=False)
            node = g.expr(rng.choice([1, 1, 2, 3]))
            v, t = E.evaluate(node)
            wrap = rng.random() < 0.6
            body = E.render(node, 2)
            if wrap:
                body = "(" + body + ")"
            self.emit("#define %s %s" % (nm, body))
            new = ("expr", node, v, t, E.P_PRIMARY if (wrap or E.prec(node) < 2) else E.prec(node), body)
        if active:
            self.state[nm] = new
        self.features.add("dir:define" + ("" if active else ":skipped"))

    def segment(self, active):
        """content of one group segment: a marker, maybe junk / definitions."""
        rng = self.rng
        first = len(self.lines) + 1
        self.marker(active)
        if self.junk and rng.random() < 0.35:
            k = rng.random()
            if k < 0.35:
                self.define(active)
            elif k < 0.5 and not active:
                j = rng.choice(["#error skipped group", "#include \"no_such_file_c09.h\"", "#if 1 +|#endif",
                                "#pragma once", "#line 7000", "#warning skipped", "#include <no_such_file_c09>",
                                "# unknown_directive x", "#ifdef|#endif", "#if (|#else|#endif"])
                for ln in j.split("|"):
                    self.emit(ln)
                self.features.add("junk:skipped:" + j.split()[0].lstrip("#").split("|")[0])
            elif k < 0.7:
                j = rng.choice(["int junk_a[3]; // #endif in a comment", "/* #else|#endif|*/ int junk_b;",
                                "const char *junk_c = \"#endif\";", "int junk_d; /* #if 1 */",
                                "  int junk_e = '#';", "/** doc **/ int junk_f;", "/**/ /***/ /****/ int junk_g;",
                                "/*****| * #else| * #endif| ****/", "/* a *//* b **//** c */ int junk_h;",
                                "int junk_i = 6/*c*/ /3; // #endif /*"])
                for ln in j.split("|"):
                    self.emit(ln)
                self.features.add("junk:text")
        if not active:
            self.skipped.append((first, len(self.lines)))

    def directive(self, word, rest, active_eval):
        """spell a directive line with optional whitespace / comment variations."""
        rng = self.rng
        s = "#"
        if self.spelling:
            r = rng.random()
            if r < 0.15:
                s = rng.choice(["  #", "\t#", "# ", "#\t", " # "])
                self.features.add("spell:space-around-hash")
        s += word
        if rest:
            s += (" " if not self.spelling or rng.random() < 0.85 else rng.choice(["  ", "\t"])) + rest
        if self.spelling and rng.random() < 0.15:
            s += rng.choice([" // trailing comment", " /* trailing */", "  ", " // #else", " /* A */"])
            self.features.add("spell:trailing-comment")
        return self.emit(s)

    def condition(self, active):
        """-> (word, rest, truth value, cond-record)"""
        rng = self.rng
        r = rng.random()
        if r < 0.25:
            nm = rng.choice(MACROS + NEVER)
            neg = rng.random() < 0.5
            isdef = nm in self.state
            return ("ifndef" if neg else "ifdef"), nm, (isdef != neg), dict(kind="ifdef", neg=neg, name=nm)
        g = self.gen()
        node = g.expr(rng.choice([1, 2, 2, 3, 3, 4, 5]))
        v, t = E.evaluate(node)
        form = rng.random()
        if form < 0.35:
            pass
        elif form < 0.7:
            node = ["bin", "==", ["par", node], g.value_leaf(v)]
        elif form < 0.85:
            node = ["bin", "!=", ["par", node], g.value_leaf(v)]
        else:
            w = v + rng.choice([-1, 1])
            if E.INT_MIN <= w <= E.INT_MAX:
                node = ["bin", rng.choice(["<", ">", "<=", ">="]), ["par", node], g.value_leaf(w)]
        rv = E.try_eval(node)
        if rv is None:
            node = g.number(rng.randint(0, 1))
            rv = E.evaluate(node)
        tight = rng.random() < 0.3
        return "if", E.render(node, 2, tight=tight), bool(rv[0]), dict(kind="if", node=node, tight=tight)

    def cond(self, active, depth):
        rng = self.rng
        self.budget -= 1
        taken = False
        nbranch = rng.choice([1, 1, 2, 2, 3, 4])
        has_else = rng.random() < 0.5
        for b in range(nbranch):
            word, rest, tv, rec = self.condition(active)
            if b > 0:
                word = {"if": "elif", "ifdef": "elifdef", "ifndef": "elifndef"}[word]
            evaluated = active and not taken
            ln = self.directive(word, rest, evaluated)
            rec.update(line=ln, word=word, evaluated=evaluated, value=tv, text=self.lines[ln - 1],
                       state={k: ("" if v[0] == "empty" else v[5]) for k, v in self.state.items()},
                       bodies={k: v[1] for k, v in self.state.items() if v[0] == "expr"})
            self.conds.append(rec)
            self.features.add("dir:" + word + (":evaluated" if evaluated else ":unevaluated"))
            this = evaluated and tv
            self.group(this, depth)
            taken = taken or this
        if has_else:
            self.directive("else", "", False)
            this = active and not taken
            self.features.add("dir:else:" + ("taken" if this else "skipped"))
            self.group(this, depth)
        self.directive("endif", "", False)

    def group(self, active, depth):
        rng = self.rng
        self.segment(active)
        n = rng.choice([0, 0, 1, 1, 2] if active else [0, 0, 0, 1]) if depth < self.maxdepth else 0
        for _ in range(n):
            if self.budget <= 0:
                break
            self.cond(active, depth + 1)
            self.segment(active)
        if n:
            self.features.add("nest:depth=%d" % (depth + 1))
