"""exprgen -- integer constant expressions for C07 (C++ constant contexts) and C09 (#if conditions).

An expression is a JSON-serialisable tree (nested lists):

  ["lit", text, value, typ]            literal; typ in i/u/l/ul (int-like, unsigned, long, unsigned long)
  ["un", op, e]                        op in + - ! ~
  ["bin", op, l, r]                    op in BINOPS (incl. ",")
  ["cond", c, a, b]
  ["cast", style, ty, e]               style in c/static/func, ty in int/bool/char/unsigned
  ["par", e]                           redundant parentheses
  ["ref", kind, name, value, typ, prec]  reference to an earlier constant; kind in enum/macro/const/constexpr/sconst/
                                         scoped (needs a cast, rendered by the caller as a cast node around it)
                                         prec = precedence of the *textual* replacement (macros), 16 otherwise
  ["id0", name]                        pp only: identifier that is not a macro (counts as 0)
  ["def", name, paren, value]          pp only: defined NAME / defined(NAME)
  ["hasinc", spelling, value]          pp only: __has_include("x") / __has_include(<x>)

The evaluator implements the C++ (and, for mode "pp", the C preprocessor) semantics on the subset where they
coincide with mathematical integers: every operand, every operand *after the usual arithmetic conversions* and
every result must lie in [INT_MIN, INT_MAX]; shift counts in [0,31]; no negative left operand of <<; no division
by zero; no INT_MIN / -1.  Anything else raises Invalid and is regenerated -- such inputs are C15's business.
Both branches of ?:, && and || must be valid (nothing relies on short-circuiting to hide an invalid operand).
"""
import re

INT_MAX = 2147483647
INT_MIN = -2147483648

BINOPS = ["*", "/", "%", "+", "-", "<<", ">>", "<", ">", "<=", ">=", "==", "!=", "&", "^", "|", "&&", "||", ","]
UNOPS = ["+", "-", "!", "~"]
UNOPS_SET = {"u+", "u-", "u!", "u~"}
PREC = {",": 1, "?:": 3, "||": 4, "&&": 5, "|": 6, "^": 7, "&": 8, "==": 9, "!=": 9,
        "<": 10, ">": 10, "<=": 10, ">=": 10, "<<": 11, ">>": 11, "+": 12, "-": 12,
        "*": 13, "/": 13, "%": 13}
P_UNARY = 14
P_PRIMARY = 16
CAST_TYPES = ["int", "bool", "char", "unsigned"]


class Invalid(Exception):
    pass


# ---------------------------------------------------------------------------
# evaluation
# ---------------------------------------------------------------------------

def _common(t1, t2):
    s = {t1, t2}
    if "ul" in s:
        return "ul"
    if "l" in s:
        return "l"          # long holds every unsigned int
    if "u" in s:
        return "u"
    return "i"


def _chk(v, t=None):
    if v < INT_MIN or v > INT_MAX:
        raise Invalid("out of int range")
    if t in ("u", "ul") and v < 0:
        raise Invalid("negative value in unsigned type")
    return v


def evaluate(n):
    """-> (value, typ).  Raises Invalid."""
    k = n[0]
    if k == "lit":
        return _chk(n[2], n[3]), n[3]
    if k == "ref":
        return _chk(n[3], n[4]), n[4]
    if k == "id0":
        return 0, "i"
    if k == "def":
        return (1 if n[3] else 0), "i"
    if k == "hasinc":
        return (1 if n[2] else 0), "i"
    if k == "par":
        return evaluate(n[1])
    if k == "un":
        v, t = evaluate(n[2])
        op = n[1]
        if op == "+":
            return v, t
        if op == "-":
            return _chk(-v, t), t
        if op == "~":
            return _chk(-v - 1, t), t
        if op == "!":
            return (0 if v else 1), "i"
        raise Invalid("unop " + op)
    if k == "cast":
        v, t = evaluate(n[3])
        ty = n[2]
        if ty == "int":
            return v, "i"
        if ty == "bool":
            return (1 if v else 0), "i"
        if ty == "char":
            w = v & 0xFF
            return (w - 256 if w >= 128 else w), "i"
        if ty == "unsigned":
            return _chk(v, "u"), "u"
        raise Invalid("cast " + ty)
    if k == "cond":
        c, _ = evaluate(n[1])
        a, ta = evaluate(n[2])
        b, tb = evaluate(n[3])
        t = _common(ta, tb)
        _chk(a, t)
        _chk(b, t)
        return (a if c else b), t
    if k == "bin":
        op = n[1]
        a, ta = evaluate(n[2])
        b, tb = evaluate(n[3])
        if op == ",":
            return b, tb
        if op in ("&&", "||"):
            if op == "&&":
                return (1 if (a and b) else 0), "i"
            return (1 if (a or b) else 0), "i"
        if op in ("<<", ">>"):
            if b < 0 or b > 31:
                raise Invalid("shift count")
            if op == "<<":
                if a < 0:
                    raise Invalid("negative << ")
                return _chk(a << b, ta), ta
            return _chk(a >> b, ta), ta
        t = _common(ta, tb)
        _chk(a, t)
        _chk(b, t)
        if op in ("<", ">", "<=", ">=", "==", "!="):
            r = {"<": a < b, ">": a > b, "<=": a <= b, ">=": a >= b, "==": a == b, "!=": a != b}[op]
            return (1 if r else 0), "i"
        if op == "+":
            r = a + b
        elif op == "-":
            r = a - b
        elif op == "*":
            r = a * b
        elif op in ("/", "%"):
            if b == 0:
                raise Invalid("division by zero")
            q = abs(a) // abs(b)
            if (a < 0) != (b < 0):
                q = -q
            _chk(q, t)          # INT_MIN / -1
            r = q if op == "/" else a - q * b
        elif op == "&":
            r = a & b
        elif op == "|":
            r = a | b
        elif op == "^":
            r = a ^ b
        else:
            raise Invalid("binop " + op)
        return _chk(r, t), t
    raise Invalid("node " + str(k))


def try_eval(n):
    try:
        return evaluate(n)
    except Invalid:
        return None


# ---------------------------------------------------------------------------
# rendering (minimal parenthesisation, so the parser must rebuild the tree from precedence/associativity)
# ---------------------------------------------------------------------------

def prec(n):
    k = n[0]
    if k == "bin":
        return PREC[n[1]]
    if k == "cond":
        return PREC["?:"]
    if k == "un":
        return P_UNARY
    if k == "cast":
        return P_UNARY if n[1] == "c" else P_PRIMARY
    if k == "ref":
        return n[5]
    if k == "def":
        return P_PRIMARY if n[2] else P_UNARY
    return P_PRIMARY


def _join(l, op, r, tight):
    if tight:
        bad = (op in "+-" and (r[0] in "+-" or l[-1] in "eEpP")) or (op == "&" and r[0] == "&") or op == ","
        if not bad:
            return l + op + r
    if op == ",":
        return l + ", " + r
    return l + " " + op + " " + r


def render(n, ctx=1, tight=False):
    """text of the expression in a context that requires precedence >= ctx."""
    k = n[0]
    if k == "lit":
        s = n[1]
    elif k == "ref":
        s = n[2]
    elif k == "id0":
        s = n[1]
    elif k == "def":
        s = "defined(" + n[1] + ")" if n[2] else "defined " + n[1]
    elif k == "hasinc":
        s = "__has_include(" + n[1] + ")"
    elif k == "par":
        s = "(" + render(n[1], 1, tight) + ")"
    elif k == "un":
        inner = render(n[2], P_UNARY, tight)
        s = n[1] + (" " if inner[0] == n[1] and n[1] in "+-" else "") + inner
    elif k == "cast":
        if n[1] == "c":
            s = "(" + n[2] + ")" + render(n[3], P_UNARY, tight)
        elif n[1] == "static":
            s = "static_cast<" + n[2] + ">(" + render(n[3], 2, tight) + ")"
        else:
            s = n[2] + "(" + render(n[3], 2, tight) + ")"
    elif k == "cond":
        c = render(n[1], PREC["||"], tight)
        a = render(n[2], PREC["?:"], tight)
        b = render(n[3], PREC["?:"], tight)
        s = (c + "?" + a + ":" + b) if (tight and not a[0] == ":" and not b[0] == ":") else (c + " ? " + a + " : " + b)
    elif k == "bin":
        p = PREC[n[1]]
        s = _join(render(n[2], p, tight), n[1], render(n[3], p + 1, tight), tight)
    else:
        raise ValueError("render: " + str(k))
    if prec(n) < ctx:
        return "(" + s + ")"
    return s


# ---------------------------------------------------------------------------
# structure helpers: children, sub-expressions bottom-up, signatures, features
# ---------------------------------------------------------------------------

def children(n):
    k = n[0]
    if k in ("un",):
        return [n[2]]
    if k == "cast":
        return [n[3]]
    if k == "par":
        return [n[1]]
    if k == "bin":
        return [n[2], n[3]]
    if k == "cond":
        return [n[1], n[2], n[3]]
    return []


def subexprs(n, out=None):
    """all nodes, children before parents."""
    if out is None:
        out = []
    for c in children(n):
        subexprs(c, out)
    out.append(n)
    return out


def depth(n):
    cs = children(n)
    return 1 + max([depth(c) for c in cs], default=0)


def lit_feats(n):
    """feature list of a literal node, derived from its spelling."""
    s = n[1]
    f = []
    m = re.match(r"^(u8|u|U|L)?'", s)
    if m:
        f.append("char")
        if m.group(1):
            f.append("prefix=" + m.group(1))
        body = s[s.index("'") + 1:-1]
        if body.startswith("\\"):
            if body[1] == "x":
                f.append("esc=hex")
            elif body[1] in "01234567":
                f.append("esc=oct")
            else:
                f.append("esc=" + body[1])
        else:
            f.append("plain")
        return f
    t = s.replace("'", "")
    m = re.match(r"^(0[xX][0-9a-fA-F]+|0[bB][01]+|[0-9]+)([uUlLzZ]*)$", t)
    core, suf = (m.group(1), m.group(2)) if m else (t, "")
    if core[:2] in ("0x", "0X"):
        f.append("hex")
    elif core[:2] in ("0b", "0B"):
        f.append("binary")
    elif len(core) > 1 and core[0] == "0":
        f.append("octal")
    elif core == "0":
        f.append("zero")
    else:
        f.append("decimal")
    if "'" in s:
        f.append("sep")
        if f[0] == "hex" and re.search(r"'[a-fA-F]", s):
            f.append("sepalpha")
    if suf:
        f.append("suffix=" + suf.lower())
    return f


def root_sig(n):
    """signature of a node by its root construct (finite alphabet)."""
    k = n[0]
    if k == "lit":
        f = lit_feats(n)
        if f[0] == "char":
            if "plain" in f:
                ch = n[1][n[1].index("'") + 1]
                if not ch.isalnum():
                    f = [x if x != "plain" else "plain(0x%02x)" % ord(ch) for x in f]
            return "literal=" + ",".join(f)
        # numeric: base [+sep] [+suffix] (the suffix letters folded to u / l / ul classes)
        out = [f[0]]
        if "sep" in f:
            out.append("sep-before-letter" if "sepalpha" in f else "sep")
        for x in f:
            if x.startswith("suffix="):
                sx = x[7:]
                out.append("suffix=" + ("u" if "u" in sx else "") + ("l" if ("l" in sx or "z" in sx) else ""))
        if f[0] == "binary":
            core = re.sub(r"[uUlLzZ']", "", n[1])[2:]
            out.append("leading=" + core[:1])
        return "literal=" + ",".join(out)
    if k == "un":
        return "unop(" + n[1] + ")"
    if k == "bin":
        return "binop(" + n[1] + ")"
    if k == "cond":
        return "cond"
    if k == "cast":
        return "cast=" + n[1] + "(" + n[2] + ")"
    if k == "par":
        return "paren"
    if k == "ref":
        return "ref-" + n[1]
    if k == "id0":
        return "undefined-ident"
    if k == "def":
        return "defined" + ("()" if n[2] else "")
    if k == "hasinc":
        return "has_include(" + ("<>" if n[1].startswith("<") else '""') + ")"
    return k


def opname(n):
    k = n[0]
    if k == "bin":
        return n[1]
    if k == "cond":
        return "?:"
    if k == "un":
        return "u" + n[1]
    if k == "cast":
        return "cast"
    return None


def features(n, out=None):
    """feature signatures exercised by an expression: parent/child operator pairs with side (the coverage matrix of
    DESIGN App. D), literal forms, casts, reference kinds."""
    if out is None:
        out = set()
    for nd in subexprs(n):
        k = nd[0]
        if k == "lit":
            out.add("lit:" + root_sig(nd)[8:])
        elif k in ("ref", "id0", "def", "hasinc"):
            out.add("leaf:" + root_sig(nd))
        elif k == "cast":
            out.add("cast:" + nd[1] + ":" + nd[2])
        po = opname(nd)
        if po and k in ("bin", "cond", "un"):
            for i, c in enumerate(children(nd)):
                inner = c
                par = False
                while inner[0] == "par":
                    inner = inner[1]
                    par = True
                co = opname(inner)
                if co and inner[0] in ("bin", "cond", "un"):
                    # was the grouping implied by precedence (no parentheses in the text)?
                    need = prec(inner) < _ctx_for_child(nd, i)
                    out.add("pair:%s>%s@%d%s" % (po, co, i, ":paren" if (need or par) else ""))
            out.add("op:" + po)
    return out


def _ctx_for_child(nd, i):
    k = nd[0]
    if k == "bin":
        p = PREC[nd[1]]
        return p if i == 0 else p + 1
    if k == "cond":
        return PREC["||"] if i == 0 else PREC["?:"]
    return P_UNARY


# ---------------------------------------------------------------------------
# literal spellings
# ---------------------------------------------------------------------------

SIMPLE_ESC = {"n": 10, "t": 9, "r": 13, "a": 7, "b": 8, "f": 12, "v": 11, "\\": 92, "'": 39, '"': 34, "?": 63, "0": 0}
SUFFIXES = {"u": "u", "U": "u", "l": "l", "L": "l", "ul": "ul", "UL": "ul", "lu": "ul", "uL": "ul", "LU": "ul",
            "ll": "l", "LL": "l", "ull": "ul", "ULL": "ul", "llu": "ul", "uLL": "ul", "LLu": "ul"}


def _sep(rng, digits, group):
    """insert digit separators (never leading/trailing/adjacent)."""
    if len(digits) < 2:
        return digits
    out = digits[0]
    for i, ch in enumerate(digits[1:], 1):
        if rng.random() < (0.5 if group is None else (1.0 if (len(digits) - i) % group == 0 else 0.0)):
            out += "'"
        out += ch
    return out


def spell_number(rng, v, form=None, sep=None, suffix=None, pp=False):
    """spelling of the non-negative value v.  -> (text, typ)"""
    assert 0 <= v <= INT_MAX
    form = form or rng.choice(["dec", "dec", "dec", "oct", "hex", "hex", "bin"])
    if form == "dec":
        pre, digits = "", str(v)
    elif form == "oct":
        pre, digits = ("0", "%o" % v) if v else ("", rng.choice(["0", "00"]))
    elif form == "hex":
        pre = rng.choice(["0x", "0x", "0X"])
        digits = "%x" % v
        if rng.random() < 0.3:
            digits = "0" * rng.randint(1, 3) + digits
        cs = rng.random()
        digits = digits.upper() if cs < 0.35 else (digits if cs < 0.7 else
                                                   "".join(rng.choice([c.upper(), c.lower()]) for c in digits))
    else:
        pre = rng.choice(["0b", "0b", "0B"])
        digits = "{0:b}".format(v)
        if rng.random() < 0.3:
            digits = "0" * rng.randint(1, 3) + digits
    if sep is None:
        sep = rng.random() < 0.2
    if sep and len(digits) >= 2:
        grp = rng.choice([None, 3, 4, 2]) if form != "dec" else rng.choice([None, 3, 3])
        d2 = _sep(rng, digits, grp)
        # an octal literal's leading 0 may itself be followed by a separator: 0'17
        if form == "oct" and pre == "0" and rng.random() < 0.3:
            pre = "0'"
        digits = d2
    if suffix is None:
        suffix = rng.choice(list(SUFFIXES)) if rng.random() < 0.2 else ""
    typ = SUFFIXES.get(suffix, "i")
    return pre + digits + suffix, typ


def spell_char(rng, v=None, pp=False):
    """a character literal -> (text, value, typ).  Plain char is signed here (x86-64 Linux)."""
    r = rng.random()
    prefix = ""
    if rng.random() < 0.12:
        prefix = "L" if pp else rng.choice(["L", "u", "U", "u8"])
    if v is None:
        if r < 0.45:
            v = rng.choice([c for c in range(32, 127) if chr(c) not in "'\\"])
        elif r < 0.7:
            v = rng.choice(list(SIMPLE_ESC.values()))
        elif prefix:
            v = rng.randint(0, 127)
        else:
            v = rng.choice([0, 1, 7, 27, 64, 65, 97, 126, 127, 128, 200, 255])
    signed = lambda x: x - 256 if (x >= 128 and not prefix) else x
    kinds = []
    if 32 <= v < 127 and chr(v) not in "'\\":
        kinds.append("plain")
    for ch, cv in SIMPLE_ESC.items():
        if cv == v and ch != "0":
            kinds.append("esc:" + ch)
    if 0 <= v < 256:
        kinds += ["oct", "hex"]
    kd = rng.choice(kinds)
    if kd == "plain":
        body = chr(v)
    elif kd.startswith("esc:"):
        body = "\\" + kd[4:]
    elif kd == "oct":
        body = "\\" + rng.choice(["%o", "%03o"] if v < 64 else ["%o"]) % v
    else:
        body = "\\x" + rng.choice(["%x", "%X", "%02x"]) % v
    # char32_t promotes to unsigned int; char, char8/16_t and (Linux) wchar_t promote to int
    return prefix + "'" + body + "'", signed(v), ("u" if prefix == "U" else "i")


# ---------------------------------------------------------------------------
# generator
# ---------------------------------------------------------------------------

INTERESTING = [0, 0, 1, 1, 2, 3, 4, 5, 7, 8, 10, 15, 16, 31, 32, 63, 64, 100, 127, 128, 255, 256, 1000, 4095, 32767,
               32768, 65535, 65536, 1 << 20, (1 << 24) - 1, 1 << 30, (1 << 30) + 1, INT_MAX - 1, INT_MAX,
               (1 << 31) - 2, 0x7fff0000, 0x55555555, 0x2aaaaaaa, 12345, 99999]


class ExprGen:
    """Value-aware random generator: every produced tree evaluates (no Invalid)."""

    def __init__(self, rng, mode="cxx", refs=(), binops=None, unops=None, casts=True, comma=True,
                 tight=False, lit_forms=None, suffixes=True, chars=True, ids=(), defs=(), hasincs=()):
        self.rng = rng
        self.mode = mode
        self.refs = list(refs)          # list of ["ref", ...] nodes available
        self.binops = list(binops or [o for o in BINOPS if o != "," or (comma and mode == "cxx")])
        self.unops = list(unops or UNOPS)
        self.casts = casts and mode == "cxx"
        self.lit_forms = lit_forms
        self.suffixes = suffixes
        self.chars = chars
        self.ids = list(ids)            # pp: names that are not macros
        self.defs = list(defs)          # pp: (name, is_defined)
        self.hasincs = list(hasincs)    # pp: (spelling, exists)

    # -- leaves
    def number(self, v=None):
        rng = self.rng
        if v is None:
            v = rng.choice(INTERESTING) if rng.random() < 0.7 else rng.randint(0, 300)
            if rng.random() < 0.15:
                v = max(0, min(INT_MAX, v + rng.choice([-1, 1])))
        form = rng.choice(self.lit_forms) if self.lit_forms else None
        text, typ = spell_number(rng, v, form=form, suffix=None if self.suffixes else "", pp=self.mode == "pp")
        if self.mode == "pp" and typ == "u":
            typ = "ul"          # in #if every unsigned operand has type uintmax_t
        return ["lit", text, v, typ]

    def char(self):
        text, v, typ = spell_char(self.rng, pp=self.mode == "pp")
        return ["lit", text, v, typ]

    def value_leaf(self, v):
        """a small tree whose value is exactly v (negative values through unary minus)."""
        if v >= 0:
            return self.number(v)
        if v == INT_MIN:
            return ["par", ["bin", "-", ["un", "-", self.number(INT_MAX)], self.number(1)]]
        return ["un", "-", self.number(-v)]

    def leaf(self):
        rng = self.rng
        r = rng.random()
        if self.refs and r < 0.22:
            return list(rng.choice(self.refs))
        if self.mode == "pp":
            if self.ids and r < 0.30:
                return ["id0", rng.choice(self.ids)]
            if self.defs and r < 0.40:
                nm, isdef = rng.choice(self.defs)
                return ["def", nm, rng.random() < 0.6, bool(isdef)]
            if self.hasincs and r < 0.46:
                sp, ex = rng.choice(self.hasincs)
                return ["hasinc", sp, bool(ex)]
        if self.chars and r < 0.56:
            return self.char()
        n = self.number()
        if rng.random() < 0.25 and n[2] > 0:
            return ["un", "-", n]
        return n

    # -- inner nodes
    def expr(self, d, force_root=None):
        """a valid tree of depth <= d.  force_root: ("bin", op) / ("un", op) / ("cond",) / ("cast", style, ty)"""
        rng = self.rng
        for _ in range(40):
            n = self._node(d, force_root)
            if n is not None and try_eval(n) is not None:
                return n
        if force_root is not None:
            return None
        return self.leaf()

    def _node(self, d, force=None):
        rng = self.rng
        if force is None:
            if d <= 1 or rng.random() < 0.12:
                lf = self.leaf()
                return lf if try_eval(lf) is not None else self.number(rng.randint(0, 9))
            r = rng.random()
            if r < 0.62:
                force = ("bin", rng.choice(self.binops))
            elif r < 0.76:
                force = ("un", rng.choice(self.unops))
            elif r < 0.86:
                force = ("cond",)
            elif r < 0.94 and self.casts:
                force = ("cast", rng.choice(["c", "c", "static", "func"]),
                         rng.choice(["int", "int", "int", "bool", "bool", "bool", "unsigned", "unsigned", "char"]))
            else:
                force = ("par",)
        k = force[0]
        sub = lambda: self.expr(max(1, d - 1 - (rng.randint(0, 2) if rng.random() < 0.4 else 0)))
        if k == "par":
            return ["par", sub()]
        if k == "un":
            return ["un", force[1], sub()]
        if k == "cast":
            return ["cast", force[1], force[2], sub()]
        if k == "cond":
            return ["cond", sub(), sub(), sub()]
        op = force[1]
        l = sub()
        lv = try_eval(l)
        if lv is None:
            return None
        for _ in range(12):
            r = self._right_for(op, lv[0], d)
            n = ["bin", op, l, r]
            if try_eval(n) is not None:
                return n
        return None

    def _right_for(self, op, lv, d):
        """right operand chosen with the operator's domain in mind."""
        rng = self.rng
        if op in ("<<", ">>"):
            if rng.random() < 0.7:
                hi = 31
                if op == "<<" and lv > 0:
                    hi = max(0, 30 - lv.bit_length())
                return self.number(rng.randint(0, max(0, hi)))
        elif op in ("/", "%"):
            if rng.random() < 0.6:
                v = rng.choice([1, 2, 3, 7, 10, 16, 255, 1000, INT_MAX])
                return self.value_leaf(v if rng.random() < 0.7 else -v)
        elif op == "*":
            if abs(lv) > 46340 and rng.random() < 0.8:
                lim = INT_MAX // max(1, abs(lv))
                return self.value_leaf(rng.randint(-min(lim, 3), min(lim, 3)))
        elif op in ("+", "-"):
            if abs(lv) > (1 << 30) and rng.random() < 0.8:
                # stay in range: move towards zero
                room = max(0, INT_MAX - abs(lv))
                v = rng.randint(0, min(room, 1000)) if rng.random() < 0.5 else rng.choice([0, 1, room])
                sign = 1 if ((lv < 0) == (op == "+")) else -1
                return self.value_leaf(sign * v if rng.random() < 0.8 else -sign * min(abs(lv), v))
        elif op in ("==", "!=", "<", ">", "<=", ">="):
            if rng.random() < 0.35:
                return self.value_leaf(max(INT_MIN, min(INT_MAX, lv + rng.choice([-1, 0, 0, 1]))))
        return self.expr(max(1, d - 1 - rng.randint(0, 1)))


# ---------------------------------------------------------------------------
# literal reductions used when minimising a failing literal
# ---------------------------------------------------------------------------

def literal_reductions(n):
    """simpler spellings of the same literal value, most complex first: without the encoding prefix (chars); without
    digit separators; without suffix; without both; plain decimal.  Callers keep the simplest one that still fails."""
    s = n[1]
    out = []
    m = re.match(r"^(u8|u|U|L)?'", s)
    if m:
        if m.group(1):
            out.append(["lit", s[len(m.group(1)):], n[2], "i"])
    else:
        m = re.search(r"[uUlLzZ]+$", s)
        suf = m.group(0) if m else ""
        core_ = s[:len(s) - len(suf)]
        if "'" in core_ and suf:
            out.append(["lit", core_.replace("'", "") + suf, n[2], n[3]])
        if suf:
            out.append(["lit", core_, n[2], "i"])
        if "'" in core_:
            out.append(["lit", core_.replace("'", ""), n[2], "i"])
    if n[2] >= 0 and str(n[2]) != s and (not out or out[-1][1] != str(n[2])):
        out.append(["lit", str(n[2]), n[2], "i"])
    elif n[2] < 0:
        out.append(["par", ["un", "-", ["lit", str(-n[2]), -n[2], "i"]]])
    return out
