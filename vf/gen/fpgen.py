"""fpgen -- headers with floating-point default arguments and float macros, with ground truth (C18 end-to-end).

header(rng, n) -> (text, truth).  truth is a list of dicts, one per literal:
  id      unique id of the literal
  kind    "default" | "macro"
  name    parameter name (globally unique in the header) or macro name
  func    name of the function / method / constructor owning the parameter
  ptype   "f" | "d" | "l"   (float / double / long double parameter; "d" for macros)
  sign    "+" | "-"         (a unary minus written in front of the literal)
  text    the literal exactly as written in the header (digit separators, suffix)
  digits  the literal without digit separators and suffix -- what strtod is shown
  suffix  "-" | "f" | "l"
  sep     True when the spelling contains a digit separator
  cls     literal class (generator's name for the shape; the feature alphabet)

Restrictions (documented in docs/C18.md): decimal literals only; digit separators only in the integer part and in
the exponent (a separator in the fraction part is a *parse error* in the pinned tree -- a C06 matter, loud, not a
silent change of value); values finite and non-zero-unless-written-as-zero (g++ only warns for out-of-range literals);
literals used as float (f suffix or float parameter) stay inside the normal float range.
"""

PTYPE = {"f": "float", "d": "double", "l": "long double"}


def _digits(rng, n, nonzero_first=True):
    s = ""
    for i in range(n):
        s += str(rng.randint(1, 9) if (i == 0 and nonzero_first) else rng.randint(0, 9))
    return s


def _sep(rng, s):
    """insert C++14 digit separators into a digit string (never first/last)."""
    if len(s) < 2:
        return s
    out = s[0]
    for ch in s[1:]:
        if rng.random() < 0.35:
            out += "'"
        out += ch
    return out


COMMON = ["0.3", "0.1", "0.7", "3.14159", "2.718281828459045", "1e-5", "0.001", "123456789.125", "6.02214076e23",
          "1.0", "0.5", "100.0", "1e10", "9.81", "0.05", "299792458.0", "1.6e-19", "0.0174532925199433",
          "57.29577951308232", "1e-9", "4.35", "0.01", "1.1", "2.2", "1e23", "8.41e21", "0.0", "5e-324"]


def literal(rng, want_sep=False):
    """returns dict(text, digits, sep, cls) for an unsuffixed decimal floating literal."""
    for _ in range(100):
        cls = rng.choice(["common", "short-frac", "short-frac", "exp", "exp", "lead-dot", "trail-dot", "long", "vlong",
                          "int-exp", "zeros", "tiny", "huge"])
        sep = False
        if cls == "common":
            text = digits = rng.choice(COMMON)
        else:
            if cls == "short-frac":
                ip, fp, ex = _digits(rng, rng.randint(1, 6)), _digits(rng, rng.randint(1, 9), False), ""
            elif cls == "exp":
                ip, fp = _digits(rng, rng.randint(1, 3)), _digits(rng, rng.randint(1, 14), False)
                ex = "%s%s%d" % (rng.choice("eE"), rng.choice(["", "+", "-", "-"]), rng.randint(0, 40))
            elif cls == "lead-dot":
                ip, fp, ex = "", _digits(rng, rng.randint(1, 12), False), rng.choice(["", "", "e-3", "E+2"])
            elif cls == "trail-dot":
                ip, fp, ex = _digits(rng, rng.randint(1, 12)), None, rng.choice(["", "", "e5", "e-7"])
            elif cls == "long":
                n = rng.randint(16, 19)
                k = rng.randint(1, n - 1)
                d = _digits(rng, n)
                ip, fp, ex = d[:k], d[k:], rng.choice(["", "", "e-10", "e12"])
            elif cls == "vlong":
                n = rng.randint(20, 60)
                k = rng.randint(1, n - 1)
                d = _digits(rng, n)
                ip, fp, ex = d[:k], d[k:], rng.choice(["", "", "e-30", "e25"])
            elif cls == "int-exp":
                ip, fp, ex = _digits(rng, rng.randint(1, 8)), "", "%s%s%d" % (rng.choice("eE"), rng.choice(["", "+", "-"]), rng.randint(1, 60))
            elif cls == "zeros":
                ip = rng.choice(["0", "00", "10", "100", "1000000", "007"])
                fp = rng.choice(["0", "00", "000000", "10", "5000", "000001", "25000000000000000000"])
                ex = rng.choice(["", "", "e0", "e00", "e+01"])
            elif cls == "tiny":
                ip, fp = _digits(rng, 1), _digits(rng, rng.randint(1, 15), False)
                ex = "e-%d" % rng.randint(250, 320)
            else:
                ip, fp = _digits(rng, 1), _digits(rng, rng.randint(1, 15), False)
                ex = "e%s%d" % (rng.choice(["", "+"]), rng.randint(250, 307))
            digits = (ip + ex) if (fp == "" and ex) else (ip + "." + (fp or "") + ex)
            text = digits
            if want_sep and len(ip) >= 2:
                # separators: integer part always legal; exponent digits as well
                ips = _sep(rng, ip)
                text = ips + digits[len(ip):]
                sep = "'" in text
            if want_sep and ex and len(ex.lstrip("eE+-")) >= 2 and rng.random() < 0.5:
                # ... and between exponent digits
                text = text[:-1] + "'" + text[-1]
                sep = True
        # must be a floating literal, finite, and zero only if written as zero
        if not any(c in digits for c in ".eE"):
            continue
        try:
            v = float(digits)
        except ValueError:
            continue
        if v in (float("inf"), float("-inf")) or v != v:
            continue
        if v == 0.0 and any(c in "123456789" for c in digits.lower().split("e")[0]):
            continue
        return dict(text=text, digits=digits, sep=sep, cls=cls)
    return dict(text="0.3", digits="0.3", sep=False, cls="common")


def header(rng, n_funcs=8, tag="fp", odd_suffix=False):
    """odd_suffix: also produce the combination 'f'-suffixed literal for a double parameter."""
    L = ["#ifndef %s_H" % tag.upper(), "#define %s_H" % tag.upper(), ""]
    truth = []
    uid = [0]

    def nid(p):
        uid[0] += 1
        return "%s_%s%d" % (tag, p, uid[0])

    def fits_float(lit):
        v = abs(float(lit["digits"]))
        return v == 0.0 or 1e-37 < v < 3e38

    def param(func):
        lit = literal(rng, want_sep=rng.random() < 0.2)
        r = rng.random()
        suffix, ptype = "-", "d"
        if r < 0.12:
            suffix, ptype = "f", "f"
        elif r < 0.20:
            suffix, ptype = "-", "f"
        elif r < 0.26:
            suffix, ptype = "l", rng.choice(["l", "d"])
        elif r < 0.30:
            suffix, ptype = "-", "l"
        elif odd_suffix and r < 0.36:
            suffix, ptype = "f", "d"
        while (suffix == "f" or ptype == "f") and not fits_float(lit):
            lit = literal(rng, want_sep=rng.random() < 0.2)
        text = lit["text"] + ("" if suffix == "-" else rng.choice([suffix, suffix.upper()]))
        sign = "-" if rng.random() < 0.15 else "+"
        name = nid("q")
        truth.append(dict(id=name, kind="default", name=name, func=func, ptype=ptype, sign=sign, text=text,
                          digits=lit["digits"], suffix=suffix, sep=lit["sep"], cls=lit["cls"]))
        return "%s %s = %s%s" % (PTYPE[ptype], name, "-" if sign == "-" else "", text)

    def params(func):
        k = rng.randint(1, 4)
        lead = ["int %s" % nid("n")] if rng.random() < 0.3 else []
        return ", ".join(lead + [param(func) for _ in range(k)])

    for i in range(rng.randint(1, 4)):
        lit = literal(rng, want_sep=False)
        suffix = "-"
        if rng.random() < 0.2:
            suffix = rng.choice(["f", "l"])
        while suffix == "f" and not fits_float(lit):
            lit = literal(rng, want_sep=False)
        name = nid("M").upper()
        text = lit["text"] + ("" if suffix == "-" else suffix)
        truth.append(dict(id=name, kind="macro", name=name, func="", ptype="d" if suffix != "f" else "f", sign="+",
                          text=text, digits=lit["digits"], suffix=suffix, sep=False, cls=lit["cls"]))
        L.append("#define %s %s" % (name, text))
    L.append("")
    n_cls = max(1, n_funcs // 4)
    for _ in range(n_cls):
        cn = nid("K")
        L.append("class %s {" % cn)
        L.append("public:")
        L.append("  %s(%s);" % (cn, params(cn + "::" + cn)))
        for _ in range(rng.randint(1, 3)):
            mn = nid("m")
            st = rng.random() < 0.25
            L.append("  %s%s %s(%s)%s;" % ("static " if st else "", rng.choice(["void", "double", "float", "int"]), mn,
                                          params(cn + "::" + mn), "" if st or rng.random() < 0.5 else " const"))
        L.append("};")
        L.append("")
    for _ in range(max(1, n_funcs - 2 * n_cls)):
        fn = nid("g")
        L.append("%s %s(%s);" % (rng.choice(["void", "double", "int"]), fn, params(fn)))
    L.append("")
    L.append("#endif")
    return "\n".join(L) + "\n", truth


# ---------------------------------------------------------------------------------------------------------------
# colliding signatures: several functions/methods in ONE header whose types differ only in a floating default
# ---------------------------------------------------------------------------------------------------------------

DYADIC = ["0.5", "2.0", "0.25", "4.0", "1.5", "3.0", "0.75", "8.0", "0.125", "6.0", "1.0"]


def _scale_pow2(digits, k):
    """exact decimal spelling of value(digits) * 2**k (scaling by a power of two commutes with rounding to double
    in the normal range, so the doubles share their significand)."""
    import decimal
    ctx = decimal.Context(prec=400)
    v = ctx.multiply(decimal.Decimal(digits), ctx.power(decimal.Decimal(2), k))
    s = format(v, "f")
    if "." in s:
        s = s.rstrip("0")
        if s.endswith("."):
            s += "0"
    else:
        s += ".0"
    return s


def _adjacent(rng):
    import math
    x = float("%.6g" % (rng.uniform(0.001, 1000.0)))
    up = math.nextafter(x, math.inf)
    dn = math.nextafter(x, -math.inf)
    return [repr(dn), repr(x), repr(up)]


def collide_groups(rng):
    """-> list of (relation-class, ptype, [(sign, text, digits, suffix)])"""
    def plain(vals, sign="+"):
        return [(sign, v, v, "-") for v in vals]

    groups = []
    # powers of two apart: same significand, different binary exponent
    for base in rng.sample(["0.5", "0.1", "1.5", "45.0", "0.3", "3.14159", "12.75", "0.001", "33.3", "7.0"], 3) + \
            ["%d.%d" % (rng.randint(0, 99), rng.randint(1, 999))]:
        ks = sorted(rng.sample(range(-5, 6), rng.randint(2, 4)))
        groups.append(("pow2", rng.choice("ddf"), plain([_scale_pow2(base, k) for k in ks])))
    groups.append(("pow2-far", "d", plain([_scale_pow2("1.25", k) for k in (-200, -64, 0, 64, 200)])))
    groups.append(("negzero", "d", [("+", "0.0", "0.0", "-"), ("-", "0.0", "0.0", "-"), ("+", "0.", "0.", "-")]))
    x = rng.choice(["2.5", "0.7", "1e10", "3.0"])
    groups.append(("negated", "d", [("+", x, x, "-"), ("-", x, x, "-")]))
    groups.append(("spelling", "d", plain(["0.1", "1e-1", "0.10", "1.0e-1", ".1", "100e-3"])))
    dy = rng.sample(DYADIC, 4)
    groups.append(("suffix", "d", [("+", dy[0] + "f", dy[0], "f"), ("+", dy[0], dy[0], "-"), ("+", dy[1] + "F", dy[1], "f"),
                                   ("+", dy[2], dy[2], "-"), ("+", dy[3] + "L", dy[3], "l")]))
    groups.append(("suffix", "f", [("+", dy[0] + "f", dy[0], "f"), ("+", dy[1] + "f", dy[1], "f"), ("+", dy[2], dy[2], "-")]))
    groups.append(("adjacent", "d", plain(_adjacent(rng))))
    n = rng.randint(1, 90)
    groups.append(("same-int-part", rng.choice("df"), plain(["%d.25" % n, "%d.5" % n, "%d.75" % n, "%d.3" % n])))
    groups.append(("float-close", "d", plain(["0.1", "0.1000000001", "0.10000000000000002", "0.09999999999"])))
    groups.append(("far", "d", plain(["1e300", "1e-300", "1.0", "1e-307"])))
    groups.append(("int-vs-real", "d", plain(["2", "2.0", "4.0", "1", "0"])))
    # the power-of-two families come first (always present), the other relations are sampled
    head = [g for g in groups if g[0] == "pow2"]
    tail = [g for g in groups if g[0] != "pow2"]
    rng.shuffle(head)
    rng.shuffle(tail)
    return head[:2] + tail


def collide_header(rng, tag="fpc", n_groups=6):
    """One header in which, per group, several functions/methods have the same return type, parameter names and
    parameter types and differ only in a floating default argument.  Sites are located by (function name, parameter
    position); function names are unique.  -> (text, truth)"""
    groups = collide_groups(rng)[:n_groups]
    L = ["#ifndef %s_H" % tag.upper(), "#define %s_H" % tag.upper(), ""]
    truth = []
    uid = [0]

    def nid(p):
        uid[0] += 1
        return "%s_%s%d" % (tag, p, uid[0])

    free = []
    classes = []
    for g, (rel, ptype, lits) in enumerate(groups):
        pname = "v%d" % g
        shape = rng.choice(["free", "free", "free2", "methods", "methods2"])
        ret = rng.choice(["void", "double", "int"])
        order = list(lits)
        rng.shuffle(order)
        const0 = rng.choice(["0.5", "1.0", "0.25"])

        def decl(func, lit, indent=""):
            sign, text, digits, suffix = lit
            ps = []
            pos = 0
            if shape == "free2":
                ps.append("int n%d" % g)
                ps.append("double a%d = %s" % (g, const0))
                truth.append(dict(id="%s#1" % func, kind="default", name="a%d" % g, func=func, pos=1, ptype="d", sign="+",
                                  text=const0, digits=const0, suffix="-", sep=False, cls="const", group=g))
                pos = 2
            ps.append("%s %s = %s%s" % (PTYPE[ptype], pname, "-" if sign == "-" else "", text))
            truth.append(dict(id="%s#%d" % (func, pos), kind="default", name=pname, func=func, pos=pos, ptype=ptype, sign=sign,
                              text=text, digits=digits, suffix=suffix, sep=False, cls=rel, group=g))
            return "%s%s %s(%s);" % (indent, ret, func, ", ".join(ps))

        if shape in ("free", "free2"):
            for lit in order:
                free.append(decl(nid("g"), lit))
        else:
            ncls = 1 if shape == "methods" else 2
            cl = [[] for _ in range(ncls)]
            for i, lit in enumerate(order):
                cl[i % ncls].append(decl(nid("m"), lit, "  "))
            for body in cl:
                cn = nid("K")
                classes.append("class %s {\npublic:\n  %s();\n%s\n};\n" % (cn, cn, "\n".join(body)))
    rng.shuffle(free)
    L += classes
    L += free
    L += ["", "#endif"]
    return "\n".join(L) + "\n", truth
