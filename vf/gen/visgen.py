"""visgen -- header/include-tree/.N generator for C04 (DESIGN.md §3 C04).

Every declared entity gets a unique name  <tag>_<kind><n>q  (the trailing `q`
terminates the number, so a name is never a prefix of another one and can be
found by substring search inside concatenated identifiers such as
`Dtool_pub_c1q_pub_m7q_3`).  The tag says why the generator expects the entity
to be exported or not; the *facts* the oracle uses (C++ access, published or
not, file placement, .N commands, exclusions) are stored next to the name in
the model, and the oracle in vf/props/c04.py derives must / must-not /
unspecified from those facts by the rule in the property statement.

Ground truth conventions (all independent of interrogate's implementation):
 * C++ access is what g++ sees when PUBLISHED is `public` and BEGIN_PUBLISH /
   END_PUBLISH are empty (the documented non-CPPPARSER definitions in
   dtoolbase.h).
 * "published" = declared after a `PUBLISHED:` label, or lexically inside a
   BEGIN_PUBLISH..END_PUBLISH region with no later non-public label; a
   `public:` label lexically inside an open region counts as published (the
   grammar says so explicitly).  Where the convention is silent (public
   members after an END_PUBLISH whose region contained labels) the entity is
   ambiguous: unspecified without -promiscuous.

The model is JSON-serialisable:
  {"files":[{id,path,ref,how,angle,cmdarg,ignorefile,local,pre,chunks,post}],
   "nfiles":{path:text}, "cmdline":[file ids], "incs":[...], "ents":{name:rec},
   "features":[...]}
"""
import random
import re

TAGS = ["pub", "plainpublic", "prot", "privtype", "priv", "deleted", "tmpl", "rvref",
        "incI", "incS", "inccwd", "incsib", "ign_member", "ign_type", "ign_involved",
        "ign_file", "forced", "unspec"]
TOKEN_RE = re.compile(r"(?:" + "|".join(TAGS) + r")_[a-z]{1,3}\d+q")

VIS_H = """#ifndef VIS_H
#define VIS_H
#ifdef CPPPARSER
#define PUBLISHED __published
#define BEGIN_PUBLISH __begin_publish
#define END_PUBLISH __end_publish
#else
#define PUBLISHED public
#define BEGIN_PUBLISH
#define END_PUBLISH
#endif
template<class T> struct vg_traits { typedef T value_type; };
#endif
"""

ATOMS = ["int", "float", "bool", "double", "unsigned int", "short"]
# no "/": under -python-native it copies an uninitialised SlottedFunctionDef::_keep_method (UBSan abort; not C04's matter)
OPERS = ["+", "-", "*", "==", "!=", "<", ">"]

DEFAULT_PARAMS = dict(
    tree=False,        # generate an include tree (cwd / sibling / -I / -S placements)
    nfile=False,       # generate .N command files
    odd=0.0,           # probability of odd region/label interleavings per class-level region
    kwmacro=False,     # a local file defines its own macros for the interrogate keywords
    size=1.0,          # scale of the number of declarations
)


class Ctx:
    """container context of a declaration"""

    def __init__(self, file, vis=0, amb=False, excl=(), forced=False, ns=None, top=None, owner=None, qual="",
                 cctx="", depth=0, selfinv=False):
        self.file, self.vis, self.amb, self.excl, self.forced = file, vis, amb, tuple(excl), forced
        self.ns, self.top, self.owner, self.qual, self.cctx, self.depth = ns, top, owner, qual, cctx, depth
        self.selfinv = selfinv

    def sub(self, **kw):
        c = Ctx(self.file, self.vis, self.amb, self.excl, self.forced, self.ns, self.top, self.owner, self.qual,
                self.cctx, self.depth, self.selfinv)
        for k, v in kw.items():
            setattr(c, k, v)
        return c


class St:
    """visibility state of one scope while emitting it"""

    def __init__(self, cxx, pub):
        self.cxx = cxx      # 1 public, 2 protected, 3 private (C++ access; 1 at namespace scope)
        self.pub = pub      # True / False / None (ambiguous)
        self.ctx = ""       # context label for keys

    def own(self):
        """-> (vis 0..3, ambiguous)"""
        if self.cxx > 1:
            return self.cxx, False
        if self.pub is None:
            return 1, True
        return (0 if self.pub else 1), False


class VisGen:
    def __init__(self, seed, params=None):
        self.rng = random.Random(f"visgen:{seed}")
        self.p = dict(DEFAULT_PARAMS)
        self.p.update(params or {})
        self.n = 0
        self.ents = {}
        self.files = []
        self.region_open = False       # a BEGIN_PUBLISH region is lexically open (any scope)
        self.features = set()
        self._sig_alias = False        # the signature picked last names a type through a typedef/using alias
        self.vmacros = []              # object-like macros visible at the point being emitted (name list)
        self.ncmd = dict(ignoremember=[], ignoretype=[], ignoreinvolved=[], ignorefile=[], forcetype=[])
        self.cur_chunk = None          # (file id, chunk index) being emitted
        self._ownvis = 0               # visibility of the declaration being emitted (own, not inherited)
        self.kw_begin = "BEGIN_PUBLISH"
        self.kw_end = "END_PUBLISH"

    # ------------------------------------------------------------------ names / entities
    def nm(self, tag, k):
        self.n += 1
        return f"{tag}_{k}{self.n}q"

    def tag_for(self, c, vis, excl):
        for x in ("deleted", "tmpl", "rvref", "privtype", "ign_member", "ign_involved"):
            if x in excl:
                if vis == 3:
                    return "priv"
                if vis == 2:
                    return "prot"
                return x
        if vis == 3:
            return "priv"
        if vis == 2:
            return "prot"
        if "tmpl" in c.excl or "tmpl" in excl:
            return "tmpl"
        if "ign_type" in c.excl or "ign_type" in excl:
            return "ign_type"
        if vis == 1:
            return "plainpublic"
        f = c.file
        if f["ignorefile"]:
            return "ign_file"
        if f["local"]:
            if f["how"] in ("cwd", "cwdsub") and f["cmdarg"] is None:
                return "inccwd"
            return "pub"
        if c.forced:
            return "forced"
        return {"I": "incI", "S": "incS", "sib": "incsib"}[f["how"]]

    def add(self, name, tag, kind, c, vis, amb=False, excl=(), refs=(), simple=False, ctx="", **kw):
        """vis: effective visibility (worst of own and enclosing nested classes; informational, decides the tag);
        kw["ownvis"]: visibility of the declaration itself; excl: the entity's own exclusion reasons."""
        rec = dict(name=name, tag=tag, kind=kind, file=c.file["id"], vis=vis, amb=bool(amb or c.amb),
                   excl=sorted(set(excl)), cexcl=sorted(c.excl), forced=c.forced, ns=c.ns, top=c.top, owner=c.owner,
                   refs=sorted(set(refs)), simple=bool(simple), ctx=ctx or c.cctx, chunk=self.cur_chunk)
        rec.update(kw)
        rec.setdefault("ownvis", self._ownvis)
        assert name not in self.ents
        self.ents[name] = rec
        return rec

    # ------------------------------------------------------------------ types for signatures
    def pick_sig(self, c, vtypes, own_types, want_priv=False, nparams=None, want_simple=False):
        """-> (ret_text, [(type_text, default)], refs, excl, simple)"""
        rng = self.rng
        refs, excl = [], set()
        simple = True
        self._sig_alias = False

        def one(as_ret):
            nonlocal simple
            usable = [t for t in vtypes if t["access"] is None]
            usable += [t for t in own_types if t["access"] is None]
            if not want_simple and usable and rng.random() < 0.4:
                t = rng.choice(usable)
                al = [x for x in usable if x.get("alias")]
                if al and rng.random() < 0.3:
                    t = rng.choice(al)           # typedef / using aliases get their share of the signatures
                simple = False
                refs.append(t["name"])
                refs.extend(t.get("via", ()))
                self._sig_alias = self._sig_alias or bool(t.get("alias"))
                if t.get("involved"):
                    excl.add("ign_involved")
                if t.get("privt"):
                    excl.add("privtype")         # a public alias of a private/protected nested type
                if t["kind"] in ("enum", "aliasv"):
                    return t["q"]
                return rng.choice([t["q"] + " *", "const " + t["q"] + " &", t["q"] + " &", "const " + t["q"] + " *"])
            return rng.choice(ATOMS)

        np_ = rng.choice([0, 1, 1, 2, 2, 3]) if nparams is None else nparams
        params = [one(False) for _ in range(np_)]
        ret = rng.choice(["void", "int", "int", "float"]) if rng.random() < 0.7 else one(True)
        if ret.endswith("&") and not ret.startswith("const"):
            ret = ret[:-1] + "*"
        if want_priv:
            privs = [t for t in own_types if t["access"] is not None or t.get("privt")]
            t = rng.choice(privs)
            refs.append(t["name"])
            refs.extend(t.get("via", ()))
            self._sig_alias = self._sig_alias or bool(t.get("alias"))
            simple = False
            excl.add("privtype")
            if t.get("involved"):
                excl.add("ign_involved")
            form = t["q"] if t["kind"] in ("enum", "aliasv") else rng.choice([t["q"] + " *", "const " + t["q"] + " &",
                                                                    t["q"] + " &", t["q"] + " *const",
                                                                    "const " + t["q"] + " *"])
            if rng.random() < 0.3 and not form.endswith("&"):
                ret = form
            else:
                params.insert(rng.randint(0, len(params)), form)
        return ret, params, refs, excl, simple

    def fmt_params(self, tag, params, owner_name, c, vis, amb, excl, ctx, defaults=True, refs=()):
        out = []
        seen_default = False
        for i, t in enumerate(params):
            pn = self.nm(tag, "a")
            self.add(pn, tag, "param", c, vis, amb, excl, refs=refs, ctx=ctx, of=owner_name,
                     via_alias=bool(refs) and self._sig_alias)
            s = f"{t} {pn}"
            if defaults and (seen_default or (i == len(params) - 1 and self.rng.random() < 0.15)) and t in ATOMS:
                s += " = 1"
                seen_default = True
            out.append(s)
        return ", ".join(out)

    def make_alias(self, c, L, ind, t, vis, amb, ctx, access):
        """typedef / using alias of a visible type (plain, pointer, reference, const pointer; alias of alias when
        t is an alias).  The alias inherits what matters about its target: named by ignoreinvolved, ignoretype'd,
        private/protected nested."""
        rng = self.rng
        tag = self.tag_for(c, vis, ())
        name = self.nm(tag, "t")
        via = [t["name"]] + list(t.get("via", ()))
        self.add(name, tag, "typedef", c, vis, amb, (), [t["name"]], False, ctx, alias=True)
        form = rng.choice(["plain", "plain", "ptr", "ref", "cptr"]) if t["kind"] == "class" else "plain"
        text = {"plain": t["q"], "ptr": t["q"] + " *", "ref": t["q"] + " &", "cptr": "const " + t["q"] + " *"}[form]
        if rng.random() < 0.5:
            L.append(f"{ind}typedef {text} {name};")
        else:
            L.append(f"{ind}using {name} = {text};")
        self.features.add("alias")
        if len(via) > 1:
            self.features.add("alias-of-alias")
        return dict(name=name, q=c.qual + name, kind=(t["kind"] if form == "plain" else "aliasv"), access=access,
                    involved=bool(t.get("involved")), igt=bool(t.get("igt")), tmpl=False, alias=True, via=via,
                    privt=bool(t.get("privt") or t["access"] is not None), nested=[])

    def gen_inst_template(self, c, L, ind, vtypes):
        """A class template that IS instantiated through a global typedef (so its published members are scanned),
        with methods whose must-not gates depend on the template argument: `T &&` parameters, T being a type
        named by ignoreinvolved, plus the usual section gates.  Published plain members are unspecified
        ("picks up most template instantiations"), never must."""
        rng = self.rng
        cands = [t for t in vtypes if t["kind"] == "class" and t["access"] is None and not t.get("tmpl")
                 and not t.get("alias")]
        pref = [t for t in cands if t.get("involved")]
        arg = None
        if cands and rng.random() < 0.75:
            arg = rng.choice(pref) if pref and rng.random() < 0.5 else rng.choice(cands)
        argq = arg["q"] if arg else rng.choice(["int", "float"])
        inv = bool(arg and arg.get("involved"))
        argrefs = [arg["name"]] if arg else []
        self._ownvis = 0
        cname = self.nm(self.tag_for(c, 0, ()), "c")
        T = f"T{self.n}"
        self.add(cname, self.tag_for(c, 0, ()), "class", c, 0, False, (), argrefs, False, "inst-template",
                 region=bool(self.region_open), q=c.qual + cname, member_vis=[0], ownvis=0, tmpl_self=True, inst=True,
                 igt_target=False)
        inner = c.sub(top=(c.top or cname), owner=cname, qual=cname + "::", cctx="inst-template", depth=1)
        L.append(f"{ind}template<class {T}> class {cname} {{")
        st = St(3, False)
        used_traits = False
        for _ in range(rng.randint(3, 7)):
            if rng.random() < 0.35:
                self.label(st, L, ind)
                continue
            vis_o, amb = st.own()
            self._ownvis = vis_o
            form = rng.choice(["plain", "tref", "tref", "rv", "rv", "rv", "rvt"])
            excl = set()
            refs = []
            if form == "plain":
                params = ["int"]
                ret = "int"
            elif form == "tref":
                params = [rng.choice([f"const {T} &", f"{T} *", f"{T} &"])]
                ret = rng.choice(["void", f"{T} *"])
                refs = argrefs
                if inv:
                    excl.add("ign_involved")
            else:
                excl.add("rvref")
                refs = argrefs
                if inv:
                    excl.add("ign_involved")
                if form == "rvt":
                    used_traits = True
                    params = [f"typename vg_traits<{T}>::value_type &&"]
                else:
                    params = rng.choice([[f"{T} &&"], ["int", f"const {T} &&"], [f"{T} &&", f"{T} *"]])
                ret = "void"
            tag = self.tag_for(inner, vis_o, excl)
            name = self.nm(tag, "m")
            self._sig_alias = False
            self.add(name, tag, "method", inner, vis_o, amb, excl, refs, False, "inst-template")
            ps = self.fmt_params(tag, params, name, inner, vis_o, amb, excl, "inst-template", defaults=False, refs=refs)
            L.append(f"{ind}  {ret} {name}({ps});")
        L.append(f"{ind}}};")
        self._ownvis = 0
        tname = self.nm(self.tag_for(c, 0, ()), "t")
        self.add(tname, self.tag_for(c, 0, ()), "typedef", c, 0, False, (), [cname] + argrefs, False, "inst-template")
        L.append(f"{ind}typedef {cname}<{argq}> {tname};")
        self.features.add("instantiated-template")
        return used_traits

    def redefine_macro(self, c, L):
        """#define a macro again that an earlier part of this file or an (transitively) included file defined:
        identical or different replacement list, with or without #undef in between.  The place of this (now
        last) definition decides whether the macro is exported."""
        rng = self.rng
        fid = c.file["id"]
        cands = [m for m in self.vmacros if self.ents[m].get("redef_by", fid) == fid]
        if not cands:
            return False
        mvis = 0 if self.region_open else 1
        files = {f["id"]: f for f in self.files}
        new_exp = bool(c.file["local"] and mvis == 0)
        flip = [m for m in cands
                if bool(files[self.ents[m]["file"]]["local"] and self.ents[m]["ownvis"] == 0) != new_exp]
        name = rng.choice(flip) if flip and rng.random() < 0.75 else rng.choice(cands)
        rec = self.ents[name]
        how = rng.choice(["same", "same", "same", "diff", "undef-same", "undef-diff"])
        val = rec["val"] if how.endswith("same") else str(rng.randint(1000, 9999))
        if how.startswith("undef"):
            L.append(f"#undef {name}")
        L.append(f"#define {name} {val}")
        if "defs" not in rec:
            rec["defs"] = [dict(file=rec["file"], ownvis=rec["ownvis"], chunk=rec["chunk"], tag=rec["tag"], how="first")]
        tag = self.tag_for(Ctx(c.file), mvis, ())
        rec["defs"].append(dict(file=fid, ownvis=mvis, chunk=self.cur_chunk, tag=tag, how=how))
        rec.update(file=fid, ownvis=mvis, vis=mvis, chunk=self.cur_chunk, tag=tag, val=val, redef_by=fid,
                   ctx="redef-" + how)
        self.features.add("macro-redef-" + how)
        return True

    # ------------------------------------------------------------------ class bodies
    def label(self, st, L, ind, which=None):
        rng = self.rng
        which = which or rng.choice(["PUBLISHED", "PUBLISHED", "public", "public", "protected", "private"])
        L.append(f"{ind}{which}:")
        if which == "PUBLISHED":
            st.cxx, st.pub = 1, True
        elif which == "public":
            st.cxx, st.pub = 1, bool(self.region_open)
            if self.region_open:
                self.features.add("public-label-inside-region")
        elif which == "protected":
            st.cxx, st.pub = 2, False
        else:
            st.cxx, st.pub = 3, False
        return which

    def gen_class(self, c, st_outer, L, ind, vtypes, own_types_outer, depth, template=False, cexcl=(), forced=False,
                  involved=False, global_scope=True):
        """Emit one class definition into L.  c is the context of the *declaration* (outer)."""
        rng = self.rng
        key = rng.choice(["class", "class", "struct"])
        vis_o, amb_o = st_outer.own()
        vis = max(c.vis, vis_o) if not global_scope else c.vis
        excl = set(cexcl)
        if template:
            excl.add("tmpl")
        # a class at global/namespace scope is named as if published: its own visibility is not what decides
        forced = bool(forced or c.forced)
        tag = self.tag_for(c.sub(forced=forced), vis if not global_scope else 0, excl)
        kind = "class" if global_scope else "nclass"
        name = self.nm(tag, "c" if global_scope else "nc")
        # a template (and what is nested in it) can only be named through its injected class name
        q = name if template else c.qual + name
        bases = ""
        # (a class with a non-public base hides that base's name from its own derived classes: never derive from it)
        cands = [t for t in vtypes if t["kind"] == "class" and t["access"] is None and not t.get("tmpl")
                 and not t.get("nonpub_base") and not t.get("alias")]
        base_refs = []
        nonpub_base = False
        if cands and rng.random() < 0.25 and not template:
            b = rng.choice(cands)
            how = rng.choice(["public ", "public ", "protected ", "private ", "virtual public "])
            nonpub_base = how in ("protected ", "private ")
            bases = " : " + how + b["q"]
            base_refs.append(b["name"])
        rec = self.add(name, tag, kind, c.sub(forced=forced), vis, amb_o and not global_scope, excl, refs=base_refs,
                       ctx=(st_outer.ctx or c.cctx), region=bool(self.region_open), q=q, member_vis=[],
                       ownvis=(0 if global_scope else vis_o), tmpl_self=bool(template),
                       igt_target=("ign_type" in cexcl))
        if template:
            L.append(f"{ind}template<class T{self.n}> {key} {name}{bases} {{")
        else:
            L.append(f"{ind}{key} {name}{bases} {{")
        inner = c.sub(vis=vis, amb=(c.amb or (amb_o and not global_scope)), excl=tuple(sorted(set(c.excl) | excl)),
                      forced=(c.forced or forced), top=(c.top or name), owner=name, qual=q + "::", depth=depth + 1,
                      cctx=(st_outer.ctx or c.cctx or ("gregion" if self.region_open else "")), selfinv=involved)
        nested = self.gen_members(inner, key, name, q, L, ind + "  ", vtypes, depth, rec)
        L.append(f"{ind}}};")
        t = dict(name=name, q=q, kind="class", access=None, involved=involved, tmpl=template, nonpub_base=nonpub_base,
                 igt=("ign_type" in cexcl),
                 nested=[x for x in nested if x["access"] is None and not template])
        return t, rec

    def gen_members(self, c, key, cname, q, L, ind, vtypes, depth, crec):
        rng = self.rng
        st = St(3 if key == "class" else 1, False)
        if self.region_open and key != "class":
            self.label(st, L, ind[:-2])
        region_here = False
        labels_in_region = False
        before = None
        own_types = []      # nested types declared so far: access None (usable anywhere) or cname (only here)
        used_ops = set()
        info = dict(nctor=0, copy=False, move=False)
        n = max(2, int(rng.randint(4, 12) * self.p["size"] / (1 + depth)))
        queue = []
        if self.p["odd"] and not self.region_open and rng.random() < self.p["odd"] * 0.5:
            # a scripted odd interleaving: a region that contains an access label and is closed without
            # re-stating the access ("straddle"), possibly opened in a non-public section
            queue = ["member"] * rng.randint(0, 2) + ["label"] + ["member"] * rng.randint(0, 1) + ["begin!"] + \
                    ["member"] * rng.randint(0, 2) + ["label"] + ["member"] * rng.randint(0, 2) + ["end!"] + \
                    ["member"] * rng.randint(1, 3)
            n = max(n, len(queue))
        for _ in range(n):
            act = queue.pop(0) if queue else None
            r = rng.random()
            if act == "label" or (act is None and r < 0.20):
                self.label(st, L, ind[:-2])
                if region_here:
                    labels_in_region = True
                    st.ctx = "label-in-cregion"
                elif st.ctx in ("straddle",):
                    st.ctx = ""
                continue
            if act in ("begin!", "end!") or (act is None and r < (0.27 if not self.p["odd"] else 0.36)):
                if not self.region_open and act != "end!":
                    # open a class-level region
                    if st.cxx > 1 and act != "begin!" and rng.random() >= self.p["odd"]:
                        continue          # BEGIN_PUBLISH in a non-public section only as an "odd" interleaving
                    L.append(f"{ind[:-2]}{self.kw_begin}")
                    self.region_open = region_here = True
                    labels_in_region = False
                    before = (st.cxx, st.pub, st.ctx)
                    self.features.add("class-level-region")
                    if st.cxx > 1:
                        st.ctx = "region-in-nonpublic"
                        self.features.add("region-in-nonpublic")
                    else:
                        st.pub = True
                        st.ctx = "cregion"
                    continue
                if region_here and act != "begin!":
                    L.append(f"{ind[:-2]}{self.kw_end}")
                    self.region_open = region_here = False
                    if not labels_in_region:
                        # back to what was in force before the region
                        st.cxx, st.pub, st.ctx = before
                    elif act != "end!" and rng.random() >= self.p["odd"]:
                        # re-state the access after a region that contained labels
                        self.label(st, L, ind[:-2])
                        st.ctx = ""
                    else:
                        st.ctx = "straddle"
                        self.features.add("straddled-region")
                        if st.cxx == 1:
                            st.pub = None
                    continue
                continue
            self.gen_member(c, st, cname, q, L, ind, vtypes, own_types, depth, crec, used_ops, info)
        if region_here:
            L.append(f"{ind[:-2]}{self.kw_end}")
            self.region_open = False
        return own_types

    def gen_member(self, c, st, cname, q, L, ind, vtypes, own_types, depth, crec, used_ops, info):
        rng = self.rng
        vis_o, amb = st.own()
        vis = max(c.vis, vis_o)
        self._ownvis = vis_o
        ctx = st.ctx or c.cctx
        # member_vis feeds "does the class have any member of sufficient visibility"; in the odd interleavings
        # what the tool may legitimately consider visible is not settled, so be conservative there
        crec["member_vis"].append(0 if st.ctx in ("straddle", "region-in-nonpublic", "label-in-cregion") else vis_o)
        privs = [t for t in own_types if t["access"] is not None or t.get("privt")]
        kinds = ["method"] * 8 + ["smethod"] * 2 + ["ctor"] * 2 + ["oper"] * 2 + ["dmember"] * 4 + ["sdmember"] + \
                ["nenum"] * 2 + ["ntypedef", "tmplm", "deleted", "deleted_ctor", "rvref", "rvref_ctor", "friend",
                                 "macro", "inline"]
        if depth < 2:
            kinds += ["nclass"] * 3
        if privs:
            kinds += ["privtype"] * 9 + ["privdm"] * 2 + ["nalias"] * 3
        if own_types or any(t.get("involved") or t.get("igt") for t in vtypes):
            kinds += ["nalias"]
        if self.p["nfile"]:
            kinds += ["ignm"] * 2
        k = rng.choice(kinds)
        if "tmpl" in c.excl and k in ("tmplm", "nclass"):
            k = "method"
        sub = c
        if k in ("method", "smethod", "inline", "ignm", "deleted", "rvref", "privtype", "tmplm"):
            excl = set()
            ret, params, refs, ex2, simple = self.pick_sig(c, vtypes, own_types, want_priv=(k == "privtype"),
                                                           want_simple=(k in ("inline", "tmplm")))
            excl |= ex2
            if k == "ignm":
                excl.add("ign_member")
            if k == "deleted":
                excl.add("deleted")
            if k == "tmplm":
                excl.add("tmpl")
            if k == "rvref":
                excl.add("rvref")
                form = rng.choice([q + " &&", "int &&", "const " + q + " &&"])
                if c.selfinv and q in form:
                    excl.add("ign_involved")
                params.insert(rng.randint(0, len(params)), form)
                simple = False
            tag = self.tag_for(c, vis, excl)
            name = self.nm(tag, "sm" if k == "smethod" else "m")
            kind = "smethod" if k == "smethod" else "method"
            self.add(name, tag, kind, c, vis, amb, excl, refs, simple and not excl, ctx, via_alias=self._sig_alias)
            ps = self.fmt_params(tag, params, name, c, vis, amb, excl, ctx, defaults=(k != "tmplm"), refs=refs)
            pre = ""
            post = ""
            if k == "smethod":
                pre = "static "
            elif k in ("method", "ignm") and rng.random() < 0.2:
                pre = "virtual "
            if k not in ("smethod",) and rng.random() < 0.3:
                post = " const"
            if k == "tmplm":
                L.append(f"{ind}template<class U{self.n}> {ret} {name}({ps + ', ' if ps else ''}U{self.n} x{self.n});")
            elif k == "deleted":
                L.append(f"{ind}{ret} {name}({ps}){post} = delete;")
            elif k == "inline":
                body = "{ return 0; }" if ret != "void" else "{ }"
                L.append(f"{ind}inline {ret} {name}({ps}){post} {body}")
            else:
                L.append(f"{ind}{pre}{ret} {name}({ps}){post};")
            if k == "ignm":
                self.ncmd["ignoremember"].append(name)
            return
        if k in ("ctor", "deleted_ctor", "rvref_ctor"):
            excl = set()
            if k == "deleted_ctor":
                if info["copy"]:
                    return
                info["copy"] = True
                excl.add("deleted")
                if c.selfinv:
                    excl.add("ign_involved")
                params = ["const " + q + " &"]
            elif k == "rvref_ctor":
                if info["move"]:
                    return
                info["move"] = True
                excl.add("rvref")
                if c.selfinv:
                    excl.add("ign_involved")
                params = [q + " &&"]
            else:
                info["nctor"] += 1
                params = ["int"] * info["nctor"] + [rng.choice(["float", "double"])]
            tag = self.tag_for(c, vis, excl)
            name = f"{cname}#ctor{self.n}"
            ps = self.fmt_params(tag, params, name, c, vis, amb, excl, ctx, defaults=False)
            if "tmpl" in c.excl and k != "ctor":
                # inside a class template the injected class name needs no arguments; fine as is
                pass
            L.append(f"{ind}{'explicit ' if rng.random() < 0.3 and k == 'ctor' else ''}{cname}({ps})"
                     f"{' = delete' if k == 'deleted_ctor' else ''};")
            return
        if k == "oper":
            avail = [o for o in OPERS if o not in used_ops]
            if not avail:
                return
            op = rng.choice(avail)
            used_ops.add(op)
            oex = {"ign_involved"} if c.selfinv else set()
            tag = self.tag_for(c, vis, oex)
            name = f"{cname}#op{self.n}"
            ps = self.fmt_params(tag, ["const " + q + " &"], name, c, vis, amb, oex, ctx, defaults=False)
            ret = "bool" if op in ("==", "!=", "<", ">") else "int"
            L.append(f"{ind}{ret} operator {op} ({ps}) const;")
            return
        if k in ("dmember", "sdmember", "privdm"):
            excl = set()
            refs = []
            if k == "privdm":
                t = rng.choice(privs)
                ty = t["q"] + " *" if t["kind"] == "class" else t["q"]
                refs.append(t["name"])
                refs.extend(t.get("via", ()))
                excl.add("privtype")
            else:
                usable = [t for t in vtypes + own_types if t["access"] is None and not t.get("involved")
                          and not t.get("alias")]
                if usable and rng.random() < 0.25:
                    t = rng.choice(usable)
                    ty = t["q"] + " *" if t["kind"] == "class" else t["q"]
                    refs.append(t["name"])
                else:
                    ty = rng.choice(ATOMS)
            tag = self.tag_for(c, vis, excl)
            kind = "sdmember" if k == "sdmember" else "dmember"
            name = self.nm(tag, "sd" if k == "sdmember" else "d")
            self.add(name, tag, kind, c, vis, amb, excl, refs, False, ctx)
            L.append(f"{ind}{'static ' if k == 'sdmember' else ''}{ty} {name};")
            return
        if k == "nenum":
            tag = self.tag_for(c, vis, ())
            form = rng.choice(["enum", "enum", "enum class", "anon"])
            vals = []
            ename = None
            if form != "anon":
                ename = self.nm(tag, "ne")
                self.add(ename, tag, "nenum", c, vis, amb, (), (), False, ctx, scoped=(form == "enum class"))
            for _ in range(rng.randint(1, 3)):
                v = self.nm(tag, "ev")
                self.add(v, tag, "enumval", c, vis, amb, (), (), False, ctx, of=ename)
                vals.append(v + (f" = {rng.randint(0, 99)}" if rng.random() < 0.3 else ""))
            if form == "anon":
                L.append(f"{ind}enum {{ {', '.join(vals)} }};")
            else:
                L.append(f"{ind}{form} {ename} {{ {', '.join(vals)} }};")
                own_types.append(dict(name=ename, q=c.qual + ename, kind="enum",
                                      access=(None if st.cxx == 1 else cname)))
            return
        if k == "ntypedef":
            usable = [t for t in vtypes if t["access"] is None and t["kind"] == "class" and not t.get("tmpl")]
            tag = self.tag_for(c, vis, ())
            name = self.nm(tag, "t")
            if usable and rng.random() < 0.7:
                t = rng.choice(usable)
                self.add(name, tag, "typedef", c, vis, amb, (), [t["name"]], False, ctx)
                L.append(f"{ind}typedef {t['q']} {name};")
            else:
                self.add(name, tag, "typedef", c, vis, amb, (), (), False, ctx)
                L.append(f"{ind}typedef int {name};")
            return
        if k == "friend":
            name = self.nm("unspec", "fr")
            self.add(name, "unspec", "friend", c, vis, amb, (), (), False, ctx, judge=False)
            pn = self.nm("unspec", "a")
            self.add(pn, "unspec", "param", c, vis, amb, (), (), False, ctx, of=name, judge=False)
            L.append(f"{ind}friend int {name}(int {pn});")
            return
        if k == "macro":
            # macros have no access; only regions make them published
            mvis = 0 if self.region_open else 1
            f = c.file
            mc = Ctx(f)
            tag = self.tag_for(mc, mvis, ())
            name = self.nm(tag, "mac")
            val = str(rng.randint(1, 999))
            self.add(name, tag, "macro", mc, mvis, False, (), (), False, "macro-in-class", ownvis=mvis, val=val)
            self.vmacros.append(name)
            L.append(f"#define {name} {val}")
            return
        if k == "nalias":
            cands = [t for t in own_types if t["kind"] in ("class", "enum", "aliasv")]
            pref = [t for t in cands if t["access"] is not None or t.get("privt")]
            pref += [t for t in vtypes if t["access"] is None and (t.get("involved") or t.get("igt"))
                     and not t.get("tmpl")]
            if not cands and not pref:
                return
            t = rng.choice(pref) if pref and rng.random() < 0.8 else rng.choice(cands or pref)
            a = self.make_alias(c, L, ind, t, vis, amb, ctx, None if st.cxx == 1 else cname)
            if "tmpl" in c.excl:
                a["access"] = cname
            if a["access"] is None or a["privt"]:
                own_types.append(a)
            # (a non-public alias of an accessible type stays unused: whether a signature spelled through it
            #  "involves a private type" is not settled by the statement)
            return
        if k == "nclass":
            t, rec = self.gen_class(c, st, L, ind, vtypes + [x for x in own_types if x["access"] is None], own_types,
                                    depth + 1, global_scope=False)
            t["access"] = None if st.cxx == 1 else cname
            # nested types of templates cannot be named from outside without arguments
            if "tmpl" in c.excl:
                t["access"] = cname
            own_types.append(t)
            if t["access"] is None:
                own_types.extend(t["nested"])
            return

    # ------------------------------------------------------------------ namespace / global scope
    def gen_global_item(self, c, st, L, ind, vtypes, in_ns=False):
        """one declaration at global or namespace scope; returns list of new visible types"""
        rng = self.rng
        vis_o, amb = st.own()
        vis = vis_o
        self._ownvis = vis_o
        ctx = c.cctx or ("ns" if c.ns else "")
        kinds = ["func"] * 5 + ["var"] * 3 + ["enum"] * 3 + ["macro"] * 2 + ["class"] * 6 + ["typedef"] + \
                ["tmplc", "tmplf", "deleted", "rvref", "sfunc", "fwd", "inlinef"] + ["alias"] * 2 + ["redef"] * 2
        if not in_ns and not c.cctx:
            kinds += ["itmplc"] * 3
        if self.p["nfile"]:
            kinds += ["ign_type_class", "involved_class"]
            if any(t.get("involved") or t.get("igt") for t in vtypes):
                kinds += ["alias"] * 4
        k = rng.choice(kinds)
        new = []
        if k in ("func", "tmplf", "deleted", "rvref", "sfunc", "inlinef"):
            excl = set()
            ret, params, refs, ex2, simple = self.pick_sig(c, vtypes, [], want_simple=(k in ("tmplf", "inlinef")))
            excl |= ex2
            if k == "tmplf":
                excl.add("tmpl")
            if k == "deleted":
                excl.add("deleted")
            if k == "rvref":
                excl.add("rvref")
                params.insert(rng.randint(0, len(params)), "int &&")
            judge = k != "sfunc"
            tag = self.tag_for(c, vis, excl) if judge else "unspec"
            name = self.nm(tag, "f")
            self.add(name, tag, "func", c, vis, amb, excl, refs, simple and not excl and judge, ctx, judge=judge,
                     via_alias=self._sig_alias)
            ps = self.fmt_params(tag, params, name, c, vis, amb, excl, ctx, defaults=(k != "tmplf"), refs=refs)
            if not judge:
                for p_ in [e for e in self.ents.values() if e.get("of") == name]:
                    p_["judge"] = False
            if k == "tmplf":
                L.append(f"{ind}template<class U{self.n}> {ret} {name}({ps + ', ' if ps else ''}U{self.n} x{self.n});")
            elif k == "deleted":
                L.append(f"{ind}{ret} {name}({ps}) = delete;")
            elif k == "sfunc":
                L.append(f"{ind}static {ret} {name}({ps});")
            elif k == "inlinef":
                L.append(f"{ind}inline {ret} {name}({ps}) {'{ return 0; }' if ret != 'void' else '{ }'}")
            else:
                L.append(f"{ind}{ret} {name}({ps});")
        elif k == "var":
            tag = self.tag_for(c, vis, ())
            name = self.nm(tag, "v")
            self.add(name, tag, "var", c, vis, amb, (), (), False, ctx)
            L.append(f"{ind}extern {rng.choice(ATOMS)} {name};")
        elif k == "enum":
            tag = self.tag_for(c, vis, ())
            form = rng.choice(["enum", "enum", "enum class", "anon"])
            ename = None
            if form != "anon":
                ename = self.nm(tag, "e")
                self.add(ename, tag, "enum", c, vis, amb, (), (), False, ctx)
            vals = []
            for _ in range(rng.randint(1, 3)):
                v = self.nm(tag, "ev")
                self.add(v, tag, "enumval", c, vis, amb, (), (), False, ctx, of=ename)
                vals.append(v + (f" = {rng.randint(0, 99)}" if rng.random() < 0.3 else ""))
            if form == "anon":
                L.append(f"{ind}enum {{ {', '.join(vals)} }};")
            else:
                L.append(f"{ind}{form} {ename} {{ {', '.join(vals)} }};")
                new.append(dict(name=ename, q=c.qual + ename, kind="enum", access=None))
        elif k == "macro":
            mc = Ctx(c.file)
            mvis = 0 if self.region_open else 1
            tag = self.tag_for(mc, mvis, ())
            name = self.nm(tag, "mac")
            val = rng.choice([str(rng.randint(1, 999)), '"s%d"' % rng.randint(1, 99), "(1 + %d)" % rng.randint(1, 9)])
            self.add(name, tag, "macro", mc, mvis, False, (), (), False, "", ownvis=mvis, val=val)
            self.vmacros.append(name)
            L.append(f"#define {name} {val}")
            if rng.random() < 0.2:
                fn = self.nm("unspec", "mac")
                self.add(fn, "unspec", "macro", mc, mvis, False, (), (), False, "", judge=False, ownvis=mvis)
                L.append(f"#define {fn}(x) ((x) + 1)")
        elif k in ("class", "tmplc", "ign_type_class", "involved_class"):
            cexcl = set()
            forced = False
            if k == "ign_type_class":
                cexcl.add("ign_type")
            if k == "class" and self.p["nfile"] and not c.file["local"] and not in_ns and rng.random() < 0.35:
                forced = True
            t, rec = self.gen_class(c, st, L, ind, vtypes, [], 0, template=(k == "tmplc"), cexcl=cexcl, forced=forced,
                                    involved=(k == "involved_class"), global_scope=True)
            if k == "ign_type_class":
                self.ncmd["ignoretype"].append(t["q"])
            if k == "involved_class":
                self.ncmd["ignoreinvolved"].append(t["name"])
                rec["involved_target"] = True
            if forced:
                self.ncmd["forcetype"].append(t["q"])
            if k != "tmplc":
                new.append(t)
                new.extend(t["nested"])      # public nested types become visible as well
        elif k == "typedef":
            usable = [t for t in vtypes if t["access"] is None and t["kind"] == "class" and not t.get("tmpl")]
            tag = self.tag_for(c, vis, ())
            name = self.nm(tag, "t")
            if usable and rng.random() < 0.7:
                t = rng.choice(usable)
                self.add(name, tag, "typedef", c, vis, amb, (), [t["name"]], False, ctx)
                L.append(f"{ind}typedef {t['q']} {name};")
            else:
                self.add(name, tag, "typedef", c, vis, amb, (), (), False, ctx)
                L.append(f"{ind}typedef int {name};")
        elif k == "alias":
            cands = [t for t in vtypes if t["access"] is None and not t.get("tmpl")
                     and t["kind"] in ("class", "enum", "aliasv")]
            if cands:
                pref = [t for t in cands if t.get("involved") or t.get("igt") or t.get("privt")]
                t = rng.choice(pref) if pref and rng.random() < 0.75 else rng.choice(cands)
                new.append(self.make_alias(c, L, ind, t, vis, amb, ctx, None))
        elif k == "redef":
            self.redefine_macro(c, L)
        elif k == "itmplc":
            self.gen_inst_template(c, L, ind, vtypes)
        elif k == "fwd":
            name = self.nm("unspec", "fw")
            self.add(name, "unspec", "class", c, vis, amb, (), (), False, ctx, judge=False, member_vis=[], region=False)
            L.append(f"{ind}class {name};")
        return new

    def gen_scope(self, c, L, ind, vtypes, nitems, in_ns=False, fid=None, chunks=None):
        """global or namespace scope: a sequence of items, some of them wrapped in regions.
        At global scope (chunks is not None) every chunk is a self-contained text block."""
        rng = self.rng
        vt = list(vtypes)
        i = 0
        while i < nitems:
            i += 1
            L2 = []
            if chunks is not None:
                self.cur_chunk = (fid, len(chunks))
            r = rng.random()
            if r < 0.3 and not self.region_open:
                # a region with 1..4 items
                st = St(1, True)
                L2.append(f"{ind}{self.kw_begin}")
                self.region_open = True
                if self.vmacros and rng.random() < 0.35:
                    self.redefine_macro(c, L2)       # (re)publish a macro some earlier place defined
                for _ in range(rng.randint(1, 4)):
                    vt += self.gen_global_item(c, st, L2, ind, vt, in_ns)
                L2.append(f"{ind}{self.kw_end}")
                self.region_open = False
                self.features.add("global-region" if not in_ns else "namespace-region")
            elif r < 0.38 and not in_ns and not self.region_open:
                nsname = f"ns{self.n}_{rng.randint(0, 9)}"
                self.n += 1
                L2.append(f"{ind}namespace {nsname} {{")
                sub = c.sub(ns=nsname, qual=c.qual + nsname + "::", cctx="ns")
                inner_new = self.gen_scope(sub, L2, ind + "  ", vt, rng.randint(1, 4), in_ns=True)
                L2.append(f"{ind}}}")
                vt += inner_new
                self.features.add("namespace")
            else:
                st = St(1, bool(self.region_open))
                if self.vmacros and rng.random() < 0.08:
                    self.redefine_macro(c, L2)
                vt += self.gen_global_item(c, st, L2, ind, vt, in_ns)
            if chunks is not None:
                chunks.append("\n".join(L2))
            else:
                L.extend(L2)
        return [t for t in vt if t not in vtypes]

    # ------------------------------------------------------------------ files
    def plan_files(self):
        rng = self.rng
        files = []

        def mk(how, cmd=None, angle=False):
            i = len(files)
            base = {"cmd": "m", "cwd": "hc", "cwdsub": "hs", "sib": "hb", "I": "hi", "S": "hy"}[how]
            fname = f"{base}{i}.h"
            d = {"cwd": "w", "cwdsub": "w/sub", "sib": "src", "I": "inc1", "S": "sys1"}.get(how)
            f = dict(id=i, how=how, angle=angle, cmdarg=None, ignorefile=False, includes=[], path=None, ref=fname,
                     local=False)
            if how == "cmd":
                place = cmd
                if place == "cwd":
                    f["path"], f["cmdarg"] = "w/" + fname, fname
                elif place == "rel":
                    f["path"], f["cmdarg"] = "src/" + fname, "../src/" + fname
                else:
                    f["path"], f["cmdarg"] = "src/" + fname, "{ROOT}/src/" + fname
            else:
                f["path"] = d + "/" + fname
                if how == "cwdsub":
                    f["ref"] = "sub/" + fname
            files.append(f)
            return f

        if not self.p["tree"]:
            m = mk("cmd", rng.choice(["cwd", "cwd", "rel", "abs"]))
            m["local"] = True
            m["reachable"] = True
            self.files = files
            return
        main_place = rng.choice(["rel", "rel", "abs", "cwd"])
        hows = ["cwd", "I", "S", "cwdsub"] + (["sib"] if main_place != "cwd" else ["I"])
        rng.shuffle(hows)
        k = rng.randint(2, 5)
        chosen = hows[:k] if k <= len(hows) else hows + [rng.choice(hows)]
        for h in chosen:
            f = mk(h, angle=(h == "S" and rng.random() < 0.5))
            # leaf-to-root order: a file may include earlier files (but a sibling include is only meaningful
            # from a file living in src/, i.e. from the main file)
            prev = [g for g in files[:-1] if g["how"] != "sib"]
            if prev and rng.random() < 0.35:
                f["includes"].append(rng.choice(prev)["id"])
        # command-line files
        second = None
        if rng.random() < 0.35:
            cand = [f for f in files if f["how"] in ("I", "S")]
            if cand:
                second = rng.choice(cand)       # a file reached through -I/-S that is *also* named on the command line
                second["cmdarg"] = "../" + second["path"]
                self.features.add("searchpath-file-also-on-cmdline")
        m = mk("cmd", main_place)
        m["includes"] = [f["id"] for f in files[:-1] if rng.random() < 0.85 or f is second]
        for f in files:
            f["local"] = f["cmdarg"] is not None or f["how"] in ("cwd", "cwdsub")
        reach = set()
        todo = [f["id"] for f in files if f["cmdarg"] is not None]
        while todo:
            i = todo.pop()
            if i not in reach:
                reach.add(i)
                todo.extend(files[i]["includes"])
        for f in files:
            f["reachable"] = f["id"] in reach
        if self.p["nfile"]:
            cand = [f for f in files if f["how"] in ("cwd", "cwdsub") and f["cmdarg"] is None and f["reachable"]]
            if cand and rng.random() < 0.5:
                f = rng.choice(cand)
                f["ignorefile"] = True
                f["local"] = False
                self.ncmd["ignorefile"].append(f["ref"])
        self.files = files

    def generate(self):
        rng = self.rng
        self.plan_files()
        files = self.files
        exported_types = {}          # file id -> visible types it provides (transitively)
        exported_macros = {}         # file id -> object-like macros defined once it has been included
        for f in files:
            if not f.get("reachable", True):
                f["pre"], f["chunks"], f["post"] = "", [], ""
                exported_types[f["id"]] = []
                exported_macros[f["id"]] = []
                continue
            vt = []
            self.vmacros = []
            for j in f["includes"]:
                for t in exported_types[j]:
                    if t not in vt:
                        vt.append(t)
                for m in exported_macros[j]:
                    if m not in self.vmacros:
                        self.vmacros.append(m)
            guard = f"G_{f['id']}_H"
            pre = []
            if rng.random() < 0.5:
                pre.append("#pragma once")
                closeg = ""
            else:
                pre += [f"#ifndef {guard}", f"#define {guard}"]
                closeg = "#endif"
            pre.append('#include "vis.h"')
            for j in f["includes"]:
                g = files[j]
                pre.append(f"#include <{g['ref']}>" if g["angle"] else f"#include \"{g['ref']}\"")
            self.kw_begin, self.kw_end = "BEGIN_PUBLISH", "END_PUBLISH"
            c = Ctx(f)
            chunks = []
            if self.p["kwmacro"] and f["local"] and f["cmdarg"] is not None and not f["ignorefile"]:
                # the file defines its own spellings of the region keywords (as dtoolbase.h does)
                mc = Ctx(f)
                kb = self.nm("plainpublic", "mac")
                ke = self.nm("plainpublic", "mac")
                self.cur_chunk = None
                self.add(kb, "plainpublic", "macro", mc, 1, False, (), (), False, "kwmacro", kwmacro=True, ownvis=1)
                self.add(ke, "plainpublic", "macro", mc, 1, False, (), (), False, "kwmacro", kwmacro=True, ownvis=1)
                pre += ["#ifdef CPPPARSER", f"#define {kb} __begin_publish", f"#define {ke} __end_publish", "#else",
                        f"#define {kb}", f"#define {ke}", "#endif"]
                self.kw_begin, self.kw_end = kb, ke
                self.features.add("kwmacro")
            nitems = max(2, int(rng.randint(5, 11) * self.p["size"] * (1.0 if f["cmdarg"] else 0.6)))
            new = self.gen_scope(c, None, "", vt, nitems, fid=f["id"], chunks=chunks)
            exported_types[f["id"]] = vt + new
            exported_macros[f["id"]] = list(self.vmacros)
            f["pre"] = "\n".join(pre)
            f["chunks"] = chunks
            f["post"] = closeg
            self.cur_chunk = None
        nfiles = {}
        cmdfiles = [f for f in files if f["cmdarg"] is not None]
        if self.p["nfile"]:
            lines = []
            for cmd, vals in self.ncmd.items():
                if cmd in ("ignoremember", "ignorefile"):
                    vals = list(vals)
                    while vals:
                        kk = rng.randint(1, 3)
                        lines.append(cmd + " " + rng.choice([" ", "  ", "\t"]).join(vals[:kk]))
                        vals = vals[kk:]
                else:
                    for v in vals:
                        lines.append(f"{cmd} {v}")
            rng.shuffle(lines)
            per = {f["id"]: [] for f in cmdfiles}
            for ln in lines:
                per[rng.choice(cmdfiles)["id"]].append(ln)
            for f in cmdfiles:
                txt = ["# generated command file"]
                for ln in per[f["id"]]:
                    if rng.random() < 0.2:
                        txt.append("")
                    if rng.random() < 0.2:
                        ln = "  " + ln
                    if rng.random() < 0.2:
                        ln += "   # trailing comment"
                    txt.append(ln)
                nfiles[f["path"][:-2] + ".N"] = "\n".join(txt) + "\n"
            if lines:
                self.features.add("nfile")
        order = [f["id"] for f in cmdfiles]
        rng.shuffle(order)
        return dict(files=files, nfiles=nfiles, cmdline=order, ents=self.ents, ncmd=self.ncmd,
                    features=sorted(self.features))


def template_ctx(c):
    return "tmpl" in c.excl


def generate(seed, params=None):
    return VisGen(seed, params).generate()


def file_text(f, keep=None):
    """text of one file; keep = set of chunk indices to keep (None: all)"""
    chunks = [ch for i, ch in enumerate(f["chunks"]) if keep is None or i in keep]
    return f["pre"] + "\n" + "\n".join(chunks) + "\n" + f["post"] + "\n"
