"""modgen — multi-library modules realising an arbitrary directed dependency graph (C16, C13).

Library i consists of header lib{i}/lib{i}_root.h (class R{i}) plus one header per out-edge i->j:
lib{i}/lib{i}_d{j}.h with `class D{i}_{j} : public R{j}` (kind 'base') or a published `typedef R{j} T{i}_{j};`
(kind 'typedef').  Root headers have no dependencies, so cycles between *libraries* are realisable.
"""
import os

from . import libgen

PUB = libgen.PUB_H


def lib_name(i):
    return f"lib{i}"


def write_module(root, k, edges, extra_methods=2, cross_params=False, chains=False, enum_only=()):
    """edges: dict (i, j) -> 'base' | 'typedef'.  Returns per-library info."""
    libs = []
    sysd = os.path.join(root, "sys")
    os.makedirs(sysd, exist_ok=True)
    open(os.path.join(sysd, "vfpub.h"), "w").write(PUB)
    for i in range(k):
        n = lib_name(i)
        d = os.path.join(root, n)
        os.makedirs(d, exist_ok=True)
        headers = []
        cx = []
        rb = [f"class RB{i} : public R{i} {{", "PUBLISHED:", f"  RB{i}();", f"  enum Mode{i} {{ ma{i}, mb{i} = 3 }};",
              f"  class In{i} {{", "  PUBLISHED:", f"    In{i}();", "    int inner_val() const;", "  };",
              f"  int rb_id() const;", "};"] if cross_params else []
        ge = ["BEGIN_PUBLISH", f"enum Color{i} {{ red{i}, green{i} = 4 }};", "END_PUBLISH"] if cross_params else []
        # a keyed map property and a sequence property: every element accessor index must survive the merge remap
        mpl = [f"  bool has_ent{i}(int key) const;", f"  int get_ent{i}(int key) const;", f"  void set_ent{i}(int key, int v);",
               f"  void clear_ent{i}(int key);", f"  int get_num_ent{i}_keys() const;", f"  int get_ent{i}_key(int n) const;",
               f"  MAKE_MAP_PROPERTY(ents{i}, has_ent{i}, get_ent{i}, set_ent{i}, clear_ent{i});",
               f"  MAKE_MAP_KEYS_SEQ(ents{i}, get_num_ent{i}_keys, get_ent{i}_key);",
               f"  int get_num_it{i}() const;", f"  int get_it{i}(int n) const;", f"  void set_it{i}(int n, int v);",
               f"  void remove_it{i}(int n);", f"  void insert_it{i}(int n, int v);",
               f"  MAKE_SEQ_PROPERTY(its{i}, get_num_it{i}, get_it{i}, set_it{i}, remove_it{i}, insert_it{i});",
               f"  MAKE_SEQ(get_its{i}, get_num_it{i}, get_it{i});"] if cross_params else []
        if i in enum_only:
            # a library that contributes types but no functions at all
            h = [f"#ifndef {n.upper()}_ROOT_H", f"#define {n.upper()}_ROOT_H", '#include "vfpub.h"', "BEGIN_PUBLISH",
                 f"enum OnlyEnum{i} {{ oe_a{i}, oe_b{i} = 9 }};", f"enum class OnlyScoped{i} {{ x{i}, y{i} }};", "END_PUBLISH", "#endif"]
            open(os.path.join(d, f"{n}_root.h"), "w").write("\n".join(h) + "\n")
            open(os.path.join(d, f"{n}.cxx"), "w").write(f'#include "{n}_root.h"\n')
            libs.append(dict(name=n, dir=d, headers=[f"{n}_root.h"], classes=[], derived=[], enum_only=True))
            continue
        h = [f"#ifndef {n.upper()}_ROOT_H", f"#define {n.upper()}_ROOT_H", '#include "vfpub.h"'] + ge + [
             f"class R{i} {{", "PUBLISHED:", f"  R{i}();", f"  virtual ~R{i}();", f"  int base_id_{i}() const;",
             f"  virtual int vid() const;"] + mpl + ["};"] + rb + ["#endif"]
        open(os.path.join(d, f"{n}_root.h"), "w").write("\n".join(h) + "\n")
        headers.append(f"{n}_root.h")
        cx += [f'#include "{n}_root.h"', f"R{i}::R{i}() {{}}", f"R{i}::~R{i}() {{}}",
               f"int R{i}::base_id_{i}() const {{ return {100 + i}; }}", f"int R{i}::vid() const {{ return {100 + i}; }}"]
        if cross_params:
            cx += [f"bool R{i}::has_ent{i}(int key) const {{ return key == 1; }}", f"int R{i}::get_ent{i}(int key) const {{ return key; }}",
                   f"void R{i}::set_ent{i}(int, int) {{}}", f"void R{i}::clear_ent{i}(int) {{}}",
                   f"int R{i}::get_num_ent{i}_keys() const {{ return 1; }}", f"int R{i}::get_ent{i}_key(int) const {{ return 1; }}",
                   f"int R{i}::get_num_it{i}() const {{ return 2; }}", f"int R{i}::get_it{i}(int n) const {{ return n; }}",
                   f"void R{i}::set_it{i}(int, int) {{}}", f"void R{i}::remove_it{i}(int) {{}}", f"void R{i}::insert_it{i}(int, int) {{}}"]
            cx += [f"RB{i}::RB{i}() {{}}", f"RB{i}::In{i}::In{i}() {{}}", f"int RB{i}::In{i}::inner_val() const {{ return 7; }}",
                   f"int RB{i}::rb_id() const {{ return {200 + i}; }}"]
        classes = [f"R{i}"]
        derived = []
        for (a, j), kind in sorted(edges.items()):
            if a != i:
                continue
            hn = f"{n}_d{j}.h"
            g = f"{n.upper()}_D{j}_H"
            if kind == "base":
                if j in enum_only:
                    continue
                xp = [f"  int use_base(const R{j} &x, R{j} *p) const;", f"  int use_color(Color{j} c) const;",
                      f"  enum E{i}_{j} {{ ea{i}_{j}, eb{i}_{j} = 5 }};",
                      f"  int m{i}_{j};", f"  int use_rb(const RB{j} *q, RB{j}::In{j} *in, RB{j}::Mode{j} m) const;"] if cross_params else []
                h = [f"#ifndef {g}", f"#define {g}", '#include "vfpub.h"', f'#include "lib{j}_root.h"',
                     f"class D{i}_{j} : public R{j} {{", "PUBLISHED:", f"  D{i}_{j}();", f"  int own_id() const;",
                     f"  virtual int vid() const;"] + xp + ["};"] + \
                    (["BEGIN_PUBLISH", f"int free{i}_{j}(const R{j} *x, D{i}_{j} &d);",
                      f"#define MAC{i}_{j} {10 * i + j}", f"#define MACS{i}_{j} \"s{i}{j}\"", f"#define MACF{i}_{j} {i}.5",
                      "END_PUBLISH"] if cross_params else []) + ["#endif"]
                cx += [f'#include "{hn}"', f"D{i}_{j}::D{i}_{j}() {{}}",
                       f"int D{i}_{j}::own_id() const {{ return {1000 + 10 * i + j}; }}",
                       f"int D{i}_{j}::vid() const {{ return {1000 + 10 * i + j}; }}"]
                if cross_params:
                    cx += [f"int D{i}_{j}::use_color(Color{j} c) const {{ return (int)c; }}",
                           f"int D{i}_{j}::use_rb(const RB{j} *q, RB{j}::In{j} *in, RB{j}::Mode{j} m) const {{ return (q ? 1 : 0) + (in ? 2 : 0) + (int)m; }}",
                           f"int D{i}_{j}::use_base(const R{j} &x, R{j} *p) const {{ return x.vid() + (p ? 1 : 0); }}",
                           f"int free{i}_{j}(const R{j} *x, D{i}_{j} &d) {{ return d.vid() + (x ? 1 : 0); }}"]
                classes.append(f"D{i}_{j}")
                derived.append((f"D{i}_{j}", f"R{j}", j))
                # a third level: derive from a class of library j that is itself derived from library k's class
                if chains:
                    for (a2, k2), kind2 in sorted(edges.items()):
                        if a2 == j and kind2 == "base" and k2 != i and k2 not in enum_only and j not in enum_only:
                            hn2 = f"{n}_dd{j}_{k2}.h"
                            h2 = [f"#ifndef {n.upper()}_DD{j}_{k2}_H", f"#define {n.upper()}_DD{j}_{k2}_H", '#include "vfpub.h"',
                                  f'#include "lib{j}_d{k2}.h"', f"class DD{i}_{j}_{k2} : public D{j}_{k2} {{", "PUBLISHED:",
                                  f"  DD{i}_{j}_{k2}();", "  int deep_id() const;", "};", "#endif"]
                            open(os.path.join(d, hn2), "w").write("\n".join(h2) + "\n")
                            headers.append(hn2)
                            cx += [f'#include "{hn2}"', f"DD{i}_{j}_{k2}::DD{i}_{j}_{k2}() {{}}",
                                   f"int DD{i}_{j}_{k2}::deep_id() const {{ return {5000 + 100 * i + 10 * j + k2}; }}"]
                            classes.append(f"DD{i}_{j}_{k2}")
                            break
            else:
                h = [f"#ifndef {g}", f"#define {g}", '#include "vfpub.h"', f'#include "lib{j}_root.h"', "BEGIN_PUBLISH",
                     f"typedef R{j} T{i}_{j};", f"int use_t{i}_{j}(const T{i}_{j} &x);", "END_PUBLISH", "#endif"]
                cx += [f'#include "{hn}"', f"int use_t{i}_{j}(const T{i}_{j} &x) {{ return x.vid(); }}"]
            open(os.path.join(d, hn), "w").write("\n".join(h) + "\n")
            headers.append(hn)
        open(os.path.join(d, f"{n}.cxx"), "w").write("\n".join(cx) + "\n")
        libs.append(dict(name=n, dir=d, headers=headers, classes=classes, derived=derived))
    return libs
