"""Libraries whose wrapper signatures collide in interrogate's 24-bit signature hash.

hash_string is re-implemented here (30 lines) only to *search* for colliding names; the check calibrates it at
run time against the wrapper names interrogate actually emits (see c03.calibrated) and never uses it as an oracle.
"""
import json
import os

from . import libgen


def hash24(name, shift_offset):
    h = 0
    shift = 0
    for ch in name.encode():
        sc = (ch << shift) & 0xffffff
        if shift > 16:
            sc |= (ch >> (24 - shift)) & 0xff
        h = (h + sc) & 0xffffff
        shift = (shift + shift_offset) % 24
    product = h * 4999
    return (product ^ (product >> 24)) & 0xffffff


def hash_string(name, shift_offset):
    h = hash24(name, shift_offset)
    out = ""
    for i in range(4):
        v = h & 0x3f
        h >>= 6
        if v < 26:
            out += chr(ord("A") + v)
        elif v < 52:
            out += chr(ord("a") + v - 26)
        elif v < 62:
            out += chr(ord("0") + v - 52)
        else:
            out += "_"
    return out


def find_groups(rng, k, want=1, also_secondary=False, limit=400000):
    """names (function identifiers) whose signature 'name()' share the 4-character primary hash; k per group"""
    seen = {}
    groups = []
    prefix = "cf" + "".join(rng.choice("abcdefghijklmnopqrstuvwxyz") for _ in range(3))
    for i in range(limit):
        name = f"{prefix}_{i:x}"
        hs = hash_string(name + "()", 5)
        lst = seen.setdefault(hs, [])
        lst.append(name)
        if len(lst) == k:
            if also_secondary:
                continue
            groups.append(list(lst))
            seen[hs] = []
            if len(groups) >= want:
                return groups
    return groups


class SimpleLib:
    def __init__(self, name, header, source, model):
        self.name, self.header, self.source, self.model = name, header, source, model

    def write(self, d, rt_exports=True):
        os.makedirs(os.path.join(d, "sys"), exist_ok=True)
        open(os.path.join(d, self.name + ".h"), "w").write(self.header)
        open(os.path.join(d, self.name + ".cxx"), "w").write(self.source + ("\nVF_RT_EXPORTS\n" if rt_exports else ""))
        open(os.path.join(d, "sys", "vfpub.h"), "w").write(libgen.PUB_H)
        open(os.path.join(d, "sys", "libgen_rt.h"), "w").write(open(libgen.RT_HEADER).read())
        json.dump(self.model, open(os.path.join(d, self.name + ".model.json"), "w"), indent=1)
        return os.path.join(d, self.name + ".h")


def full_collision_group(rng, k):
    """k names whose signatures collide in BOTH the primary (shift 5) and the secondary (shift 11) hash: the per-character
    shift has period 24 in either hash, so swapping two characters 24 positions apart changes neither."""
    base = [rng.choice("abcdefghijklmnopqrstuvwxyz") for _ in range(28)]
    base[0], base[24] = "p", "q"
    base[1], base[25] = "r", "s"
    base[2], base[26] = "t", "u"
    names = []
    for mask in range(8):
        b = list(base)
        for bit, (i, j) in enumerate(((0, 24), (1, 25), (2, 26))):
            if mask >> bit & 1:
                b[i], b[j] = b[j], b[i]
        names.append("fc_" + "".join(b))
    # the prefix "fc_" shifts every position by 3 alike, which keeps the distance of 24
    rng.shuffle(names)
    return names[:k]


def generate(rng, libname, k):
    if k >= 4:
        groups = [full_collision_group(rng, k)]
    else:
        groups = find_groups(rng, k, want=rng.choice([1, 2]))
    names = [n for g in groups for n in g]
    extra = [f"plain_{rng.randrange(10 ** 6)}" for _ in range(3)]
    h = [f"#ifndef {libname.upper()}_H", f"#define {libname.upper()}_H", '#include "vfpub.h"', '#include "libgen_rt.h"',
         "BEGIN_PUBLISH"]
    cx = [f'#include "{libname}.h"']
    fns = []
    allnames = names + extra
    rng.shuffle(allnames)
    for i, n in enumerate(allnames):
        h.append(f"int {n}();")
        cx.append(f"int {n}() {{ vf::Ev e({i + 1}, nullptr); e.put(\"r\", {i + 1}); return {i + 1}; }}")
        fns.append(dict(eid=i + 1, name=n, qname=n, kind="free", params=[], ret=dict(k="int", c="int")))
    h += ["END_PUBLISH", "#endif"]
    model = dict(lib=libname, functions=fns, classes=[], enums=[], macros=[], collision_groups=groups)
    return SimpleLib(libname, "\n".join(h) + "\n", "\n".join(cx) + "\n", model)
