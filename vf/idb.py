"""Independent reader / writer / query model of interrogate's `.in` database text format (3.0 - 3.3).

Written from the *format* (what `InterrogateDatabase::write` and the records' `output` functions put on
disk), sharing no code with libinterrogatedb.  All strings are `bytes` (the format is byte-oriented).

    db = parse(data)                      -> Database        (raises FormatError on anything malformed/truncated)
    data = serialize(db, minor=3)         -> bytes           (byte-exact for what interrogate itself writes)
    db2 = loaded(db)                      -> Database as the library presents it after loading the file into an
                                             empty database (canonical re-indexing, documented defaults)
    q = Query(db2, ...)                   -> expected result of every `interrogate_*` query function

Format summary (one record per line group, fields separated by one blank; `S` = length-prefixed string
`<len><ws>[<bytes><ws>]`, `V<x>` = `<count> ` followed by `<x> ` per element):

    header    : <file_identifier>\n<major> <minor>\n S(library_name) S(library_hash_name) S(module_name) \n
    sections  : functions, wrappers, types, manifests, elements, make_seqs; each `<count>\n` then
                `<index> <record>\n` per record
    component : S(name) <num_alt_names> S(alt)...
    function  : component flags class S(scoped_name) V<int>(c_wrappers) V<int>(python_wrappers)
                S\n(comment) S\n(prototype)
    wrapper   : component flags function return_type return_value_destructor S(unique_name) S(comment)
                V<param>(parameters)        param = S(name) flags type ' '
    type      : component flags S(scoped_name) S(true_name) outer_class atomic_token wrapped_type
                [array_size if flags&F_array] V(constructors) destructor V(elements) V(methods) V(make_seqs)
                V(casts) V<deriv>(derivations) V<enumval>(enum_values) V(nested_types) S\n(comment)
                deriv = flags base upcast downcast ; enumval = S(name) S(scoped_name) S\n(comment) value
    manifest  : component flags int_value type getter S(definition)
    element   : component flags type getter setter [has_function clear_function (minor>=1)]
                [del_function length_function (minor>=2)] [insert_function getkey_function (minor>=3)]
                S(scoped_name) S\n(comment)
    make_seq  : component length_getter element_getter S(scoped_name) S\n(comment)
"""
import copy

CURRENT_MAJOR = 3
CURRENT_MINOR = 3

KINDS = ("functions", "wrappers", "types", "manifests", "elements", "make_seqs")
SINGULAR = {"functions": "function", "wrappers": "wrapper", "types": "type", "manifests": "manifest",
            "elements": "element", "make_seqs": "make_seq"}
# order in which a freshly loaded file is re-indexed by the library ("wrappers first, consecutive")
REMAP_ORDER = ("wrappers", "functions", "types", "manifests", "elements", "make_seqs")


class TF:   # type flags
    global_ = 0x000001; atomic = 0x000002; unsigned = 0x000004; signed = 0x000008; long = 0x000010
    longlong = 0x000020; short = 0x000040; wrapped = 0x000080; pointer = 0x000100; const = 0x000200
    struct = 0x000400; class_ = 0x000800; union = 0x001000; fully_defined = 0x002000
    true_destructor = 0x004000; private_destructor = 0x008000; inherited_destructor = 0x010000
    implicit_destructor = 0x020000; nested = 0x040000; enum = 0x080000; unpublished = 0x100000
    typedef = 0x200000; array = 0x400000; scoped_enum = 0x800000; final = 0x1000000; deprecated = 0x2000000
    ALL = 0x3ffffff


class FF:   # function flags
    global_ = 0x1; virtual = 0x2; method = 0x4; typecast = 0x8; getter = 0x10; setter = 0x20; unary_op = 0x40
    operator_typecast = 0x80; constructor = 0x100; destructor = 0x200; item_assignment = 0x400
    ALL = 0x7ff


class WF:   # wrapper flags
    caller_manages = 0x1; has_return = 0x2; callable_by_name = 0x4; copy_constructor = 0x8
    coerce_constructor = 0x10; extension = 0x20; deprecated = 0x40
    ALL = 0x7f


class PF:   # parameter flags
    has_name = 0x1; is_this = 0x2; is_optional = 0x4
    ALL = 0x7


class EF:   # element flags
    global_ = 0x1; has_getter = 0x2; has_setter = 0x4; has_has_function = 0x8; has_clear_function = 0x10
    has_del_function = 0x20; sequence = 0x40; mapping = 0x80; has_insert_function = 0x100
    has_getkey_function = 0x200
    ALL = 0x3ff


class MF:   # manifest flags
    has_type = 0x1; has_getter = 0x2; has_int_value = 0x4
    ALL = 0x7


class DF:   # derivation flags
    upcast = 0x1; downcast = 0x2; downcast_impossible = 0x4
    ALL = 0x7


class FormatError(Exception):
    pass


class Rec:
    """A record: plain attribute bag with a `kind`."""

    def __init__(self, kind, **kw):
        self.kind = kind
        self.__dict__.update(kw)

    def fields(self):
        return [k for k in self.__dict__ if k != "kind"]

    def __repr__(self):
        return "Rec(%s)" % ", ".join("%s=%r" % kv for kv in self.__dict__.items())

    def __eq__(self, o):
        return isinstance(o, Rec) and self.__dict__ == o.__dict__


# field order of every record kind (the names other checks use)
FIELDS = {
    "function": ["index", "name", "alt_names", "flags", "class_", "scoped_name", "c_wrappers", "python_wrappers",
                 "comment", "prototype"],
    "wrapper": ["index", "name", "alt_names", "flags", "function", "return_type", "return_value_destructor",
                "unique_name", "comment", "parameters"],
    "parameter": ["name", "flags", "type"],
    "type": ["index", "name", "alt_names", "flags", "scoped_name", "true_name", "outer_class", "atomic_token",
             "wrapped_type", "array_size", "constructors", "destructor", "elements", "methods", "make_seqs", "casts",
             "derivations", "enum_values", "nested_types", "comment"],
    "derivation": ["flags", "base", "upcast", "downcast"],
    "enum_value": ["name", "scoped_name", "comment", "value"],
    "manifest": ["index", "name", "alt_names", "flags", "int_value", "type", "getter", "definition"],
    "element": ["index", "name", "alt_names", "flags", "type", "getter", "setter", "has_function", "clear_function",
                "del_function", "length_function", "insert_function", "getkey_function", "scoped_name", "comment"],
    "make_seq": ["index", "name", "alt_names", "length_getter", "element_getter", "scoped_name", "comment"],
}
# which fields hold indices of which kind (None = any / unknown); used by remapping and by C11
REFS = {
    "function": {"class_": "types", "c_wrappers": "wrappers", "python_wrappers": "wrappers"},
    "wrapper": {"function": "functions", "return_type": "types", "return_value_destructor": "functions"},
    "parameter": {"type": "types"},
    "type": {"outer_class": "types", "wrapped_type": "types", "constructors": "functions", "destructor": "functions",
             "elements": "elements", "methods": "functions", "make_seqs": "make_seqs", "casts": "functions",
             "nested_types": "types"},
    "derivation": {"base": "types", "upcast": "functions", "downcast": "functions"},
    "manifest": {"type": "types", "getter": "functions"},
    "element": {"type": "types", "getter": "functions", "setter": "functions", "has_function": "functions",
                "clear_function": "functions", "del_function": "functions", "length_function": "functions",
                "insert_function": "functions", "getkey_function": "functions"},
    "make_seq": {"length_getter": "functions", "element_getter": "functions"},
}
SUBRECS = {"wrapper": {"parameters": "parameter"}, "type": {"derivations": "derivation", "enum_values": "enum_value"}}
# element fields that a given minor lacks
ELEMENT_MINOR_FIELDS = {1: ("has_function", "clear_function"), 2: ("del_function", "length_function"),
                        3: ("insert_function", "getkey_function")}


class Database:
    def __init__(self):
        self.file_identifier = 0
        self.major = CURRENT_MAJOR
        self.minor = CURRENT_MINOR
        self.library_name = b""
        self.library_hash_name = b""
        self.module_name = b""
        for k in KINDS:
            setattr(self, k, [])
        self.offsets = None      # set by parse(): byte offsets of record ends (for prefix sampling)

    def records(self, kind):
        return getattr(self, kind)

    def by_index(self, kind):
        return {r.index: r for r in getattr(self, kind)}

    def all_records(self):
        for k in KINDS:
            for r in getattr(self, k):
                yield k, r

    def next_index(self):
        m = 0
        for _, r in self.all_records():
            m = max(m, r.index)
        return m + 1

    def copy(self):
        return copy.deepcopy(self)

    def __eq__(self, o):
        if not isinstance(o, Database):
            return False
        a = {k: v for k, v in self.__dict__.items() if k != "offsets"}
        b = {k: v for k, v in o.__dict__.items() if k != "offsets"}
        return a == b

    # -- JSON (strings latin-1) so a database can live inside a self-contained case dict
    def to_json(self):
        def enc(v):
            if isinstance(v, bytes):
                return {"b": v.decode("latin-1")}
            if isinstance(v, Rec):
                return {"k": v.kind, "f": {f: enc(getattr(v, f)) for f in v.fields()}}
            if isinstance(v, list):
                return [enc(x) for x in v]
            return v
        d = {k: enc(getattr(self, k)) for k in ("file_identifier", "major", "minor", "library_name",
                                                "library_hash_name", "module_name")}
        for k in KINDS:
            d[k] = enc(getattr(self, k))
        return d

    @staticmethod
    def from_json(d):
        def dec(v):
            if isinstance(v, dict) and "b" in v and len(v) == 1:
                return v["b"].encode("latin-1")
            if isinstance(v, dict) and "k" in v:
                return Rec(v["k"], **{f: dec(x) for f, x in v["f"].items()})
            if isinstance(v, list):
                return [dec(x) for x in v]
            return v
        db = Database()
        for k, v in d.items():
            setattr(db, k, dec(v))
        return db


# ---------------------------------------------------------------------------------------------------
# reading
# ---------------------------------------------------------------------------------------------------

_WS = b" \t\n\r\v\f"


class _Cursor:
    def __init__(self, data):
        self.d = data
        self.p = 0

    def int(self):
        d, p, n = self.d, self.p, len(self.d)
        while p < n and d[p] in _WS:
            p += 1
        s = p
        if p < n and d[p] in b"+-":
            p += 1
        ds = p
        while p < n and 48 <= d[p] <= 57:
            p += 1
        if p == ds:
            raise FormatError("integer expected at offset %d" % s)
        self.p = p
        v = int(d[s:p])
        if not -2 ** 31 <= v < 2 ** 31:
            raise FormatError("integer out of range at offset %d" % s)
        return v

    def string(self):
        n = self.int()
        if n < 0:
            raise FormatError("negative string length at offset %d" % self.p)
        if self.p >= len(self.d):
            raise FormatError("truncated before string body")
        self.p += 1             # exactly one separator byte
        if self.p + n > len(self.d):
            raise FormatError("truncated string at offset %d" % self.p)
        s = self.d[self.p:self.p + n]
        self.p += n
        return s

    def vec(self, item):
        n = self.int()
        if n < 0:
            raise FormatError("negative vector length")
        return [item() for _ in range(n)]

    def ints(self):
        return self.vec(self.int)


def _component(c):
    name = c.string()
    n = c.int()
    if n < 0:
        raise FormatError("negative alt-name count")
    return name, [c.string() for _ in range(n)]


def _r_function(c, minor):
    idx = c.int()
    name, alt = _component(c)
    return Rec("function", index=idx, name=name, alt_names=alt, flags=c.int(), class_=c.int(), scoped_name=c.string(),
               c_wrappers=c.ints(), python_wrappers=c.ints(), comment=c.string(), prototype=c.string())


def _r_param(c):
    return Rec("parameter", name=c.string(), flags=c.int(), type=c.int())


def _r_wrapper(c, minor):
    idx = c.int()
    name, alt = _component(c)
    return Rec("wrapper", index=idx, name=name, alt_names=alt, flags=c.int(), function=c.int(), return_type=c.int(),
               return_value_destructor=c.int(), unique_name=c.string(), comment=c.string(),
               parameters=c.vec(lambda: _r_param(c)))


def _r_deriv(c):
    return Rec("derivation", flags=c.int(), base=c.int(), upcast=c.int(), downcast=c.int())


def _r_enumval(c):
    return Rec("enum_value", name=c.string(), scoped_name=c.string(), comment=c.string(), value=c.int())


def _r_type(c, minor):
    idx = c.int()
    name, alt = _component(c)
    flags = c.int()
    r = Rec("type", index=idx, name=name, alt_names=alt, flags=flags, scoped_name=c.string(), true_name=c.string(),
            outer_class=c.int(), atomic_token=c.int(), wrapped_type=c.int(), array_size=None)
    if flags & TF.array:
        r.array_size = c.int()
    r.constructors = c.ints()
    r.destructor = c.int()
    r.elements = c.ints()
    r.methods = c.ints()
    r.make_seqs = c.ints()
    r.casts = c.ints()
    r.derivations = c.vec(lambda: _r_deriv(c))
    r.enum_values = c.vec(lambda: _r_enumval(c))
    r.nested_types = c.ints()
    r.comment = c.string()
    return r


def _r_manifest(c, minor):
    idx = c.int()
    name, alt = _component(c)
    return Rec("manifest", index=idx, name=name, alt_names=alt, flags=c.int(), int_value=c.int(), type=c.int(),
               getter=c.int(), definition=c.string())


def _r_element(c, minor):
    idx = c.int()
    name, alt = _component(c)
    r = Rec("element", index=idx, name=name, alt_names=alt, flags=c.int(), type=c.int(), getter=c.int(),
            setter=c.int(), has_function=0, clear_function=0, del_function=0, length_function=0,
            insert_function=0, getkey_function=0)
    for m in (1, 2, 3):
        if minor >= m:
            for f in ELEMENT_MINOR_FIELDS[m]:
                setattr(r, f, c.int())
    r.scoped_name = c.string()
    r.comment = c.string()
    return r


def _r_make_seq(c, minor):
    idx = c.int()
    name, alt = _component(c)
    return Rec("make_seq", index=idx, name=name, alt_names=alt, length_getter=c.int(), element_getter=c.int(),
               scoped_name=c.string(), comment=c.string())


_READERS = {"functions": _r_function, "wrappers": _r_wrapper, "types": _r_type, "manifests": _r_manifest,
            "elements": _r_element, "make_seqs": _r_make_seq}


def parse(data):
    """bytes -> Database.  Fields a minor < 3 lacks are given their documented default 0."""
    if not isinstance(data, (bytes, bytearray)):
        raise TypeError("parse() wants bytes")
    data = bytes(data)
    c = _Cursor(data)
    db = Database()
    try:
        db.file_identifier = c.int()
        db.major = c.int()
        db.minor = c.int()
        if db.major != CURRENT_MAJOR or not 0 <= db.minor <= CURRENT_MINOR:
            raise FormatError("unsupported version %d.%d" % (db.major, db.minor))
        db.library_name = c.string()
        db.library_hash_name = c.string()
        db.module_name = c.string()
        offsets = [c.p]
        for kind in KINDS:
            n = c.int()
            if n < 0:
                raise FormatError("negative record count")
            offsets.append(c.p)
            lst = []
            for _ in range(n):
                lst.append(_READERS[kind](c, db.minor))
                offsets.append(c.p)
            setattr(db, kind, lst)
    except IndexError:
        raise FormatError("truncated")
    if data[c.p:].strip(_WS) != b"":
        raise FormatError("trailing garbage at offset %d" % c.p)
    db.offsets = offsets
    return db


# ---------------------------------------------------------------------------------------------------
# writing
# ---------------------------------------------------------------------------------------------------

def _i(v):
    return b"%d" % v


def _s(s, ws=b" "):
    if s:
        return b"%d" % len(s) + ws + s + ws
    return b"0" + ws


def _v(items, f=_i):
    return b"%d " % len(items) + b"".join(f(x) + b" " for x in items)


def _w_component(r):
    return _s(r.name) + b"%d " % len(r.alt_names) + b"".join(_s(a) for a in r.alt_names)


def _w_function(r, minor):
    return (_w_component(r) + b"%d %d " % (r.flags, r.class_) + _s(r.scoped_name) + _v(r.c_wrappers) +
            _v(r.python_wrappers) + _s(r.comment, b"\n") + _s(r.prototype, b"\n"))


def _w_param(p):
    return _s(p.name) + b"%d %d " % (p.flags, p.type)


def _w_wrapper(r, minor):
    return (_w_component(r) + b"%d %d %d %d " % (r.flags, r.function, r.return_type, r.return_value_destructor) +
            _s(r.unique_name) + _s(r.comment) + _v(r.parameters, _w_param))


def _w_deriv(d):
    return b"%d %d %d %d" % (d.flags, d.base, d.upcast, d.downcast)


def _w_enumval(e):
    return _s(e.name) + _s(e.scoped_name) + _s(e.comment, b"\n") + _i(e.value)


def _w_type(r, minor):
    out = (_w_component(r) + b"%d " % r.flags + _s(r.scoped_name) + _s(r.true_name) +
           b"%d %d %d " % (r.outer_class, r.atomic_token, r.wrapped_type))
    if r.flags & TF.array:
        out += b"%d " % (1 if r.array_size is None else r.array_size)
    out += (_v(r.constructors) + b"%d " % r.destructor + _v(r.elements) + _v(r.methods) + _v(r.make_seqs) +
            _v(r.casts) + _v(r.derivations, _w_deriv) + _v(r.enum_values, _w_enumval) + _v(r.nested_types) +
            _s(r.comment, b"\n"))
    return out


def _w_manifest(r, minor):
    return _w_component(r) + b"%d %d %d %d " % (r.flags, r.int_value, r.type, r.getter) + _s(r.definition)


def _w_element(r, minor):
    out = _w_component(r) + b"%d %d %d %d " % (r.flags, r.type, r.getter, r.setter)
    for m in (1, 2, 3):
        if minor >= m:
            for f in ELEMENT_MINOR_FIELDS[m]:
                out += b"%d " % getattr(r, f)
    return out + _s(r.scoped_name) + _s(r.comment, b"\n")


def _w_make_seq(r, minor):
    return (_w_component(r) + b"%d %d " % (r.length_getter, r.element_getter) + _s(r.scoped_name) +
            _s(r.comment, b"\n"))


_WRITERS = {"functions": _w_function, "wrappers": _w_wrapper, "types": _w_type, "manifests": _w_manifest,
            "elements": _w_element, "make_seqs": _w_make_seq}


def serialize(db, minor=CURRENT_MINOR, major=None, sort=True):
    """Database -> bytes in format <major>.<minor>.  Records are written in ascending index order (what the
    library's index-keyed maps do) unless sort=False."""
    major = db.major if major is None else major
    out = [b"%d\n%d %d\n" % (db.file_identifier, major, minor),
           _s(db.library_name), _s(db.library_hash_name), _s(db.module_name), b"\n"]
    for kind in KINDS:
        recs = getattr(db, kind)
        if sort:
            recs = sorted(recs, key=lambda r: r.index)
        out.append(b"%d\n" % len(recs))
        w = _WRITERS[kind]
        for r in recs:
            out.append(b"%d " % r.index + w(r, minor) + b"\n")
    return b"".join(out)


def with_minor_defaults(db, minor):
    """The database a reader must see after `db` was written in format 3.<minor>: fields that minor lacks are 0."""
    d = db.copy()
    d.minor = minor
    for e in d.elements:
        for m in (1, 2, 3):
            if minor < m:
                for f in ELEMENT_MINOR_FIELDS[m]:
                    setattr(e, f, 0)
    return d


# ---------------------------------------------------------------------------------------------------
# what a load into an empty database presents
# ---------------------------------------------------------------------------------------------------

def canonical_map(db, first_index=1):
    """old index -> new index: wrappers first, then functions, types, manifests, elements, make_seqs, each in
    ascending old-index order, consecutive from first_index (documented behaviour of loading)."""
    m = {}
    n = first_index
    for kind in REMAP_ORDER:
        for r in sorted(getattr(db, kind), key=lambda r: r.index):
            m[r.index] = n
            n += 1
    return m


def is_canonical(db, first_index=1):
    return all(k == v for k, v in canonical_map(db, first_index).items())


def _remap_rec(r, m):
    for f, _ in REFS.get(r.kind, {}).items():
        v = getattr(r, f)
        if isinstance(v, list):
            setattr(r, f, [m.get(x, x) for x in v])
        else:
            setattr(r, f, m.get(v, v))
    for f, _ in SUBRECS.get(r.kind, {}).items():
        for s in getattr(r, f):
            _remap_rec(s, m)


def loaded(db, first_index=1):
    """The database as it is presented after loading this one file into an empty database:
    indices renumbered canonically (references to indices the file does not define are kept),
    constructor/destructor flags forced on the functions a type lists as such, version current."""
    d = db.copy()
    m = canonical_map(d, first_index)
    for kind in KINDS:
        for r in getattr(d, kind):
            r.index = m[r.index]
            _remap_rec(r, m)
        getattr(d, kind).sort(key=lambda r: r.index)
    fi = d.by_index("functions")
    for t in d.types:
        if t.destructor in fi:
            fi[t.destructor].flags |= FF.destructor
        for c in t.constructors:
            if c in fi:
                fi[c].flags |= FF.constructor
    d.major, d.minor = CURRENT_MAJOR, CURRENT_MINOR
    return d


def is_closed(db):
    """True when every constructor/destructor a type lists is a function of this file (the loader
    dereferences those while reading) and indices are unique across kinds and positive."""
    seen = set()
    for _, r in db.all_records():
        if r.index <= 0 or r.index in seen:
            return False
        seen.add(r.index)
    fi = db.by_index("functions")
    for t in db.types:
        if t.destructor != 0 and t.destructor not in fi:
            return False
        if any(c not in fi for c in t.constructors):
            return False
    return True


# ---------------------------------------------------------------------------------------------------
# expected results of the C query interface
# ---------------------------------------------------------------------------------------------------

def _cstr(b):
    """what a C caller sees of a std::string / char*: bytes up to the first NUL."""
    if b is None:
        return None
    i = b.find(b"\0")
    return b if i < 0 else b[:i]


def _at(lst, n):
    return lst[n] if 0 <= n < len(lst) else None


def _fl(bit):
    return lambda q, r: bool(r.flags & bit)


def _fld(name):
    return lambda q, r: getattr(r, name)


def _sfld(name):
    return lambda q, r: _cstr(getattr(r, name))


def _cnt(name):
    return lambda q, r: len(getattr(r, name))


def _nth(name):
    return lambda q, r, n: (_at(getattr(r, name), n) or 0)


def _sub(name, f, neutral):
    def g(q, r, n):
        s = _at(getattr(r, name), n)
        return neutral if s is None else f(s)
    return g


# function name -> (record kind (plural) | None, arity of int arguments, evaluator)
# evaluators of per-record functions take (query, record[, n]); the record exists.
PER_RECORD = {
    # manifests
    "interrogate_manifest_name": ("manifests", _sfld("name")),
    "interrogate_manifest_definition": ("manifests", _sfld("definition")),
    "interrogate_manifest_has_type": ("manifests", _fl(MF.has_type)),
    "interrogate_manifest_get_type": ("manifests", _fld("type")),
    "interrogate_manifest_has_getter": ("manifests", _fl(MF.has_getter)),
    "interrogate_manifest_getter": ("manifests", _fld("getter")),
    "interrogate_manifest_has_int_value": ("manifests", _fl(MF.has_int_value)),
    "interrogate_manifest_get_int_value": ("manifests", _fld("int_value")),
    # elements
    "interrogate_element_name": ("elements", _sfld("name")),
    "interrogate_element_scoped_name": ("elements", _sfld("scoped_name")),
    "interrogate_element_has_comment": ("elements", lambda q, r: len(r.comment) > 0),
    "interrogate_element_comment": ("elements", _sfld("comment")),
    "interrogate_element_type": ("elements", _fld("type")),
    "interrogate_element_has_getter": ("elements", _fl(EF.has_getter)),
    "interrogate_element_getter": ("elements", _fld("getter")),
    "interrogate_element_has_setter": ("elements", _fl(EF.has_setter)),
    "interrogate_element_setter": ("elements", _fld("setter")),
    "interrogate_element_has_has_function": ("elements", _fl(EF.has_has_function)),
    "interrogate_element_has_function": ("elements", _fld("has_function")),
    "interrogate_element_has_clear_function": ("elements", _fl(EF.has_clear_function)),
    "interrogate_element_clear_function": ("elements", _fld("clear_function")),
    "interrogate_element_has_del_function": ("elements", _fl(EF.has_del_function)),
    "interrogate_element_del_function": ("elements", _fld("del_function")),
    "interrogate_element_has_insert_function": ("elements", _fl(EF.has_insert_function)),
    "interrogate_element_insert_function": ("elements", _fld("insert_function")),
    "interrogate_element_has_getkey_function": ("elements", _fl(EF.has_getkey_function)),
    "interrogate_element_getkey_function": ("elements", _fld("getkey_function")),
    "interrogate_element_length_function": ("elements", _fld("length_function")),
    "interrogate_element_is_sequence": ("elements", _fl(EF.sequence)),
    "interrogate_element_is_mapping": ("elements", _fl(EF.mapping)),
    # functions
    "interrogate_function_name": ("functions", _sfld("name")),
    "interrogate_function_scoped_name": ("functions", _sfld("scoped_name")),
    "interrogate_function_has_comment": ("functions", lambda q, r: len(r.comment) > 0),
    "interrogate_function_comment": ("functions", _sfld("comment")),
    "interrogate_function_prototype": ("functions", _sfld("prototype")),
    "interrogate_function_is_method": ("functions", _fl(FF.method)),
    "interrogate_function_class": ("functions", _fld("class_")),
    "interrogate_function_is_unary_op": ("functions", _fl(FF.unary_op)),
    "interrogate_function_is_operator_typecast": ("functions", _fl(FF.operator_typecast)),
    "interrogate_function_is_constructor": ("functions", _fl(FF.constructor)),
    "interrogate_function_is_destructor": ("functions", _fl(FF.destructor)),
    "interrogate_function_has_module_name": ("functions", lambda q, r: bool(q.module_name(r))),
    "interrogate_function_module_name": ("functions", lambda q, r: q.module_name(r)),
    "interrogate_function_has_library_name": ("functions", lambda q, r: bool(q.library_name(r))),
    "interrogate_function_library_name": ("functions", lambda q, r: q.library_name(r)),
    "interrogate_function_is_virtual": ("functions", _fl(FF.virtual)),
    "interrogate_function_number_of_c_wrappers": ("functions", _cnt("c_wrappers")),
    "interrogate_function_c_wrapper": ("functions", _nth("c_wrappers")),
    "interrogate_function_number_of_python_wrappers": ("functions", _cnt("python_wrappers")),
    "interrogate_function_python_wrapper": ("functions", _nth("python_wrappers")),
    # wrappers
    "interrogate_wrapper_name": ("wrappers", _sfld("name")),
    "interrogate_wrapper_function": ("wrappers", _fld("function")),
    "interrogate_wrapper_is_callable_by_name": ("wrappers", _fl(WF.callable_by_name)),
    "interrogate_wrapper_is_copy_constructor": ("wrappers", _fl(WF.copy_constructor)),
    "interrogate_wrapper_is_coerce_constructor": ("wrappers", _fl(WF.coerce_constructor)),
    "interrogate_wrapper_is_extension": ("wrappers", _fl(WF.extension)),
    "interrogate_wrapper_is_deprecated": ("wrappers", _fl(WF.deprecated)),
    "interrogate_wrapper_has_comment": ("wrappers", lambda q, r: len(r.comment) > 0),
    "interrogate_wrapper_comment": ("wrappers", _sfld("comment")),
    "interrogate_wrapper_has_return_value": ("wrappers", _fl(WF.has_return)),
    "interrogate_wrapper_return_type": ("wrappers", _fld("return_type")),
    "interrogate_wrapper_caller_manages_return_value": ("wrappers", _fl(WF.caller_manages)),
    "interrogate_wrapper_return_value_destructor": ("wrappers", _fld("return_value_destructor")),
    "interrogate_wrapper_number_of_parameters": ("wrappers", _cnt("parameters")),
    "interrogate_wrapper_parameter_type": ("wrappers", _sub("parameters", lambda p: p.type, 0)),
    "interrogate_wrapper_parameter_has_name": ("wrappers", _sub("parameters", lambda p: bool(p.flags & PF.has_name),
                                                                False)),
    "interrogate_wrapper_parameter_name": ("wrappers", _sub("parameters", lambda p: _cstr(p.name), b"")),
    "interrogate_wrapper_parameter_is_this": ("wrappers", _sub("parameters", lambda p: bool(p.flags & PF.is_this),
                                                               False)),
    "interrogate_wrapper_parameter_is_optional": ("wrappers", _sub("parameters",
                                                                   lambda p: bool(p.flags & PF.is_optional), False)),
    "interrogate_wrapper_unique_name": ("wrappers", _sfld("unique_name")),
    # make_seqs
    "interrogate_make_seq_seq_name": ("make_seqs", _sfld("name")),
    "interrogate_make_seq_scoped_name": ("make_seqs", _sfld("scoped_name")),
    "interrogate_make_seq_has_comment": ("make_seqs", lambda q, r: len(r.comment) > 0),
    "interrogate_make_seq_comment": ("make_seqs", _sfld("comment")),
    "interrogate_make_seq_num_name": ("make_seqs", lambda q, r: q.function_name(r.length_getter)),
    "interrogate_make_seq_element_name": ("make_seqs", lambda q, r: q.function_name(r.element_getter)),
    "interrogate_make_seq_num_getter": ("make_seqs", _fld("length_getter")),
    "interrogate_make_seq_element_getter": ("make_seqs", _fld("element_getter")),
    # types
    "interrogate_type_is_global": ("types", _fl(TF.global_)),
    "interrogate_type_is_deprecated": ("types", _fl(TF.deprecated)),
    "interrogate_type_name": ("types", _sfld("name")),
    "interrogate_type_scoped_name": ("types", _sfld("scoped_name")),
    "interrogate_type_true_name": ("types", _sfld("true_name")),
    "interrogate_type_is_nested": ("types", _fl(TF.nested)),
    "interrogate_type_outer_class": ("types", _fld("outer_class")),
    "interrogate_type_has_comment": ("types", lambda q, r: len(r.comment) > 0),
    "interrogate_type_comment": ("types", _sfld("comment")),
    "interrogate_type_has_module_name": ("types", lambda q, r: bool(q.module_name(r))),
    "interrogate_type_module_name": ("types", lambda q, r: q.module_name(r)),
    "interrogate_type_has_library_name": ("types", lambda q, r: bool(q.library_name(r))),
    "interrogate_type_library_name": ("types", lambda q, r: q.library_name(r)),
    "interrogate_type_is_atomic": ("types", _fl(TF.atomic)),
    "interrogate_type_atomic_token": ("types", _fld("atomic_token")),
    "interrogate_type_is_unsigned": ("types", _fl(TF.unsigned)),
    "interrogate_type_is_signed": ("types", _fl(TF.signed)),
    "interrogate_type_is_long": ("types", _fl(TF.long)),
    "interrogate_type_is_longlong": ("types", _fl(TF.longlong)),
    "interrogate_type_is_short": ("types", _fl(TF.short)),
    "interrogate_type_is_wrapped": ("types", _fl(TF.wrapped)),
    "interrogate_type_is_pointer": ("types", _fl(TF.pointer)),
    "interrogate_type_is_const": ("types", _fl(TF.const)),
    "interrogate_type_is_typedef": ("types", _fl(TF.typedef)),
    "interrogate_type_wrapped_type": ("types", _fld("wrapped_type")),
    "interrogate_type_is_array": ("types", _fl(TF.array)),
    # the file stores an array size only for array types; for others the value is not in the file
    "interrogate_type_array_size": ("types", lambda q, r: r.array_size if r.flags & TF.array else UNSPECIFIED),
    "interrogate_type_is_enum": ("types", _fl(TF.enum)),
    "interrogate_type_is_scoped_enum": ("types", _fl(TF.scoped_enum)),
    "interrogate_type_number_of_enum_values": ("types", _cnt("enum_values")),
    "interrogate_type_enum_value_name": ("types", _sub("enum_values", lambda e: _cstr(e.name), b"")),
    "interrogate_type_enum_value_scoped_name": ("types", _sub("enum_values", lambda e: _cstr(e.scoped_name), b"")),
    "interrogate_type_enum_value_comment": ("types", _sub("enum_values", lambda e: _cstr(e.comment), b"")),
    "interrogate_type_enum_value": ("types", _sub("enum_values", lambda e: e.value, 0)),
    "interrogate_type_is_struct": ("types", _fl(TF.struct)),
    "interrogate_type_is_class": ("types", _fl(TF.class_)),
    "interrogate_type_is_union": ("types", _fl(TF.union)),
    "interrogate_type_is_fully_defined": ("types", _fl(TF.fully_defined)),
    "interrogate_type_is_unpublished": ("types", _fl(TF.unpublished)),
    "interrogate_type_number_of_constructors": ("types", _cnt("constructors")),
    "interrogate_type_get_constructor": ("types", _nth("constructors")),
    "interrogate_type_has_destructor": ("types", lambda q, r: r.destructor != 0),
    "interrogate_type_destructor_is_inherited": ("types", _fl(TF.inherited_destructor)),
    "interrogate_type_get_destructor": ("types", _fld("destructor")),
    "interrogate_type_number_of_elements": ("types", _cnt("elements")),
    "interrogate_type_get_element": ("types", _nth("elements")),
    "interrogate_type_number_of_methods": ("types", _cnt("methods")),
    "interrogate_type_get_method": ("types", _nth("methods")),
    "interrogate_type_number_of_make_seqs": ("types", _cnt("make_seqs")),
    "interrogate_type_get_make_seq": ("types", _nth("make_seqs")),
    "interrogate_type_number_of_casts": ("types", _cnt("casts")),
    "interrogate_type_get_cast": ("types", _nth("casts")),
    "interrogate_type_number_of_derivations": ("types", _cnt("derivations")),
    "interrogate_type_get_derivation": ("types", _sub("derivations", lambda d: d.base, 0)),
    "interrogate_type_is_final": ("types", _fl(TF.final)),
    "interrogate_type_derivation_has_upcast": ("types", _sub("derivations", lambda d: bool(d.flags & DF.upcast),
                                                             False)),
    "interrogate_type_get_upcast": ("types", _sub("derivations", lambda d: d.upcast, 0)),
    "interrogate_type_derivation_downcast_is_impossible": ("types", _sub(
        "derivations", lambda d: bool(d.flags & DF.downcast_impossible), False)),
    "interrogate_type_derivation_has_downcast": ("types", _sub("derivations", lambda d: bool(d.flags & DF.downcast),
                                                               False)),
    "interrogate_type_get_downcast": ("types", _sub("derivations", lambda d: d.downcast, 0)),
    "interrogate_type_number_of_nested_types": ("types", _cnt("nested_types")),
    "interrogate_type_get_nested_type": ("types", _nth("nested_types")),
}

# (count function, accessor) pairs of the global enumerations -> which records they enumerate
ENUMERATIONS = {
    "manifests": ("interrogate_number_of_manifests", "interrogate_get_manifest"),
    "globals": ("interrogate_number_of_globals", "interrogate_get_global"),
    "global_functions": ("interrogate_number_of_global_functions", "interrogate_get_global_function"),
    "functions": ("interrogate_number_of_functions", "interrogate_get_function"),
    "global_types": ("interrogate_number_of_global_types", "interrogate_get_global_type"),
    "types": ("interrogate_number_of_types", "interrogate_get_type"),
}
# per-record (count, accessor...) families: count function -> positional accessors it bounds
POSITIONAL = {
    "interrogate_function_number_of_c_wrappers": ["interrogate_function_c_wrapper"],
    "interrogate_function_number_of_python_wrappers": ["interrogate_function_python_wrapper"],
    "interrogate_wrapper_number_of_parameters": ["interrogate_wrapper_parameter_type",
                                                 "interrogate_wrapper_parameter_has_name",
                                                 "interrogate_wrapper_parameter_name",
                                                 "interrogate_wrapper_parameter_is_this",
                                                 "interrogate_wrapper_parameter_is_optional"],
    "interrogate_type_number_of_enum_values": ["interrogate_type_enum_value_name",
                                               "interrogate_type_enum_value_scoped_name",
                                               "interrogate_type_enum_value_comment", "interrogate_type_enum_value"],
    "interrogate_type_number_of_constructors": ["interrogate_type_get_constructor"],
    "interrogate_type_number_of_elements": ["interrogate_type_get_element"],
    "interrogate_type_number_of_methods": ["interrogate_type_get_method"],
    "interrogate_type_number_of_make_seqs": ["interrogate_type_get_make_seq"],
    "interrogate_type_number_of_casts": ["interrogate_type_get_cast"],
    "interrogate_type_number_of_derivations": ["interrogate_type_get_derivation",
                                               "interrogate_type_derivation_has_upcast",
                                               "interrogate_type_get_upcast",
                                               "interrogate_type_derivation_downcast_is_impossible",
                                               "interrogate_type_derivation_has_downcast",
                                               "interrogate_type_get_downcast"],
    "interrogate_type_number_of_nested_types": ["interrogate_type_get_nested_type"],
}
# by-name lookups: function -> (kind, field holding the name)
LOOKUPS = {
    "interrogate_get_manifest_by_name": ("manifests", "name"),
    "interrogate_get_element_by_name": ("elements", "name"),
    "interrogate_get_element_by_scoped_name": ("elements", "scoped_name"),
    "interrogate_get_type_by_name": ("types", "name"),
    "interrogate_get_type_by_scoped_name": ("types", "scoped_name"),
    "interrogate_get_type_by_true_name": ("types", "true_name"),
}


class _Unspecified:
    def __repr__(self):
        return "UNSPECIFIED"


UNSPECIFIED = _Unspecified()


def neutral(v):
    """0, false, "" and NULL are the neutral values of the interface."""
    return v is None or v is False or v == 0 or v == b""


class Query:
    """Expected answers of the query interface for ONE file loaded into an empty database through
    interrogate_request_database (pass the result of loaded())."""

    def __init__(self, ldb):
        self.db = ldb
        self.idx = {k: ldb.by_index(k) for k in KINDS}

    # names come from the module def the loader fills from the file header; an empty header string leaves
    # the def's pointer NULL
    def library_name(self, r):
        return _cstr(self.db.library_name) or None

    def module_name(self, r):
        return _cstr(self.db.module_name) or None

    def function_name(self, i):
        f = self.idx["functions"].get(i)
        return _cstr(f.name) if f is not None else b""

    def enumeration(self, which):
        """sorted list of the indices the enumeration must return."""
        d = self.db
        if which == "manifests":
            return sorted(r.index for r in d.manifests)
        if which == "globals":
            return sorted(r.index for r in d.elements if r.flags & EF.global_)
        if which == "global_functions":
            return sorted(r.index for r in d.functions if r.flags & FF.global_)
        if which == "functions":
            return sorted(r.index for r in d.functions)
        if which == "global_types":
            return sorted(r.index for r in d.types if r.flags & TF.global_)
        if which == "types":
            return sorted(r.index for r in d.types)
        raise KeyError(which)

    def expect(self, fn, index, pos=None):
        """Expected value of fn(index[, pos]) for a per-record function: the record's value when `index`
        is a record of the kind the function expects, else None meaning 'any neutral value'.
        Returns UNSPECIFIED when the file does not determine the value.  KeyError for unmodelled functions."""
        kind, ev = PER_RECORD[fn]
        r = self.idx[kind].get(index)
        if r is None:
            return None
        return ev(self, r) if pos is None else ev(self, r, pos)

    def names(self, fn):
        """for a lookup function: dict name -> set of indices bearing that name (C-string view)."""
        kind, field = LOOKUPS[fn]
        out = {}
        for r in getattr(self.db, kind):
            out.setdefault(_cstr(getattr(r, field)), set()).add(r.index)
        return out
