"""Run interrogate on libgen libraries and build the generated code."""
import os
import sysconfig

from . import core, tools, genbuild


def igate(b, d, name, opts, module="mod", libdirs=(), **kw):
    incs = ["-I" + d, "-S" + os.path.join(d, "sys")] + ["-I" + x for x in libdirs]
    return tools.interrogate(b, [os.path.join(d, name + ".h")], d, opts=opts, name=name, module=module, incs=incs, **kw)


def dirs_for(d, libdirs=()):
    return [d, os.path.join(d, "sys")] + list(libdirs)


def libpython():
    return ["-L" + sysconfig.get_config_var("LIBDIR"), "-lpython3.11"]


def compile_many(b, jobs):
    """jobs: list of (src, obj, dirs, python, san, extra) compiled sequentially; returns first failing Result or None"""
    for src, obj, dirs, python, san, extra in jobs:
        r = genbuild.compile_obj(b, src, obj, dirs=dirs, python=python, san=san, extra=extra)
        if r.rc != 0:
            return r
    return None
