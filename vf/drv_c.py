"""Database-driven foreign-function client for -c wrappers (runs in its own process, under ASan).

usage: python3 drv_c.py <dir> <dump.json> <model.json> <so> <seed> <ncalls>
Calls every wrapper through ctypes with prototypes taken from the database only, and compares
(return value, trace event of the instrumented C++ body) — see DESIGN.md C01.  Prints one JSON object.
"""
import ctypes
import json
import random
import struct
import sys

CT = {"int": ctypes.c_int, "unsigned int": ctypes.c_uint, "short int": ctypes.c_short,
      "unsigned short int": ctypes.c_ushort, "long int": ctypes.c_long, "unsigned long int": ctypes.c_ulong,
      "long long int": ctypes.c_longlong, "unsigned long long int": ctypes.c_ulonglong, "char": ctypes.c_byte,
      "signed char": ctypes.c_byte, "unsigned char": ctypes.c_ubyte, "bool": ctypes.c_bool,
      "float": ctypes.c_float, "double": ctypes.c_double, "atomic string": ctypes.c_char_p, "void": None,
      "wchar_t": ctypes.c_wchar, "long double": ctypes.c_longdouble}
INT_RANGE = {"bool": (0, 1), "char": (-128, 127), "signed char": (-128, 127), "unsigned char": (0, 255),
             "short": (-2 ** 15, 2 ** 15 - 1), "unsigned short": (0, 2 ** 16 - 1), "int": (-2 ** 31, 2 ** 31 - 1),
             "unsigned int": (0, 2 ** 32 - 1), "long": (-2 ** 63, 2 ** 63 - 1), "unsigned long": (0, 2 ** 64 - 1),
             "long long": (-2 ** 63, 2 ** 63 - 1), "unsigned long long": (0, 2 ** 64 - 1)}
STRS = ["", "a", "hello world", "x" * 200, "café €", "a\"b\\c", "  lead", "%s%n", "0"]


def CID(q):
    import re
    return re.sub(r"\W+", "_", q)


def tkind(t):
    return t["k"] + (":" + t.get("mode", "") if t["k"] == "obj" else "") + (":" + t["c"] if t["k"] in ("int", "float") else "")


class Driver:
    def __init__(self, d, dump, model, so, seed, ncalls, string_mode, backend="c"):
        self.rng = random.Random(seed)
        self.dump, self.m = dump, model
        self.backend = backend
        self.wkey = "c_wrappers" if backend == "c" else "python_wrappers"
        self.lib = ctypes.CDLL(so)
        self.pylib = ctypes.PyDLL(so) if backend == "python" else None
        self.ncalls = ncalls
        self.string_mode = string_mode
        self.T = {t["index"]: t for t in dump["types"]}
        self.F = {f["index"]: f for f in dump["functions"]}
        self.W = {w["index"]: w for w in dump["wrappers"]}
        self.E = {e["index"]: e for e in dump["elements"]}
        self.viol = []
        self.features = set()
        self.counts = {}
        self.lib.vf_trace_dump.restype = ctypes.c_char_p
        if backend == "python" and hasattr(self.lib, "vf_set_nul"):
            # a Python str carries its length: std::string results may contain NUL bytes (the C back-end hands
            # strings out as char const *, which cannot)
            self.lib.vf_set_nul(1)
        self.lib.vf_iid.restype = ctypes.c_int
        self.lib.vf_iid.argtypes = [ctypes.c_void_p]
        self.classes = {c["qname"]: c for c in model["classes"]}
        self.enums = {e["qname"]: e for e in model["enums"]}
        self.pool = {q: [] for q in self.classes}     # qname -> list of handles (int addresses)
        self.dead = set()
        self.type_by_name = {t["scoped_name"]: t for t in dump["types"]}

    # ---- helpers
    def count(self, k, n=1):
        self.counts[k] = self.counts.get(k, 0) + n

    def bad(self, key, **kw):
        if len(self.viol) < 40:
            self.viol.append([key, kw])

    def ctype(self, tidx):
        t = self.T[tidx]
        seen = 0
        while (t["is_typedef"] or (t["is_const"] and not t["is_pointer"])) and t["wrapped_type"] in self.T and seen < 10:
            t = self.T[t["wrapped_type"]]
            seen += 1
        if t["is_atomic"]:
            return CT[t["true_name"]]
        if t["is_enum"]:
            return ctypes.c_int
        if t["is_pointer"] or t["is_wrapped"] or t["is_array"]:
            return ctypes.c_void_p
        raise KeyError("no ctypes mapping for " + t["true_name"])

    def trace(self):
        s = self.lib.vf_trace_dump()
        return [l for l in (s or b"").decode("utf-8", "replace").split("\n") if l]

    def iid(self, p):
        return self.lib.vf_iid(ctypes.c_void_p(p)) if p else 0

    def state(self, q, p):
        f = getattr(self.lib, "vf_state_" + CID(q))
        f.restype = ctypes.c_ulonglong
        f.argtypes = [ctypes.c_void_p]
        return f(p)

    def fn(self, w):
        if self.backend == "python":
            return self.pyfn(w)
        f = getattr(self.lib, w["name"])
        f.argtypes = [self.ctype(p["type"]) for p in w["params"]]
        f.restype = self.ctype(w["return_type"]) if w["has_return_value"] else None
        return f

    def pyfn(self, w):
        """-python (simple) wrappers: extern "C" PyObject *name(PyObject *self, PyObject *args); handles are ints"""
        f = getattr(self.pylib, w["name"])
        f.argtypes = [ctypes.py_object, ctypes.py_object]
        f.restype = ctypes.py_object
        kinds = [self.T[p["type"]] for p in w["params"]]
        rt = self.T[w["return_type"]] if w["has_return_value"] else None

        def conv(v, t):
            if v is None:
                return 0
            if isinstance(v, bytes):
                return v.decode("utf-8")
            return v

        def call(*args):
            r = f(None, tuple(conv(a, t) for a, t in zip(args, kinds)))
            if isinstance(r, str):
                return r.encode("utf-8")
            return r
        return call

    # ---- argument construction (values drawn inside the *declared* C++ type)
    def make_arg(self, t):
        r = self.rng
        k = t["k"]
        if k == "int":
            lo, hi = INT_RANGE[t["c"]]
            v = r.choice([lo, lo + 1, -1 if lo < 0 else 0, 0, 1, hi - 1, hi, r.randint(lo, hi), r.randint(lo, hi)])
            return v, ("i" if lo < 0 else "u") + str(v)
        if k == "bool":
            v = r.choice([True, False])
            return v, "u" + str(int(v))
        if k == "float":
            if t["c"] == "float":
                v = r.choice([0.0, -0.0, 1.5, -2.25, 3.4028234663852886e38, 1.401298464324817e-45, 16777216.0, r.randint(-10 ** 6, 10 ** 6) / 8.0])
            else:
                v = r.choice([0.0, -0.0, 1.5, 1e308, 5e-324, 0.1, -123456.789, r.random() * 1e9])
            return v, "f%016x" % struct.unpack("<Q", struct.pack("<d", v))[0]
        if k == "enum":
            e = self.enums[t["name"]]
            mv = r.choice(e["members"])["value"]
            return mv, "i" + str(mv)
        if k in ("string", "cstr"):
            s = r.choice(STRS).encode("utf-8")
            return s, "s" + s.hex()
        if k == "obj":
            q = t["cls"]
            alive = [h for h in self.pool.get(q, []) if h not in self.dead]
            if not alive:
                return None, None
            if t["mode"] in ("ptr", "cptr") and r.random() < 0.1:
                return None, "n"
            h = r.choice(alive)
            if t["mode"] == "val":
                return h, "v" + str(self.state(q, h))
            return h, "o" + str(self.iid(h))
        raise KeyError(k)

    # ---- result comparison
    def cmp_result(self, key, x, got, logged):
        rt = x["ret"]
        k = rt["k"]
        self.features.add("ret:" + tkind(rt))
        if k == "void":
            return
        if logged is None:
            self.bad("no-result-logged:" + key)
            return
        if k in ("int", "bool", "enum"):
            exp = int(logged[1:])
            if int(got) != exp:
                self.bad("result-mismatch:ret=" + tkind(rt), fn=x["qname"], expected=exp, got=int(got))
        elif k == "float":
            bits = int(logged[1:], 16)
            exp = struct.unpack("<d", struct.pack("<Q", bits))[0]
            if struct.pack("<d", float(got)) != struct.pack("<d", exp):
                self.bad("result-mismatch:ret=" + tkind(rt), fn=x["qname"], expected=exp, got=got)
        elif k in ("string", "cstr"):
            exp = bytes.fromhex(logged[1:]) if logged != "n" else None
            if got != exp:
                self.bad("result-mismatch:ret=" + tkind(rt), fn=x["qname"], expected=repr(exp), got=repr(got))
        elif k == "obj":
            q = rt["cls"]
            if rt["mode"] == "val":
                if not got:
                    self.bad("result-null:ret=obj:val", fn=x["qname"])
                    return
                st = self.state(q, got)
                if "v" + str(st) != logged:
                    self.bad("result-mismatch:ret=obj:val", fn=x["qname"], expected=logged, got=st)
                self.pool[q].append(got)       # caller owns it; destroyed at the end through the db destructor
            else:
                exp = int(logged[1:]) if logged != "n" else 0
                if self.iid(got) != exp:
                    self.bad("result-mismatch:ret=" + tkind(rt), fn=x["qname"], expected=exp, got=self.iid(got))

    # ---- one call of one wrapper
    def call_variant(self, x, ps, w, cls):
        key = x["kind"]
        args, exp_args = [], []
        this_iid = 0
        wp = list(w["params"])
        exp_eid = x["eid"]
        if x["kind"] == "method":
            h = None
            # sometimes call the base-class wrapper on an object of a derived class (through the static_cast the
            # client would obtain from the database's upcast): virtual methods must dispatch to the override
            if self.rng.random() < 0.4:
                h, dyn = self.derived_this(cls["qname"])
                if h is not None:
                    exp_eid = self.dispatch(x, dyn)
                    self.features.add("this:derived-object" + (":virtual" if x.get("virtual") else ""))
                    if exp_eid != x["eid"]:
                        self.features.add("this:derived-object:override-expected")
            if h is None:
                alive = [h for h in self.pool[cls["qname"]] if h not in self.dead]
                if not alive:
                    return False
                h = self.rng.choice(alive)
            args.append(h)
            this_iid = self.iid(h)
            wp = wp[1:]
        for mp in ps:
            v, lg = self.make_arg(mp["type"])
            if lg is None:
                return False
            args.append(v)
            exp_args.append(lg)
            self.features.add("param:" + tkind(mp["type"]))
        # omitted defaults must show up in the trace with their default values
        for mp in x["params"][len(ps):]:
            t = mp["type"]
            dv = mp["default_value"]
            if t["k"] in ("int", "bool", "enum"):
                lo = INT_RANGE.get(t.get("c", "int"), (-1, 1))[0] if t["k"] == "int" else (0 if t["k"] == "bool" else -1)
                exp_args.append(("i" if lo < 0 else "u") + str(int(dv)))
            elif t["k"] == "float":
                exp_args.append("f%016x" % struct.unpack("<Q", struct.pack("<d", float(dv)))[0])
            else:
                exp_args.append("s" + dv.encode().hex())
            self.features.add("default-omitted:" + tkind(t))
        f = self.fn(w)
        self.trace()
        try:
            got = f(*args)
        except Exception as ex:
            # only the -python back-end can raise; a category-exact, in-range call must not
            wide = "none"
            off = 1 if x["kind"] == "method" else 0
            for i, (mp, a) in enumerate(zip(ps, args[off:])):
                if mp["type"]["k"] == "int" and isinstance(a, int) and not (-2 ** 31 <= a < 2 ** 31):
                    # the culprit is the wide argument whose replacement by 1 makes the exception go away
                    trial = list(args)
                    trial[off + i] = 1
                    try:
                        f(*trial)
                        wide = tkind(mp["type"])
                        break
                    except Exception:
                        continue
            if wide == "none":
                # several wide arguments may each be rejected: replace them all
                trial = list(args)
                kinds = []
                for i, (mp, a) in enumerate(zip(ps, args[off:])):
                    if mp["type"]["k"] == "int" and isinstance(a, int) and not (-2 ** 31 <= a < 2 ** 31):
                        trial[off + i] = 1
                        kinds.append(tkind(mp["type"]))
                if kinds:
                    try:
                        f(*trial)
                        wide = sorted(set(kinds))[0]
                    except Exception:
                        pass
            self.trace()
            self.bad(f"wrapper-raised:{type(ex).__name__}:wide-arg={wide}", fn=x["qname"], msg=str(ex)[:100])
            return True
        tr = self.trace()
        self.count("wrapper_calls")
        evs = [l for l in tr if l.startswith("E %d " % exp_eid)]
        others = [l for l in tr if l.startswith("E ") and not l.startswith("E %d " % exp_eid)]
        model_copy_eids = {c["copy_ctor"]["eid"] for c in self.m["classes"]}
        stray = [l for l in others if int(l.split()[1]) not in model_copy_eids]
        if not evs and not stray:
            self.bad(f"body-not-executed:{x['kind']},ret=" + tkind(x["ret"]), fn=x["qname"], expected_eid=exp_eid)
            return True
        if len(evs) != 1 or stray:
            self.bad(f"wrong-function-ran:{x['kind']}" + (":virtual-dispatch" if exp_eid != x["eid"] else ""),
                     fn=x["qname"], expected_eid=exp_eid, trace=tr[:6])
            return True
        self.count("trace_events_compared")
        fields = dict(p.split("=", 1) for p in evs[0].split()[2:])
        if x["kind"] == "method" and int(fields.get("this", -1)) != this_iid:
            self.bad("this-mismatch:" + ("const" if x.get("const") else "nonconst"), fn=x["qname"], expected=this_iid,
                     got=fields.get("this"))
        for i, lg in enumerate(exp_args):
            g = fields.get("a%d" % i)
            t = x["params"][i]["type"]
            if g != lg and not (t["k"] == "float" and t["c"] == "float" and self.f32eq(g, lg)):
                what = "default" if i >= len(ps) else "arg"
                self.bad(f"{what}-mismatch:param=" + tkind(t), fn=x["qname"], index=i, passed=lg, body_saw=g)
        if x["kind"] == "ctor":
            if not got:
                self.bad("ctor-returned-null", fn=x["qname"])
            else:
                if "v" + str(self.state(cls["qname"], got)) != fields.get("r"):
                    self.bad("ctor-object-mismatch", fn=x["qname"])
                self.pool[cls["qname"]].append(got)
        else:
            self.cmp_result(key, x, got, fields.get("r"))
        return True

    @staticmethod
    def f32eq(g, lg):
        """a float parameter is logged after conversion to float: compare at float precision"""
        try:
            a = struct.unpack("<d", struct.pack("<Q", int(g[1:], 16)))[0]
            b = struct.unpack("<d", struct.pack("<Q", int(lg[1:], 16)))[0]
            return struct.pack("<f", a) == struct.pack("<f", b)
        except Exception:
            return False

    # ---- objects of derived classes used through a base-class handle
    def paths_to(self, dq, bq, seen=()):
        """chain of (derived, base) static_cast steps from class dq up to bq, or None"""
        if dq == bq:
            return []
        for b in self.classes[dq]["bases"]:
            if b["qname"] in self.classes:
                p = self.paths_to(b["qname"], bq)
                if p is not None:
                    return [(dq, b["qname"])] + p
        return None

    def derived_this(self, bq):
        cands = []
        for dq in self.classes:
            if dq != bq:
                p = self.paths_to(dq, bq)
                alive = [h for h in self.pool.get(dq, []) if h not in self.dead]
                if p and alive:
                    cands.append((dq, p, alive))
        if not cands:
            return None, None
        dq, p, alive = self.rng.choice(cands)
        h = self.rng.choice(alive)
        for d, b in p:
            f = getattr(self.lib, "vf_cast_%s__%s" % (CID(d), CID(b)), None)
            if f is None:
                return None, None
            f.restype = ctypes.c_void_p
            f.argtypes = [ctypes.c_void_p]
            h = f(h)
        return h, dq

    def dispatch(self, x, dyn):
        """entity id of the body C++ runs for base method x on an object of dynamic class dyn"""
        if not x.get("virtual"):
            return x["eid"]
        # the family of x: every method whose chain of `overrides` links ends at the same root declaration as x's
        allm = {m["qname"]: m for c in self.m["classes"] for m in c["methods"] if m["kind"] == "method"}

        def root(m):
            seen = set()
            while m.get("overrides") in allm and m["qname"] not in seen:
                seen.add(m["qname"])
                m = allm[m["overrides"]]
            return m["qname"]
        rx = root(x)
        over = {q: m for q, m in allm.items() if m.get("virtual") and root(m) == rx}
        # the final overrider: the overrider declared in the most derived class among dyn and its ancestors
        # (libgen never builds non-virtual diamonds, so the base subobject is unique)
        cands = []
        for q in self.classes:
            if q == dyn or self.paths_to(dyn, q) is not None:
                for m in self.classes[q]["methods"]:
                    if m["qname"] in over:
                        cands.append((q, m))
        for q, m in cands:
            if not any(q2 != q and self.paths_to(q2, q) is not None for q2, _ in cands):
                return m["eid"]
        return x["eid"]

    def kind_fits(self, mt, tidx):
        t = self.T.get(tidx)
        if t is None:
            return False
        k = mt["k"]
        if k == "float":
            # float and double overloads may share a parameter name: the width decides
            return bool(t["is_atomic"]) and t["atomic_token"] == (2 if mt.get("c") == "float" else 3)
        if k in ("int", "bool"):
            return bool(t["is_atomic"]) and t["atomic_token"] in ({"int": (1, 5, 8), "bool": (4,)}[k])
        if k in ("string", "cstr"):
            return (t["is_atomic"] and t["atomic_token"] == 7) or t["is_pointer"]
        if k == "enum":
            return bool(t["is_enum"])
        return bool(t["is_pointer"] or t["is_wrapped"])

    # ---- matching model variants to wrappers (by ordered parameter names)
    def variants(self):
        out = []
        groups = {}
        for c in self.m["classes"]:
            for f in c["ctors"] + c["methods"]:
                groups.setdefault(f["qname"], []).append((f, c))
        for f in self.m["functions"]:
            groups.setdefault(f["qname"], []).append((f, None))
        byname = {}
        for f in self.F.values():
            byname.setdefault(f["scoped_name"], []).append(f)
        for qn, lst in groups.items():
            look = qn.replace("operator int", "operator typecast int") if lst[0][0].get("typecast") else qn
            for dbf in byname.get(look, []):
                ws = [self.W[w] for w in dbf[self.wkey] if w in self.W]
                for x, c in lst:
                    nd = 0
                    for p in reversed(x["params"]):
                        if p["default"] is None:
                            break
                        nd += 1
                    for k in range(nd + 1):
                        ps = x["params"][:len(x["params"]) - k]
                        cands = []
                        for w in ws:
                            wp = [p for p in w["params"] if not p["is_this"]]
                            if [p["name"] for p in wp] == [p["name"] for p in ps] and w["name"]:
                                cands.append((w, wp))
                        # same parameter names in two overloads: take the one whose recorded type kinds fit
                        best = None
                        for w, wp in cands:
                            if all(self.kind_fits(mp["type"], dp["type"]) for mp, dp in zip(ps, wp)):
                                best = w
                                break
                        if best is None and cands:
                            best = cands[0][0]
                        if best is not None:
                            out.append((x, ps, best, c))
        return out

    def run(self):
        vs = self.variants()
        if not vs:
            return
        ctors = [v for v in vs if v[0]["kind"] == "ctor"]
        # populate: >= 3 live instances per class where a constructor is exported
        for rnd in range(3):
            for v in ctors:
                self.call_variant(*v)
        rest = [v for v in vs]
        for i in range(self.ncalls):
            v = self.rng.choice(rest)
            self.call_variant(*v)
        # every variant at least twice, interleaved (A, B, A)
        for v in vs:
            self.call_variant(*v)
        for v in reversed(vs):
            self.call_variant(*v)
        self.members()
        self.casts()
        self.destroy_all()

    # ---- data members: set -> get round trip through the generated accessors, cross-checked natively
    def members(self):
        for c in self.m["classes"]:
            for mm in c["members"]:
                if mm["array"]:
                    self.array_member(c, mm)
                    continue
                if mm.get("classmember"):
                    continue
                e = next((e for e in self.E.values() if e["scoped_name"] == mm["qname"]), None)
                if e is None or not e["has_getter"]:
                    continue
                g = self.F.get(e["getter"])
                gw = [self.W[w] for w in g[self.wkey] if w in self.W and self.W[w]["name"]] if g else []
                if not gw:
                    continue
                alive = [h for h in self.pool[c["qname"]] if h not in self.dead]
                if not alive and not mm["static"]:
                    continue
                t = mm["type"]
                peek = getattr(self.lib, "vf_peek_%s_%s" % (CID(c["qname"]), mm["name"]))
                peek.argtypes = [ctypes.c_void_p]
                peek.restype = {"int": ctypes.c_longlong, "bool": ctypes.c_longlong, "float": ctypes.c_double,
                                "string": ctypes.c_char_p}[t["k"]]
                for rep in range(3):
                    h = self.rng.choice(alive) if alive else None
                    gf = self.fn(gw[0])
                    a = [] if mm["static"] else [h]
                    self.count("accessor_calls")
                    self.features.add("member:" + ("static" if mm["static"] else "const" if mm["const"] else "plain") + ":" + t["k"])
                    if e["has_setter"] and not mm["const"]:
                        s = self.F.get(e["setter"])
                        sw = [self.W[w] for w in s[self.wkey] if w in self.W and self.W[w]["name"]]
                        if sw:
                            v, lg = self.make_arg(t if t["k"] != "string" else dict(k="string"))
                            self.fn(sw[0])(*(a + [v]))
                            nat = peek(h)
                            if not self.same(t, v, nat):
                                self.bad("setter-mismatch:" + tkind(t), member=mm["qname"], set=repr(v), native=repr(nat))
                    got = gf(*a)
                    nat = peek(h)
                    if t["k"] == "string" and not self.string_mode:
                        continue
                    if not self.same(t, got, nat):
                        self.bad("getter-mismatch:" + tkind(t), member=mm["qname"], got=repr(got), native=repr(nat))

    def array_member(self, c, mm):
        """published array member: the setter must store the caller's elements, the getter must expose the member"""
        if self.backend != "c":
            return
        e = next((e for e in self.E.values() if e["scoped_name"] == mm["qname"]), None)
        alive = [h for h in self.pool[c["qname"]] if h not in self.dead]
        if e is None or not alive:
            return
        n = mm["array"]
        peek = getattr(self.lib, "vf_peekat_%s_%s" % (CID(c["qname"]), mm["name"]), None)
        if peek is None:
            return
        peek.argtypes = [ctypes.c_void_p, ctypes.c_int]
        peek.restype = ctypes.c_longlong
        h = self.rng.choice(alive)
        if e["has_setter"]:
            s = self.F.get(e["setter"])
            sw = [self.W[w] for w in s[self.wkey] if w in self.W and self.W[w]["name"]] if s else []
            if sw:
                vals = [self.rng.randint(-1000, 1000) for _ in range(n)]
                arr = (ctypes.c_int * n)(*vals)
                f = getattr(self.lib, sw[0]["name"])
                f.argtypes = [ctypes.c_void_p, ctypes.c_void_p]
                f.restype = None
                f(h, ctypes.cast(arr, ctypes.c_void_p))
                self.count("accessor_calls")
                self.features.add("member:array:setter")
                got = [peek(h, i) for i in range(n)]
                if got != vals:
                    self.bad("setter-mismatch:array", member=mm["qname"], set=vals, native=got)
        if e["has_getter"]:
            g = self.F.get(e["getter"])
            gw = [self.W[w] for w in g[self.wkey] if w in self.W and self.W[w]["name"]] if g else []
            if gw:
                f = getattr(self.lib, gw[0]["name"])
                f.argtypes = [ctypes.c_void_p]
                f.restype = ctypes.c_void_p
                p = f(h)
                self.count("accessor_calls")
                self.features.add("member:array:getter")
                if p:
                    got = list((ctypes.c_int * n).from_address(p))
                    nat = [peek(h, i) for i in range(n)]
                    if got != nat:
                        self.bad("getter-mismatch:array", member=mm["qname"], got=got, native=nat)

    @staticmethod
    def same(t, a, b):
        if a is None or b is None:
            return a is b
        if t["k"] == "float":
            if t["c"] == "float":
                return struct.pack("<f", float(a)) == struct.pack("<f", float(b))
            return struct.pack("<d", float(a)) == struct.pack("<d", float(b))
        if t["k"] in ("int", "bool", "enum"):
            return int(a) == int(b)
        return a == b

    # ---- up/down casts recorded in the database vs static_cast
    def casts(self):
        for c in self.m["classes"]:
            t = self.type_by_name.get(c["qname"])
            if t is None:
                continue
            for d in t["derivations"]:
                bt = self.T.get(d["base"])
                if bt is None:
                    continue
                alive = [h for h in self.pool[c["qname"]] if h not in self.dead]
                if not alive:
                    continue
                nat = getattr(self.lib, "vf_cast_%s__%s" % (CID(c["qname"]), CID(bt["scoped_name"])), None)
                if nat is None:
                    continue
                nat.restype = ctypes.c_void_p
                nat.argtypes = [ctypes.c_void_p]
                for h in alive[:3]:
                    exp = nat(h)
                    if d["has_upcast"]:
                        uf = self.F.get(d["upcast"])
                        uw = [self.W[w] for w in uf[self.wkey] if w in self.W and self.W[w]["name"]] if uf else []
                        if uw:
                            self.count("cast_calls")
                            self.features.add("upcast")
                            got = self.fn(uw[0])(h)
                            if got != exp:
                                self.bad("upcast-mismatch", cls=c["qname"], base=bt["scoped_name"])
                            # the upcast handle must work with the base class's methods: spot-check via iid
                            if self.iid(got) != self.iid(h):
                                self.bad("upcast-identity", cls=c["qname"])
                    else:
                        # no upcast function: the database promises the pointer is usable as-is
                        self.count("cast_identity_checked")
                        if exp != h:
                            self.bad("upcast-missing-but-pointer-differs", cls=c["qname"], base=bt["scoped_name"])
                    if d["has_downcast"]:
                        df = self.F.get(d["downcast"])
                        dw = [self.W[w] for w in df[self.wkey] if w in self.W and self.W[w]["name"]] if df else []
                        if dw:
                            self.count("cast_calls")
                            self.features.add("downcast")
                            back = self.fn(dw[0])(exp)
                            if back != h:
                                self.bad("downcast-mismatch", cls=c["qname"], base=bt["scoped_name"])

    def destroy_all(self):
        for c in self.m["classes"]:
            t = self.type_by_name.get(c["qname"])
            if t is None or not t["has_destructor"]:
                continue
            df = self.F.get(t["destructor"])
            dw = [self.W[w] for w in df[self.wkey] if w in self.W and self.W[w]["name"]] if df else []
            if not dw:
                continue
            f = self.fn(dw[0])
            for h in self.pool[c["qname"]]:
                if h in self.dead:
                    continue
                iid = self.iid(h)
                self.trace()
                f(h)
                tr = self.trace()
                self.dead.add(h)
                self.count("destructor_calls")
                self.features.add("destructor")
                ds = [l for l in tr if l.startswith("D ")]
                if len(ds) != 1 or int(ds[0].split()[1]) != iid:
                    self.bad("destructor-mismatch", cls=c["qname"], expected_iid=iid, trace=tr[:4])


def main():
    d, dumpf, modelf, so, seed, ncalls, smode = sys.argv[1:8]
    backend = sys.argv[8] if len(sys.argv) > 8 else "c"
    drv = Driver(d, json.load(open(dumpf)), json.load(open(modelf)), so, int(seed), int(ncalls), smode == "1", backend)
    err = None
    try:
        drv.run()
    except Exception as ex:   # driver failure is a harness error, reported as such
        import traceback
        err = traceback.format_exc()
    print("VFRESULT " + json.dumps(dict(violations=drv.viol, features=sorted(drv.features), counts=drv.counts, error=err)))


if __name__ == "__main__":
    main()
