"""C17 -- include lookup, once-only inclusion and file ownership follow the stated rules.

Two workloads, both observing executions of the real (ASan+UBSan) code:

 * kind "tree":  treegen builds a small directory tree with same-named headers in several candidate
   directories (+ dir/file symlinks); parse_file and interrogate are run over it with -I/-S/-noangles/
   -srcdir in generated orders and spellings.  Observation: which unique marker declarations appear in
   the parse_file dump, the value of marker macros seen by a published probe enum (interrogate database,
   through idbdump), and which published marker classes are exported.  Oracle: a reference resolver that
   implements the *statement's* order (working directory, includer's directory, -I/-S in command-line
   order; <> only -S; -noangles merges) using the kernel's path resolution (os.path.isfile/realpath).
   Whatever the statement leaves open is enumerated as a set of admissible interpretations; a run is a
   violation only when it matches none of them.

 * kind "fname": fname_harness (linked with libdtoolutil.a) applies standardize / make_absolute /
   make_canonical / make_relative_to to all path strings over {a, b, ., .., empty}; oracle: idempotence,
   os.path.realpath for denotation, os.path.normpath for make_relative_to.
"""
import collections
import json
import os
import random
import re
import shutil

from vf import core, tools
from vf.gen import treegen

LEVEL = "exploration"

HARNESS = "fname_harness"


# ---------------------------------------------------------------------------------------------
# tool paths (workers must not rebuild: prepare() did)
# ---------------------------------------------------------------------------------------------

_B = None


def _built():
    global _B
    if _B is None:
        root = os.path.join(core.CACHE, "asan")
        b = core.Built("asan", root, os.path.join(core.CACHE, "src"))
        if not (os.path.exists(b.interrogate) and os.path.exists(b.parse_file)):
            b = core.build("asan")
        _B = b
    return _B


def _harness(name):
    p = os.path.join(core.CACHE, "harness-asan", name)
    if not os.path.exists(p):
        if name == HARNESS:
            return core.build_harness(HARNESS, ["fname_harness.cxx"], libs=("dtoolutil", "dtoolbase"))
        return tools.idbdump_path()
    return p


def prepare(chk):
    core.build("asan")
    tools.idbdump_path()
    core.build_harness(HARNESS, ["fname_harness.cxx"], libs=("dtoolutil", "dtoolbase"))


# ---------------------------------------------------------------------------------------------
# reference resolver (the statement's order, kernel path semantics)
# ---------------------------------------------------------------------------------------------

def _collapse_nosym(path):
    """remove 'x/..' pairs of an absolute path lexically, except where x is a symbolic link (there the
    kernel's answer differs from the lexical one and is binding); '.' and empty components go too"""
    out = []
    for c in path.split("/"):
        if c in ("", "."):
            continue
        if c == ".." and out and out[-1] != "..":
            if os.path.islink("/" + "/".join(out)):
                out.append(c)
            else:
                out.pop()
        else:
            out.append(c)
    return "/" + "/".join(out)


def _join(base, op):
    if op.startswith("/"):
        return op
    if base.endswith("/"):
        return base + op
    return base + "/" + op


INTERPS = [dict(lex_incdir=a, wd_srcdir=b, search_srcdir=c, lenient_dotdot=d)
           for d in (False, True) for a in (False, True) for b in (True, False) for c in (False, True)]


def _interps_for(run):
    if run.get("srcdir"):
        return INTERPS
    return [i for i in INTERPS if i["wd_srcdir"] and not i["search_srcdir"]]


class Walk:
    pass


def walk(case, run, root, interp):
    """Expected contributions of one run under one interpretation of what the statement leaves open:
       lex_incdir      the including file's directory is the directory part of the path it was found by
                       (True) or of its symlink-resolved path (False)
       wd_srcdir       with -srcdir, 'the working directory' is the -srcdir directory (True) or the
                       directory the tool was started in (False)
       search_srcdir   with -srcdir, relative -I/-S operands are relative to -srcdir (True) or to the
                       directory the tool was started in (False)
       lenient_dotdot  a candidate path that denotes nothing for the kernel because a component before a '..'
                       is missing, but denotes a file once such 'x/..' pairs are removed lexically, counts as
                       found (True) or not (False).  'x/..' is never removed where x is a symbolic link, and a
                       path the kernel *does* resolve always denotes what the kernel says.
    """
    units_by_phys = {}
    for u in case["units"]:
        units_by_phys[os.path.realpath(os.path.join(root, u["path"]))] = u
    inv = os.path.normpath(os.path.join(root, run["cwd"]) if run["cwd"] != "." else root)
    R = lambda s: s.replace("@R", root)
    if run.get("srcdir"):
        files_base = _join(inv, R(run["srcdir"]["operand"]))
    else:
        files_base = inv
    wd = files_base if interp["wd_srcdir"] else inv
    sbase = files_base if interp["search_srcdir"] else inv
    search = [(s["kind"], _join(sbase, R(s["operand"])), i) for i, s in enumerate(run["search"])]
    noangles = run["noangles"]

    w = Walk()
    w.contrib = collections.Counter()
    w.log = []
    w.missing = []
    w.snapshot = None
    w.unknown = False
    w.wd = wd
    w.named = set()
    seen = set()
    V = {}
    cnt = collections.Counter()

    def probe(path):
        if os.path.isfile(path):
            return path
        if interp["lenient_dotdot"] and ".." in path.split("/"):
            n = _collapse_nosym(path)
            if os.path.isfile(n):
                return n
        return None

    def candidates(site, found_path, phys, full=False):
        op = R(site["operand"])
        quote = site["form"] == "quote" or noangles or full
        c = []
        if quote:
            c.append(("cwd", wd, None))
            c.append(("incdir", os.path.dirname(found_path if interp["lex_incdir"] else phys), None))
            for k, d, i in search:
                c.append((k, d, i))
        else:
            for k, d, i in search:
                if k == "S":
                    c.append((k, d, i))
        return [(k, d, _join(d, op), i) for k, d, i in c]

    w.candidates = candidates
    w.probe = probe

    def include(found_path, depth):
        if depth > 12:
            w.unknown = True
            return
        phys = os.path.realpath(found_path)
        u = units_by_phys.get(phys)
        if u is None:
            w.unknown = True
            return
        if u["protect"] != "none" and phys in seen:
            return
        seen.add(phys)
        w.contrib[u["id"]] += 1
        cnt[u["name"]] += 1
        V[u["name"]] = u["id"] + 1
        for si, site in enumerate(u["sites"]):
            hit = None
            for k, d, path, idx in candidates(site, found_path, phys):
                f = probe(path)
                if f:
                    hit = (k, f, idx, d)
                    break
            tu = units_by_phys.get(os.path.realpath(hit[1])) if hit else None
            w.log.append(dict(includer=u["id"], site=si, name=site["name"], kind=hit[0] if hit else None,
                              sidx=hit[2] if hit else None, unit=tu["id"] if tu else None,
                              base=hit[3] if hit else None, path=found_path, phys=phys))
            if hit is None:
                w.missing.append((u["id"], si))
            else:
                include(hit[1], depth + 1)
        if u["kind"] == "main":
            w.snapshot = {n: (V.get(n, 0), 1 if cnt[n] >= 2 else 0) for n in case["names"]}

    paths = []
    for f in run["files"]:
        path = probe(_join(files_base, R(f["operand"])))
        if path is None:
            w.unknown = True
            continue
        paths.append(path)
        w.named.add(os.path.realpath(path))
    for path in paths:
        include(path, 0)
    return w


def ownership(case, w, root):
    """unit id -> 'must' | 'mustnot' | None (unspecified), for units that contribute under this walk.
    'Found in the working directory' is taken as classified only where both readings agree (found by the
    working-directory step AND residing in it / neither); a unit is judged only when every #include site of
    its name resolves to it, so that the route by which it first arrived is unambiguous."""
    out = {}
    wdp = os.path.realpath(w.wd)
    for u in case["units"]:
        uid = u["id"]
        if not w.contrib.get(uid):
            continue
        phys = os.path.realpath(os.path.join(root, u["path"]))
        in_wd = os.path.dirname(phys) == wdp
        ents = [e for e in w.log if e["name"] == u["name"]]
        kinds = sorted({e["kind"] or "none" for e in ents})
        clean = all(e["unit"] == uid for e in ents)
        if phys in w.named:
            out[uid] = ("must", ["cmdline"] + kinds)
        elif not clean or not ents:
            out[uid] = (None, kinds)
        elif all(k == "cwd" for k in kinds) and in_wd:
            out[uid] = ("must", kinds)
        elif all(k != "cwd" for k in kinds) and not in_wd:
            out[uid] = ("mustnot", kinds)
        else:
            out[uid] = (None, kinds)
    return out


# ---------------------------------------------------------------------------------------------
# spelling classes (computed from the strings of a -- minimised -- case, not from generator labels)
# ---------------------------------------------------------------------------------------------

def _symlink_names(case):
    dirs, files = set(), set()
    for path, target in case["symlinks"]:
        (files if target.endswith(".h") else dirs).add(os.path.basename(path))
    return dirs, files


def _class_path(case, op, is_file=True):
    """spelling class of a path operand; 'plain' covers plain names, sub-directories and leading '..'"""
    sdirs, sfiles = _symlink_names(case)
    body = op[2:] if op.startswith("@R") else op
    comps = body.split("/")
    cls = []
    if "//" in body.rstrip("/") or (body.endswith("//")):
        cls.append("dslash")
    inner = comps[:-1] if is_file else comps
    names_seen = False
    for i, c in enumerate(comps):
        if c == "..":
            if names_seen:
                prev = [x for x in comps[:i] if x not in ("", ".", "..")]
                cls.append("symup" if prev and prev[-1] in sdirs else "subdotdot")
        elif c not in ("", "."):
            names_seen = True
    if "." in inner[1:] or (inner[:1] == ["."]) or (not is_file and comps[-1:] == ["."]):
        cls.append("dot")
    if any(c in sdirs for c in inner):
        cls.append("symdir")
    if is_file and comps[-1] in sfiles:
        cls.append("symfile")
    if not is_file and body.endswith("/") and "dslash" not in cls:
        cls.append("trail")
    if "symup" in cls and "symdir" in cls:
        cls.remove("symdir")
    if "dslash" in cls and "dot" in cls:
        cls.remove("dot")
    return "+".join(sorted(set(cls))) or "plain"


# ---------------------------------------------------------------------------------------------
# running one tree
# ---------------------------------------------------------------------------------------------

MK = re.compile(r"\bmk_([a-z0-9]+)_(\d+)\b")
PV = re.compile(r"\bp([vt])_(\d+)_([a-z0-9]+)\s*=\s*(\d+)")


def _observe(case, run, root, out):
    b = _built()
    argv = [a.replace("@R", root).replace("@O", out) for a in run["argv"]]
    cwd = root if run["cwd"] == "." else os.path.join(root, run["cwd"])
    exe = b.parse_file if run["tool"] == "parse_file" else b.interrogate
    odb = os.path.join(out, "out.in")
    if os.path.exists(odb):
        os.unlink(odb)
    try:
        r = core.run([exe] + argv, timeout=30, cwd=cwd)
    except core.HarnessError:
        # the shared build is being relinked by a concurrent check (ETXTBSY / EACCES / ENOENT on the binary):
        # wait for the builder's lock, then try once more
        import fcntl
        with open(os.path.join(core.CACHE, ".lock"), "w") as lk:
            fcntl.flock(lk, fcntl.LOCK_EX)
            fcntl.flock(lk, fcntl.LOCK_UN)
        r = core.run([exe] + argv, timeout=30, cwd=cwd)
    if r.timed_out:
        r = core.run([exe] + argv, timeout=60, cwd=cwd)
    obs = dict(rc=r.rc, how=r.how(), err=r.err, markers=None, snapshot=None, own=None, argv=argv)
    if r.timed_out or r.died():
        return obs
    main_id = next(u["id"] for u in case["units"] if u["kind"] == "main")
    if run["tool"] == "parse_file":
        obs["markers"] = collections.Counter(int(m.group(2)) for m in MK.finditer(r.out))
        snap = {}
        for m in PV.finditer(r.out):
            if int(m.group(2)) == main_id:
                snap.setdefault(m.group(3), [0, 0])[0 if m.group(1) == "v" else 1] = int(m.group(4))
        obs["snapshot"] = {k: tuple(v) for k, v in snap.items()} if snap else None
    else:
        if r.rc != 0 or not os.path.exists(odb):
            return obs
        rd, d = tools.idbdump([odb])
        if d is None:
            obs["how"] = "idbdump:" + rd.how()
            obs["err"] = rd.err
            return obs
        snap = {}
        own = set()
        for t in d["types"]:
            if t["name"] == "Probe_%d" % main_id:
                for ev in t.get("enum_values") or []:
                    m = re.match(r"p([vt])_(\d+)_([a-z0-9]+)$", ev["name"])
                    if m:
                        snap.setdefault(m.group(3), [0, 0])[0 if m.group(1) == "v" else 1] = ev["value"]
            m = re.match(r"Own_([a-z0-9]+)_(\d+)$", t["name"])
            if m:
                own.add(int(m.group(2)))
        obs["snapshot"] = {k: tuple(v) for k, v in snap.items()} if snap else None
        obs["own"] = own
    return obs


def _matches(run, obs, w):
    if w.snapshot != obs["snapshot"]:
        return False
    if run["tool"] == "parse_file":
        return dict(obs["markers"]) == dict(w.contrib)
    return True


def _name_diffs(case, run, obs, w):
    """names whose observation differs from walk w"""
    diffs = []
    unit = {u["id"]: u for u in case["units"]}
    es, os_ = w.snapshot or {}, obs["snapshot"] or {}
    for n in case["names"]:
        e, o = es.get(n, (0, 0)), os_.get(n, (0, 0))
        em = {k: v for k, v in w.contrib.items() if unit[k]["name"] == n}
        om = em
        if run["tool"] == "parse_file":
            om = {k: v for k, v in obs["markers"].items() if k in unit and unit[k]["name"] == n}
        if e != o or em != om:
            diffs.append(dict(name=n, exp_v=e[0], got_v=o[0], exp_t=e[1], got_t=o[1], exp_m=em, got_m=om))
    return diffs


def judge_run(case, run, root, out):
    """-> (violations [dict], features set, counters, inconclusive-or-None).  A violation dict has
    cat, sites [(unit id, site index)], units [unit id], effect (dict of strings), detail."""
    viol, feats, counters = [], set(), collections.Counter()
    obs = _observe(case, run, root, out)
    tool = run["tool"]
    walks = [(i, walk(case, run, root, i)) for i in _interps_for(run)]
    if all(w.unknown for _, w in walks):
        return viol, feats, counters, "generator produced a tree the reference cannot classify"
    walks = [(i, w) for i, w in walks if not w.unknown]
    primary = walks[0][1]
    unit = {u["id"]: u for u in case["units"]}
    counters["tool_runs"] += 1
    if obs["how"] == "timeout":
        return viol, feats, counters, "timeout"
    if obs["how"] != "exit:0":
        # every generated command line names existing files only and the statement promises that an
        # unfindable #include is skipped, so any other ending contradicts it
        dm = re.search(r"error: class Own_([a-z0-9]+)_(\d+) has conflicting definition", obs["err"])
        if dm and int(dm.group(2)) in unit and primary.contrib.get(int(dm.group(2)), 0) <= 1:
            # the marker class was seen twice: the file contributed twice
            name = dm.group(1)
            us = [u for u in case["units"] if u["name"] == name]
            all_sites = [(u["id"], si) for u in case["units"] for si, st in enumerate(u["sites"]) if st["name"] == name]
            viol.append(dict(cat="included-twice", sites=all_sites, units=[u["id"] for u in us],
                             effect=dict(protect=unit[int(dm.group(2))]["protect"]),
                             detail=dict(argv=obs["argv"], cwd=run["cwd"], name=name, stderr=obs["err"][-900:])))
            return viol, feats, counters, None
        m = re.findall(r"(?m)^.*(?:rror|nable|failed).*$", obs["err"])
        msg = re.sub(r"\S*/\S*", "PATH", m[0])[:50] if m else ""
        msg = re.sub(r"[0-9]+", "N", msg)
        msg = re.sub(r"'[^']*'", "Q", msg)
        msg = re.sub(r"\b(mk|Own|Probe|pv|pt|main|h)_?[A-Za-z0-9_.]*", "ID", msg).strip().replace(" ", "-")
        viol.append(dict(cat="tool-failed", sites=[], units=[], effect=dict(how=obs["how"], msg=msg),
                         detail=dict(argv=obs["argv"], cwd=run["cwd"], stderr=obs["err"][-1500:])))
        return viol, feats, counters, None

    matching = [(i, w) for i, w in walks if _matches(run, obs, w)]

    if not matching:
        # the closest interpretation names the site
        best = min(walks, key=lambda iw: len(_name_diffs(case, run, obs, iw[1])))
        w = best[1]
        d = _name_diffs(case, run, obs, w)[0]
        name = d["name"]
        ents = [e for e in w.log if e["name"] == name]
        all_sites = [(u["id"], si) for u in case["units"] for si, s in enumerate(u["sites"]) if s["name"] == name]
        if tool == "parse_file":
            twice = any(k in d["exp_m"] and v > d["exp_m"][k] for k, v in d["got_m"].items()) \
                or (d["got_t"] == 1 and d["exp_t"] == 0 and set(d["got_m"]) == set(d["exp_m"]))
        else:
            twice = d["got_t"] == 1 and d["exp_t"] == 0 and d["got_v"] == d["exp_v"]
        detail = dict(argv=obs["argv"], cwd=run["cwd"], name=name, diff=_short(d), stderr=obs["err"][-600:])
        if twice:
            us = [u for u in case["units"] if u["name"] == name]
            viol.append(dict(cat="included-twice", sites=all_sites, units=[u["id"] for u in us],
                             effect=dict(protect=us[0]["protect"] if us else "?"), detail=detail))
            return viol, feats, counters, None
        if tool == "parse_file" and set(d["got_m"]) != set(d["exp_m"]):
            got_units = sorted(set(d["got_m"]) - set(d["exp_m"]))
            got_unit = got_units[0] if got_units else None
        else:
            got_unit = d["got_v"] - 1 if d["got_v"] else None
            if got_unit is not None and got_unit + 1 == d["exp_v"]:
                got_unit = None
        # first site of that name whose expected target differs from what was taken
        ent = None
        for e in ents:
            if (got_unit is None and e["unit"] is not None) or (got_unit is not None and e["unit"] != got_unit):
                ent = e
                break
        if ent is None and ents:
            ent = ents[0]
        effect = dict(form="?", expected="none", got="none", nS="", order="")
        sites = all_sites
        if ent is None:
            effect["expected"] = "unreached"
            effect["got"] = "some" if got_unit is not None else "none"
            if all_sites:
                effect["form"] = unit[all_sites[0][0]]["sites"][all_sites[0][1]]["form"]
        else:
            s0 = unit[ent["includer"]]["sites"][ent["site"]]
            sites = [(ent["includer"], ent["site"])]
            form = s0["form"]
            effect["expected"] = ent["kind"] or "none"
            if got_unit is not None and got_unit in unit:
                gp = os.path.realpath(os.path.join(root, unit[got_unit]["path"]))
                effect["got"] = "other"
                for k, dd, path, idx in w.candidates(s0, ent["path"], ent["phys"], full=True):
                    f = w.probe(path) or (_collapse_nosym(path) if os.path.isfile(_collapse_nosym(path)) else None)
                    if f and os.path.realpath(f) == gp:
                        effect["got"] = k
                        if idx is not None and ent["sidx"] is not None:
                            effect["order"] = "later-dir" if idx > ent["sidx"] else "earlier-dir"
                        break
            if form == "angle" and run["noangles"]:
                form = "angle+noangles"
            effect["form"] = form
            if form == "angle" and effect["expected"] == "none":
                effect["nS"] = "0" if not any(s["kind"] == "S" for s in run["search"]) else "some"
        viol.append(dict(cat="wrong-file", sites=sites, units=[], effect=effect, detail=detail))
        return viol, feats, counters, None

    # ---- the run matches the reference: record what was exercised ------------------------------
    counters["runs_matching_reference"] += 1
    w0 = matching[0][1]
    counters["sites_resolved"] += len(w0.log)
    for e in w0.log:
        s = unit[e["includer"]]["sites"][e["site"]]
        form = s["form"] + ("+noangles" if run["noangles"] and s["form"] == "angle" else "")
        feats.add("resolve:%s:%s:%s:%s:%s" % (tool, form, _class_path(case, s["operand"]), e["kind"] or "none",
                                             "nested" if unit[e["includer"]]["kind"] != "main" else "main"))
        if e["sidx"] is not None:
            sd = run["search"][e["sidx"]]
            feats.add("searchdir:%s:%s:%s" % (tool, sd["kind"], _class_path(case, sd["operand"], False)))
    for f in run["files"]:
        feats.add("cmdfile:%s:%s" % (tool, _class_path(case, f["operand"])))
    if run.get("srcdir"):
        feats.add("srcdir:%s" % _class_path(case, run["srcdir"]["operand"], False))
    if run["opts_after_files"]:
        feats.add("opts-after-files:%s" % tool)
    if len(run["search"]) >= 2:
        feats.add("search-order:%s:%s" % (tool, "".join(s["kind"] for s in run["search"])))

    # ---- missing files: warning (exit status is already known to be 0) --------------------------
    missing = set.intersection(*[set(w.missing) for _, w in matching])
    for uid, si in sorted(missing):
        s = unit[uid]["sites"][si]
        feats.add("missing:%s:%s:%s" % (tool, s["form"], _class_path(case, s["operand"])))
        counters["missing_sites"] += 1
        if run["verbose"]:
            base = os.path.basename(s["operand"])
            lines = obs["err"].splitlines()
            ok = any("warning" in ln.lower() and any(base in x for x in lines[i:i + 3]) for i, ln in enumerate(lines))
            if not ok:
                viol.append(dict(cat="missing-no-warning", sites=[(uid, si)], units=[], effect=dict(form=s["form"]),
                                 detail=dict(argv=obs["argv"], cwd=run["cwd"], operand=s["operand"], stderr=obs["err"][-600:])))
                break
    # ---- once-only, positive evidence ------------------------------------------------------------
    for u in case["units"]:
        if u["protect"] != "none" and w0.contrib.get(u["id"]):
            reach = [e for e in w0.log if e["unit"] == u["id"]]
            n_reach = len(reach) + sum(1 for f in run["files"] if f["unit"] == u["id"])
            if n_reach >= 2:
                sp = sorted({_class_path(case, unit[e["includer"]]["sites"][e["site"]]["operand"]) for e in reach})
                feats.add("once:%s:%s:%s" % (tool, u["protect"], "+".join(sp)))
                counters["once_only_files_reached_repeatedly"] += 1
    # ---- ownership (interrogate only) ------------------------------------------------------------
    if tool == "interrogate" and obs["own"] is not None:
        # A fact is 'must'/'must-not' only when EVERY admissible reading of what the statement leaves open
        # classifies it so -- not merely the readings this run happens to match: a run can match a reading
        # by coincidence (e.g. through a listed defect elsewhere in the same tree), and with -srcdir the
        # readings disagree on which directory 'the working directory' is, hence on ownership.
        owns = [ownership(case, w, root) for _, w in matching]
        owns_all = [ownership(case, w, root) for _, w in walks]
        for uid in sorted(owns[0]):
            cl = {o.get(uid, ("absent", []))[0] for o in owns}
            cl |= {o[uid][0] for o in owns_all if uid in o}
            kinds = owns[0][uid][1]
            if len(cl) != 1 or None in cl or "absent" in cl:
                counters["ownership_unspecified"] += 1
                continue
            cls = cl.pop()
            feats.add("own:%s:%s" % (cls, "+".join(kinds)))
            counters["ownership_facts"] += 1
            have = uid in obs["own"]
            sites = [(e["includer"], e["site"]) for e in w0.log if e["unit"] == uid]
            if cls == "must" and not have:
                viol.append(dict(cat="not-owned", sites=sites, units=[uid], effect=dict(route="+".join(kinds)),
                                 detail=dict(argv=obs["argv"], cwd=run["cwd"], unit=unit[uid]["path"], routes=kinds)))
            elif cls == "mustnot" and have:
                viol.append(dict(cat="owned-wrongly", sites=sites, units=[uid], effect=dict(route="+".join(kinds)),
                                 detail=dict(argv=obs["argv"], cwd=run["cwd"], unit=unit[uid]["path"], routes=kinds)))
    return viol, feats, counters, None


def _short(d):
    return {k: (dict(v) if isinstance(v, dict) else v) for k, v in d.items()}


BENIGN = ("plain",)


def _key(case, run, v):
    """key of a violation on a (minimised) single-run case: what is left of the hazardous spellings is the
    cause; without any, the effect (form, expected step, step taken) is the signature."""
    tool = run["tool"]
    unit = {u["id"]: u for u in case["units"]}
    causes = set()
    vsites = v["sites"]
    if v["cat"] == "not-owned" and "cmdline" in v["effect"]["route"].split("+"):
        vsites = []        # the file was named on the command line: how it was #included is immaterial
    if v["cat"] == "tool-failed":
        vsites = [(u["id"], si) for u in case["units"] for si in range(len(u["sites"]))]
    for uid, si in vsites:
        if uid in unit and si < len(unit[uid]["sites"]):
            c = _class_path(case, unit[uid]["sites"][si]["operand"])
            if c not in BENIGN:
                causes.add("operand:" + c)
    for s in run["search"]:
        c = _class_path(case, s["operand"], False)
        if c not in BENIGN:
            causes.add("dir:" + c)
    for f in run["files"]:
        c = _class_path(case, f["operand"])
        if c not in BENIGN:
            causes.add("file:" + c)
    if run.get("srcdir"):
        c = _class_path(case, run["srcdir"]["operand"], False)
        if c not in BENIGN:
            causes.add("srcdir:" + c)
    causes = sorted(causes)
    # what is left of a reduced case is needed for the violation: a '<symlink>/..' operand in ANY remaining
    # site (not only the sites that reach the judged unit) makes it an instance of the lexical-.. class
    other = set()
    for u in case["units"]:
        for st in u["sites"]:
            c = _class_path(case, st["operand"])
            if "symup" in c:
                other.add("operand:" + c)
    symup = [c for c in causes if "symup" in c] or sorted(other)
    if symup:
        where = {c.split(":")[0] for c in symup}
        first = next(x for x in ("srcdir", "file", "dir", "operand") if x in where)
        return "lexical-dotdot-across-symlink:tool=%s,where=%s" % (tool, first)
    e = v["effect"]
    if v["cat"] == "wrong-file":
        if causes:
            return "wrong-file:tool=%s,cause=%s" % (tool, "+".join(causes))
        k = "wrong-file:tool=%s,form=%s,expected=%s,got=%s" % (tool, e["form"], e["expected"], e["got"])
        if e.get("nS"):
            k += ",nS=" + e["nS"]
        if e.get("order"):
            k += ",taken=" + e["order"]
        return k
    if v["cat"] == "tool-failed":
        return "tool-failed:tool=%s,how=%s,msg=%s,cause=%s" % (tool, e["how"], e["msg"], "+".join(causes) or "-")
    if v["cat"] == "included-twice":
        return "included-twice:tool=%s,protect=%s,cause=%s" % (tool, e["protect"], "+".join(causes) or "-")
    if v["cat"] == "missing-no-warning":
        if causes:
            return "missing-no-warning:tool=%s,cause=%s" % (tool, "+".join(causes))
        return "missing-no-warning:tool=%s,form=%s" % (tool, e["form"])
    if v["cat"] == "not-owned" and "cmdline" in e["route"].split("+"):
        return "not-owned:named=cmdline,cause=%s" % ("+".join(causes) or "-")
    if not causes:
        # no hazardous spelling left: the effect is the signature (route by which the file arrived, -srcdir or not)
        return "%s:route=%s,srcdir=%s" % (v["cat"], e["route"], "yes" if run.get("srcdir") else "no")
    return "%s:route=%s,cause=%s" % (v["cat"], e["route"], "+".join(causes))


def _run_tree_once(ctx, case, tag):
    d = ctx.casedir("%s-%s" % (case["id"], tag))
    shutil.rmtree(d, ignore_errors=True)
    root = os.path.join(d, "root")
    out = os.path.join(d, "out")
    os.makedirs(out)
    treegen.materialise(case, root)
    res = []
    try:
        for run in case["runs"]:
            res.append(judge_run(case, run, root, out))
    finally:
        shutil.rmtree(d, ignore_errors=True)
    return res


# -- reductions ---------------------------------------------------------------------------------

def _copy(c):
    return json.loads(json.dumps(c))


def _drop_name(case, name):
    c = _copy(case)
    cmd_units = {f["unit"] for r in c["runs"] for f in r["files"]}
    c["units"] = [u for u in c["units"] if u["name"] != name or u["id"] in cmd_units]
    for u in c["units"]:
        u["sites"] = [s for s in u["sites"] if s["name"] != name]
    if not any(u["name"] == name for u in c["units"]):
        c["names"] = [n for n in c["names"] if n != name]
    return c


def _remove_tokens(av, toks):
    for i in range(len(av) - len(toks) + 1):
        if av[i:i + len(toks)] == toks:
            del av[i:i + len(toks)]
            return True
    return False


def _reductions(case, v=None):
    """candidate one-step simplifications of a single-run case, most drastic first"""
    run = case["runs"][0]
    unit = {u["id"]: u for u in case["units"]}
    # -- bulk steps first: they usually succeed and save most of the single steps
    if v is not None and v["sites"]:
        keep = {unit[uid]["sites"][si]["name"] for uid, si in v["sites"] if uid in unit and si < len(unit[uid]["sites"])}
        keep |= {unit[uid]["name"] for uid, _ in v["sites"] if uid in unit}
        grew = True
        while grew:
            grew = False
            for u in case["units"]:
                if u["name"] not in keep and any(st["name"] in keep for st in u["sites"]):
                    keep.add(u["name"])
                    grew = True
        drop = [n for n in case["names"] if n not in keep and not n.startswith("main")]
        if drop:
            def f(drop=drop):
                c = case
                for n in drop:
                    c = _drop_name(c, n)
                return c
            yield "bulk:names", f
    if len(run["search"]) > 1:
        def f():
            c = _copy(case)
            r = c["runs"][0]
            for sd in r["search"]:
                if not _remove_tokens(r["argv"], sd["tokens"]):
                    return None
            r["search"] = []
            return c
        yield "bulk:search", f
    used = set()
    for u in case["units"]:
        for st in u["sites"]:
            used.update(st["operand"].split("/"))
    for sd in run["search"]:
        used.update(sd["operand"].split("/"))
    for fl in run["files"]:
        used.update(fl["operand"].split("/"))
    if run.get("srcdir"):
        used.update(run["srcdir"]["operand"].split("/"))
    # a directory symlink that still occurs in some spelling stays (dropping it would turn a symlink case into
    # a missing-directory case); file symlinks may go whenever the violation persists without them
    free = [x for x in case["symlinks"] if x[1].endswith(".h") or os.path.basename(x[0]) not in used]
    if len(free) > 1:
        yield "bulk:symlinks", lambda: dict(_copy(case), symlinks=[x for x in case["symlinks"] if x not in free])
    if True:
        def f():
            c = _copy(case)
            r = c["runs"][0]
            ch = False
            for sd in r["search"]:
                new = ["-" + sd["kind"], "@R/" + sd["dir"]]
                if sd["tokens"] == new:
                    continue
                av = r["argv"]
                for j in range(len(av) - len(sd["tokens"]) + 1):
                    if av[j:j + len(sd["tokens"])] == sd["tokens"]:
                        av[j:j + len(sd["tokens"])] = new
                        break
                else:
                    return None
                sd["tokens"], sd["operand"], sd["spell"] = new, "@R/" + sd["dir"], "abs"
                ch = True
            for fl in r["files"]:
                target = "@R/" + unit[fl["unit"]]["path"]
                if fl["operand"] != target and fl["operand"] in r["argv"]:
                    r["argv"][r["argv"].index(fl["operand"])] = target
                    fl["operand"], fl["spell"] = target, "f-abs"
                    ch = True
            if r.get("srcdir") and r["srcdir"]["operand"] != "@R/" + r["srcdir"]["dir"] and r["srcdir"]["operand"] in r["argv"]:
                r["argv"][r["argv"].index(r["srcdir"]["operand"])] = "@R/" + r["srcdir"]["dir"]
                r["srcdir"]["operand"], r["srcdir"]["spell"] = "@R/" + r["srcdir"]["dir"], "abs"
                ch = True
            return c if ch else None
        yield "bulk:respell", f
    for n in case["names"]:
        if not n.startswith("main"):
            yield "name:" + n, lambda n=n: _drop_name(case, n)
    for u in case["units"]:
        for si in range(len(u["sites"])):
            def f(uid=u["id"], si=si):
                c = _copy(case)
                for x in c["units"]:
                    if x["id"] == uid:
                        del x["sites"][si]
                return c
            yield "site:%d:%s:%d" % (u["id"], u["sites"][si]["operand"],
                                     sum(1 for x in u["sites"][:si] if x["operand"] == u["sites"][si]["operand"])), f
    for i in range(len(run["search"])):
        def f(i=i):
            c = _copy(case)
            r = c["runs"][0]
            if not _remove_tokens(r["argv"], r["search"][i]["tokens"]):
                return None
            del r["search"][i]
            return c
        yield "search:%s:%d" % (run["search"][i]["operand"],
                                sum(1 for x in run["search"][:i] if x["operand"] == run["search"][i]["operand"])), f
    if len(run["files"]) > 1:
        for i, fl in enumerate(run["files"]):
            if unit[fl["unit"]]["kind"] != "main":
                def f(i=i):
                    c = _copy(case)
                    r = c["runs"][0]
                    if not _remove_tokens(r["argv"], [r["files"][i]["operand"]]):
                        return None
                    del r["files"][i]
                    return c
                yield "file:" + fl["operand"], f
    if run["noangles"]:
        def f():
            c = _copy(case)
            r = c["runs"][0]
            _remove_tokens(r["argv"], ["-noangles"])
            r["noangles"] = False
            return c
        yield "noangles", f
    if run.get("srcdir"):
        def f():
            c = _copy(case)
            r = c["runs"][0]
            if not _remove_tokens(r["argv"], ["-srcdir", r["srcdir"]["operand"]]):
                return None
            # relative -I/-S operands were relative to the old start directory: make them absolute first
            for s in r["search"]:
                if not s["operand"].startswith("@R"):
                    return None
            r["cwd"] = r["srcdir"]["dir"]
            r["srcdir"] = None
            return c
        yield "srcdir", f
    for i, s in enumerate(run["search"]):
        if s["operand"] != "@R/" + s["dir"]:
            def f(i=i):
                c = _copy(case)
                r = c["runs"][0]
                s = r["search"][i]
                new = ["-" + s["kind"], "@R/" + s["dir"]]
                av = r["argv"]
                for j in range(len(av) - len(s["tokens"]) + 1):
                    if av[j:j + len(s["tokens"])] == s["tokens"]:
                        av[j:j + len(s["tokens"])] = new
                        break
                else:
                    return None
                s["tokens"], s["operand"], s["spell"] = new, "@R/" + s["dir"], "abs"
                return c
            yield "respell-search:%s:%d" % (s["operand"], sum(1 for x in run["search"][:i] if x["operand"] == s["operand"])), f
    for i, fl in enumerate(run["files"]):
        target = "@R/" + unit[fl["unit"]]["path"]
        if fl["operand"] != target:
            def f(i=i, target=target):
                c = _copy(case)
                r = c["runs"][0]
                old = r["files"][i]["operand"]
                if old not in r["argv"]:
                    return None
                r["argv"][r["argv"].index(old)] = target
                r["files"][i]["operand"], r["files"][i]["spell"] = target, "f-abs"
                return c
            yield "respell-file:" + fl["operand"], f
    if run.get("srcdir") and run["srcdir"]["operand"] != "@R/" + run["srcdir"]["dir"]:
        def f():
            c = _copy(case)
            r = c["runs"][0]
            old = r["srcdir"]["operand"]
            if old not in r["argv"]:
                return None
            r["argv"][r["argv"].index(old)] = "@R/" + r["srcdir"]["dir"]
            r["srcdir"]["operand"], r["srcdir"]["spell"] = "@R/" + r["srcdir"]["dir"], "abs"
            return c
        yield "respell-srcdir", f
    for path, target in free:
        def f(path=path):
            c = _copy(case)
            c["symlinks"] = [x for x in c["symlinks"] if x[0] != path]
            return c
        yield "symlink:" + path, f


class _Disturbed(Exception):
    pass


def _minimise(ctx, case, ri, cat):
    try:
        return _minimise1(ctx, case, ri, cat)
    except _Disturbed:
        return None, None


def _minimise1(ctx, case, ri, cat):
    """greedy reduction of a violating tree to a single run with as few names, sites, search directories,
    symlinks and hazardous spellings as still show a violation of the same category"""
    budget = [34]

    def find(c):
        if budget[0] <= 0:
            return None
        budget[0] -= 1
        try:
            rs = _run_tree_once(ctx, c, "m%d" % budget[0])
        except core.HarnessError:
            # e.g. the shared build being relinked under us: no verdict from a disturbed reduction
            raise _Disturbed()
        except Exception:
            return None            # the reduction step produced a case the machinery cannot run: step refused
        if rs[0][3] == "timeout":
            raise _Disturbed()
        for v in rs[0][0]:
            if v["cat"] == cat:
                return v
        return None

    cur = _copy(case)
    cur["runs"] = [cur["runs"][ri]]
    v = find(cur)
    if v is None:
        budget[0] += 1
        v = find(cur)
    if v is None:
        return None, None
    progress = True
    tried = set()
    ops_round = 0
    while progress and budget[0] > 0:
        progress = False
        for label, f in _reductions(cur, v):
            if not label.startswith("bulk:") and ops_round == 0:
                # the bulk steps are through: normalise the operands before the single steps
                ops_round = 1
                c = _normalise_operands(ctx, cur, v)
                if c is not None:
                    v2 = find(c)
                    if v2 is not None:
                        cur, v = c, v2
                        progress = True
                        break
            if label in tried:
                continue
            tried.add(label)
            c = f()
            if c is None or json.dumps(c, sort_keys=True) == json.dumps(cur, sort_keys=True):
                continue
            v2 = find(c)
            if v2 is not None:
                cur, v = c, v2
                progress = True
                break
        # operand normalisation of the sites involved, one site at a time, once nothing else can be dropped
        if not progress:
            unit = {u["id"]: u for u in cur["units"]}
            for uid, si in (v["sites"] or []):
                if uid not in unit or si >= len(unit[uid]["sites"]):
                    continue
                label = "normop:%d:%s" % (uid, unit[uid]["sites"][si]["operand"])
                if label in tried or _class_path(cur, unit[uid]["sites"][si]["operand"]) in BENIGN:
                    continue
                tried.add(label)
                c = _normalise_operands(ctx, cur, v, only=(uid, si))
                if c is None:
                    continue
                v2 = find(c)
                if v2 is not None:
                    cur, v = c, v2
                    progress = True
                    break
    return cur, v


def _normalise_operands(ctx, case, v, only=None):
    """rewrite the operand of the violating sites (all, or only the one given as (unit id, site index)) to the
    plain relative path from the first directory of the (full) stated order under which the operand names a
    file to that physical file"""
    d = ctx.casedir("%s-norm" % case["id"])
    shutil.rmtree(d, ignore_errors=True)
    root = os.path.join(d, "root")
    try:
        treegen.materialise(case, root)
        run = case["runs"][0]
        w = walk(case, run, root, _interps_for(run)[0])
        c = _copy(case)
        unit = {u["id"]: u for u in c["units"]}
        changed = False
        vs = v["sites"] or [(u["id"], si) for u in case["units"] for si in range(len(u["sites"]))]
        if only is not None:
            vs = [only]
        for uid, si in vs:
            if uid not in unit or si >= len(unit[uid]["sites"]):
                continue
            site = unit[uid]["sites"][si]
            if _class_path(case, site["operand"]) in BENIGN:
                continue
            e = next((e for e in w.log if e["includer"] == uid and e["site"] == si), None)
            if e is None:
                continue
            for k, base, path, idx in w.candidates(site, e["path"], e["phys"], full=True):
                if not os.path.isfile(path) and os.path.isfile(_collapse_nosym(path)):
                    path = _collapse_nosym(path)
                if os.path.isfile(path):
                    new = os.path.relpath(os.path.realpath(path), os.path.realpath(base))
                    if new != site["operand"] and _class_path(case, new) in BENIGN:
                        site["operand"] = new
                        changed = True
                    break
        return c if changed else None
    finally:
        shutil.rmtree(d, ignore_errors=True)


def run_tree(ctx, case):
    res = core.CaseResult()
    rs = _run_tree_once(ctx, case, "x")
    for ri, (viol, feats, counters, inc) in enumerate(rs):
        res.features |= feats
        for k, n in counters.items():
            res.count(k, n)
        if inc:
            res.inconclusive = inc
        done = set()
        for v in viol:
            if v["cat"] in done:
                continue
            done.add(v["cat"])
            if case.get("no_minimise"):
                mc, mv = dict(case, runs=[case["runs"][ri]]), v
            else:
                mc, mv = _minimise(ctx, case, ri, v["cat"])
                if mc is None:
                    # the same run, repeated twice on a fresh copy of the tree, did not show the violation again:
                    # not a reproducible witness (seen only when the machine is badly overloaded)
                    res.inconclusive = "violation not reproduced on re-run"
                    res.count("unreproduced_violations", 1)
                    continue
            key = _key(mc, mc["runs"][0], mv)
            detail = dict(mv["detail"])
            detail["effect"] = mv["effect"]
            detail["run"] = ri
            detail["minimal_case"] = mc if mc.get("units") != case.get("units") or len(case["runs"]) > 1 else "same as case"
            res.violation(key, **detail)
    res.count("trees", 1)
    if case["id"].endswith("0") or case["id"].endswith("5"):
        r0 = case["runs"][0]
        res.sample = dict(id=case["id"], focus=case["focus"], files=[u["path"] for u in case["units"]],
                          symlinks=case["symlinks"], cwd=r0["cwd"], argv=r0["argv"],
                          main_sites=[s["form"] + ":" + s["operand"] for s in case["units"][0]["sites"]])
    return res


# ---------------------------------------------------------------------------------------------
# Filename harness
# ---------------------------------------------------------------------------------------------

FN_DIRS = ["@R", "@R/a", "@R/a/b", "@R/b/", "@R//a", "@R/a/./b", "@R/a/../b", "@R/a/b/a"]


def _fname_tree(root, variant):
    """depth 1: a/ b/ ; depth 2: a/a/ a/b/ b/a/ b/b(file) ; depth 3 under each dir: a/ b(file) ;
    depth 4: a(file).  The symlink variant replaces a/b/a by a symlink to ../../b/a."""
    def mk(p):
        os.makedirs(os.path.join(root, p), exist_ok=True)

    def fl(p):
        with open(os.path.join(root, p), "w") as f:
            f.write("x")
    for d in ("a/a", "a/b", "b/a"):
        mk(d)
        mk(d + "/a")
        fl(d + "/b")
        fl(d + "/a/a")
    fl("b/b")
    if variant == "symlink":
        shutil.rmtree(os.path.join(root, "a/b/a"))
        os.symlink("../../b/a", os.path.join(root, "a/b/a"))


def _norm(p):
    n = os.path.normpath(p)
    if n.startswith("//"):
        n = "/" + n.lstrip("/")
    return n


def _fname_records(root, paths):
    """run the harness over `paths` (already with @R expanded); -> (records, crashes)"""
    exe = _harness(HARNESS)
    cwd = os.path.join(root, "a", "b")
    dirs = [d.replace("@R", root) for d in FN_DIRS]
    recs, crashes = [], []
    todo = list(paths)
    guard = 0
    while todo and guard < 25:
        guard += 1
        r = core.run([exe, cwd] + dirs, input=("\n".join(todo) + "\n").encode(), timeout=300)
        lines = r.out.split("\n")
        done = 0
        for ln in lines:
            f = ln.split("\t")
            if len(f) == 9 + 2 * len(dirs) and done < len(todo) and f[0] == todo[done]:
                recs.append(f)
                done += 1
            elif ln:
                break
        if r.timed_out:
            raise core.HarnessError("fname_harness timed out")
        if done == len(todo) and r.rc == 0:
            break
        if done < len(todo):
            crashes.append((todo[done], r))
            todo = todo[done + 1:]
        else:
            break
    return recs, crashes


def _abs(cwd, p):
    return p if p.startswith("/") else os.path.join(cwd, p)


def _stat(cwd, p):
    """(st_dev, st_ino) of what the kernel says p denotes, or None"""
    try:
        st = os.stat(_abs(cwd, p))
    except OSError:
        return None
    return (st.st_dev, st.st_ino, st.st_mode)


def _exists(cwd, p):
    return _stat(cwd, p) is not None


def _judge_fname(root, rec, variant):
    """-> list of categories violated by one harness record"""
    import stat as _st
    cwd = os.path.join(root, "a", "b")
    p, s1, s2, a1, a2, cr, c1, c2, cwdok = rec[:9]
    rel = rec[9:]
    out = []
    sp = _stat(cwd, p)
    ex = sp is not None
    sym = "-symlink" if variant == "symlink" else ""

    def same(q):
        return q != "<EMPTY>" and _stat(cwd, q) == sp

    # standardize
    if s1 == "<EMPTY>":
        if ex:
            out.append("standardize-empty")
    else:
        if s2 != s1:
            out.append("not-idempotent:fn=standardize" + ("" if ex else ":exists=no"))
        if ex and not same(s1):
            out.append("denotation%s:fn=standardize" % sym)
    # make_absolute
    if a1 == "<EMPTY>":
        out.append("make_absolute-empty")
    else:
        if not a1.startswith("/"):
            out.append("make_absolute-not-absolute")
        if a2 != a1:
            out.append("not-idempotent:fn=make_absolute" + ("" if ex else ":exists=no"))
        if ex and not same(a1):
            out.append("denotation%s:fn=make_absolute" % sym)
    # make_canonical
    if c1 == "<EMPTY>":
        out.append("make_canonical-empty")
    else:
        if c2 != c1:
            out.append("not-idempotent:fn=make_canonical" + ("" if ex else ":exists=no"))
        if ex:
            if not same(c1):
                out.append("denotation%s:fn=make_canonical" % sym)
            elif _st.S_ISREG(sp[2]) and c1 != os.path.realpath(_abs(cwd, p)):
                # once-only inclusion rests on one canonical name per regular file
                out.append("canonical-not-unique")
    if cwdok != "1":
        out.append("make_canonical-changes-cwd")
    # make_relative_to
    if p.startswith("/"):
        dirs = [d.replace("@R", root) for d in FN_DIRS]
        np = _norm(p)
        for i, d in enumerate(dirs):
            for j, ab in enumerate(("backups", "nobackups")):
                f = rel[2 * i + j]
                if not f.startswith("1:"):
                    continue
                result = f[2:]
                if result == "<EMPTY>":
                    out.append("relative-to-empty:%s" % ab)
                    continue
                if _norm(d + "/" + result) != np:
                    out.append("relative-to-wrong:%s" % ab)
                elif result.startswith("/"):
                    out.append("relative-to-absolute:%s" % ab)
                elif ab == "nobackups" and result.split("/")[0] == "..":
                    out.append("relative-to-backs-up:nobackups")
    return sorted(set(out))


def _shape(p, root, cwd=None):
    """abstract a (minimised) path string: scratch prefix -> R; a name becomes d / f / n according to whether
    the prefix up to it is a directory, a regular file or nothing"""
    pre, body, base = "", p, cwd
    if p.startswith(root + "/"):
        pre, body, base = "R/", p[len(root) + 1:], root
    elif p.startswith("/"):
        base = "/"
    out = []
    cur = base or "."
    for c in body.split("/"):
        if c in ("a", "b"):
            cur = cur.rstrip("/") + "/" + c
            out.append("d" if os.path.isdir(cur) else "f" if os.path.isfile(cur) else "n")
        else:
            if c:
                cur = cur.rstrip("/") + "/" + c
            out.append(c)
    return pre + "/".join(out)


def _drops(p, root):
    """p with one component, or two adjacent components, removed"""
    pre = root + "/" if p.startswith(root + "/") else ""
    comps = p[len(pre):].split("/")
    out = []
    for k in (2, 1):
        for i in range(len(comps) - k + 1):
            c = "/".join(comps[:i] + comps[i + k:])
            if c and (pre or c != p):
                out.append(pre + c)
    return out


def _fname_paths(case, root):
    spec = case["paths"]
    if spec["mode"] == "list":
        return [p.replace("@R", root) for p in spec["paths"]]
    if spec["mode"] == "exhaustive":
        base = treegen.path_strings(spec["maxlen"])
    else:
        rng = random.Random("fname:%s" % spec["seed"])
        base = treegen.sample_path_strings(rng, spec["n"], spec["minlen"], spec["maxlen"])
    base = [p for p in base if p != ""]
    allp = base + [root + "/" + p for p in base]
    k, n = spec.get("chunk", 0), spec.get("nchunks", 1)
    return allp[k::n]


def run_fname(ctx, case):
    res = core.CaseResult()
    variant = case["variant"]
    d = ctx.casedir(case["id"])
    shutil.rmtree(d, ignore_errors=True)
    root = os.path.join(d, "r")
    try:
        _fname_tree(root, variant)
        paths = _fname_paths(case, root)
        recs, crashes = _fname_records(root, paths)
        res.count("path_strings_evaluated", len(recs))
        cwd = os.path.join(root, "a", "b")
        failing = collections.defaultdict(list)    # category -> [path]
        reported = set()
        for rec in recs:
            ex = _exists(cwd, rec[0])
            ncomp = rec[0][len(root) + 1:].count("/") + 1 if rec[0].startswith(root) else rec[0].count("/") + 1
            res.features.add("fname:%s:%s:%s:n=%d" % (variant, "abs" if rec[0].startswith("/") else "rel",
                                                      "exists" if ex else "absent", ncomp))
            if ex:
                res.count("existing_paths_checked_for_denotation")
            res.count("relative_to_true", sum(1 for f in rec[9:] if f.startswith("1:")))
            for cat in _judge_fname(root, rec, variant):
                failing[cat].append(rec[0])
        for p, r in crashes:
            key = "fname-crash:%s:%s" % (r.how(), "/".join(r.frames(2)))
            res.violation(key, path=_shape(p, root, cwd), how=r.how(), stderr=r.err[-800:])
        # lock-step minimisation: drop one component (or two adjacent ones) while the category persists
        for cat, ps in sorted(failing.items()):
            res.count("failing:" + cat, len(ps))
            work = {p: p for p in ps[:600]}
            for _ in range(10):
                cands = set()
                for cur in set(work.values()):
                    cands.update(_drops(cur, root))
                if not cands:
                    break
                crecs, _ = _fname_records(root, sorted(cands))
                bad = {rec[0] for rec in crecs if cat in _judge_fname(root, rec, variant)}
                changed = False
                for orig, cur in list(work.items()):
                    for c in _drops(cur, root):
                        if c in bad:
                            work[orig] = c
                            changed = True
                            break
                if not changed:
                    break
            shapes = collections.Counter(_shape(m, root, cwd) for m in work.values())
            for shape, n in sorted(shapes.items()):
                if cat.startswith("denotation-symlink") and ".." in shape.split("/"):
                    key = "lexical-dotdot-across-symlink:" + cat.split(":", 1)[1]
                elif cat.endswith(":exists=no"):
                    key = cat
                else:
                    key = "%s:shape=%s" % (cat, shape)
                ex = [o for o, m in work.items() if _shape(m, root, cwd) == shape][:3]
                detail = dict(category=cat, minimal=shape, count=n, examples=[_shape(e, root, cwd) for e in ex],
                              note="R = scratch tree root; harness cwd = R/a/b; d/f/n = existing directory / regular "
                                   "file / nonexistent name")
                if cat == "standardize-empty":
                    mm = next(m for m in work.values() if _shape(m, root, cwd) == shape)
                    r2 = core.run([_harness(HARNESS), "--twice-empty", cwd, mm], timeout=30)
                    detail["second_application"] = r2.how()
                if key not in reported:
                    reported.add(key)
                    res.violation(key, **detail)
        if case["id"].endswith("-0"):
            res.sample = dict(id=case["id"], variant=variant, n=len(recs),
                              first=[_shape(r[0], root, cwd) for r in recs[:4]],
                              record=dict(zip(["p", "standardize", "standardize2", "make_absolute", "make_absolute2",
                                               "canonical_ok", "make_canonical", "make_canonical2"],
                                              [x.replace(root, 'R') for x in recs[min(7, len(recs) - 1)][:8]])) if recs else None)
    finally:
        shutil.rmtree(d, ignore_errors=True)
    return res


# ---------------------------------------------------------------------------------------------
# entry points
# ---------------------------------------------------------------------------------------------

def run_case(ctx, case):
    if case["kind"] == "tree":
        return run_tree(ctx, case)
    if case["kind"] == "fname":
        return run_fname(ctx, case)
    raise core.HarnessError("unknown case kind " + str(case.get("kind")))


def main(chk):
    chk.rule = ("tree cases: a generated directory tree (<=5 dirs + symlinks) x parse_file/interrogate command line; "
                "a feature = (tool, include form, operand spelling, step of the stated order that satisfied the site "
                "[cwd/incdir/I/S/none], main-or-nested includer), (search-dir kind x spelling), command-line file spelling, "
                "-srcdir spelling, ownership fact (class x route), once-only file reached repeatedly (protection x spellings), "
                "missing-file site -- all measured from the reference walk of runs that matched it; "
                "fname cases: path strings over {a,b,.,..,empty}; a feature = (variant, abs/rel, exists/absent, #components)")
    chk.assumptions = [
        "the kernel's path resolution (os.path.isfile/realpath of CPython) is the authority for which file a path denotes",
        "os.path.normpath is the authority for lexical equality in the make_relative_to check (symlink-free tree)",
        "what the statement leaves open (includer's directory of a file reached through a file symlink: as found vs resolved; "
        "with -srcdir: which directory is 'the working directory' and the base of relative -I/-S) is enumerated, and a run "
        "is a violation only when it matches no admissible interpretation",
        "ownership is judged only where both readings of 'found in the working directory' (found by the working-directory "
        "step / resides in the working directory) agree",
        "interrogate prints warnings only at verbosity >= 2 (-v); the missing-file warning is checked for parse_file and "
        "for interrogate runs with -v",
    ]
    ntrees = chk.pick(1600, 12000)
    cases = []
    for i in range(ntrees):
        sub = "%d.%d" % (chk.seed, i)
        cases.append(treegen.gen_case(sub))
    for i in range(chk.pick(120, 1500)):
        cases.append(treegen.gen_case("o%d.%d" % (chk.seed, i), focus="order"))
    # Filename harness: exhaustive up to 4 (quick) / 6 (thorough) components, plus a seeded sample of longer ones
    maxlen = chk.pick(4, 6)
    nchunks = chk.pick(2, 24)
    for k in range(nchunks):
        cases.append(dict(kind="fname", id="fn-plain-%d" % k, variant="plain",
                          paths=dict(mode="exhaustive", maxlen=maxlen, chunk=k, nchunks=nchunks)))
    for k in range(chk.pick(2, 4)):
        cases.append(dict(kind="fname", id="fn-sample-%d" % k, variant="plain",
                          paths=dict(mode="sample", seed="%d.%d" % (chk.seed, k), n=chk.pick(1500, 5000),
                                     minlen=maxlen + 1, maxlen=maxlen + 2)))
    for k in range(chk.pick(1, 4)):
        cases.append(dict(kind="fname", id="fn-symlink-%d" % k, variant="symlink",
                          paths=dict(mode="exhaustive", maxlen=chk.pick(4, 5), chunk=k, nchunks=chk.pick(1, 4))))
    chk.extra["trees"] = ntrees + chk.pick(120, 1500)
    chk.extra["path_string_bound"] = maxlen
    chk.exhaustive = False
    chk.min_conclusive = 10
    chk.run_cases(__name__, cases)
    chk.extra["exhaustive_note"] = ("path strings over {a,b,.,..,empty} with <= %d components (relative and under the "
                                    "scratch root) are enumerated completely; trees are sampled" % maxlen)
