"""C17 -- include lookup, once-only inclusion and file ownership follow the stated rules.

Two workloads, both observing executions of the real (ASan+UBSan) code:

 * kind "tree":  treegen builds a small directory tree with same-named headers in several candidate
   directories (+ dir/file symlinks); parse_file and interrogate are run over it with -I/-S/-noangles/
   -srcdir in generated orders and spellings.  Observation: which unique marker declarations appear in
   the parse_file dump, the value of marker macros seen by a published probe enum (interrogate database,
   through idbdump), and which published marker classes are exported.  Oracle: a reference resolver that
   implements the *statement's* order (working directory, includer's directory, -I/-S in command-line
   order; <> only -S; -noangles merges) using the kernel's path resolution (os.path.isfile/realpath).
   Whatever the statement leaves open is enumerated as a set of admissible interpretations; a run is a
   violation only when it matches none of them.

 * kind "fname": fname_harness (linked with libdtoolutil.a) applies standardize / make_absolute /
   make_canonical / make_relative_to to all path strings over {a, b, ., .., empty}; oracle: idempotence,
   os.path.realpath for denotation, os.path.normpath for make_relative_to.
"""
import collections
import itertools
import json
import os
import random
import re
import shutil

from vf import core, tools
from vf.gen import treegen

LEVEL = "exploration"

HARNESS = "fname_harness"


# ---------------------------------------------------------------------------------------------
# tool paths (workers must not rebuild: prepare() did)
# ---------------------------------------------------------------------------------------------

_B = None


def _built():
    global _B
    if _B is None:
        root = os.path.join(core.CACHE, "asan")
        b = core.Built("asan", root, os.path.join(core.CACHE, "src"))
        if not (os.path.exists(b.interrogate) and os.path.exists(b.parse_file)):
            b = core.build("asan")
        _B = b
    return _B


def _harness(name):
    p = os.path.join(core.CACHE, "harness-asan", name)
    if not os.path.exists(p):
        if name == HARNESS:
            return core.build_harness(HARNESS, ["fname_harness.cxx"], libs=("dtoolutil", "dtoolbase"))
        return tools.idbdump_path()
    return p


def prepare(chk):
    core.build("asan")
    tools.idbdump_path()
    core.build_harness(HARNESS, ["fname_harness.cxx"], libs=("dtoolutil", "dtoolbase"))


# ---------------------------------------------------------------------------------------------
# reference resolver (the statement's order, kernel path semantics)
# ---------------------------------------------------------------------------------------------

def _join(base, op):
    if op.startswith("/"):
        return op
    if base.endswith("/"):
        return base + op
    return base + "/" + op


INTERPS = [dict(lex_incdir=a, wd_srcdir=b, search_srcdir=c)
           for a in (False, True) for b in (True, False) for c in (False, True)]


class Walk:
    pass


def walk(case, run, root, interp):
    """Expected contributions of one run under one interpretation of what the statement leaves open:
       lex_incdir     the including file's directory is the directory part of the path it was found by
                      (True) or of its symlink-resolved path (False)
       wd_srcdir      with -srcdir, 'the working directory' is the -srcdir directory (True) or the
                      directory the tool was started in (False)
       search_srcdir  with -srcdir, relative -I/-S operands are relative to -srcdir (True) or to the
                      directory the tool was started in (False)
    """
    units_by_phys = {}
    for u in case["units"]:
        units_by_phys[os.path.realpath(os.path.join(root, u["path"]))] = u
    inv = os.path.join(root, run["cwd"]) if run["cwd"] != "." else root
    inv = os.path.normpath(inv)
    R = lambda s: s.replace("@R", root)
    if run.get("srcdir"):
        files_base = _join(inv, R(run["srcdir"]["operand"]))
    else:
        files_base = inv
    wd = files_base if interp["wd_srcdir"] else inv
    sbase = files_base if interp["search_srcdir"] else inv
    search = [(s["kind"], _join(sbase, R(s["operand"])), i) for i, s in enumerate(run["search"])]
    noangles = run["noangles"]

    w = Walk()
    w.contrib = collections.Counter()
    w.routes = collections.defaultdict(list)
    w.log = []
    w.missing = []
    w.snapshot = None
    w.unknown = False
    w.wd = wd
    w.named = set()
    seen = set()
    V = {}
    cnt = collections.Counter()

    def candidates(site, found_path, phys):
        op = R(site["operand"])
        quote = site["form"] == "quote" or noangles
        c = []
        if quote:
            c.append(("cwd", _join(wd, op), None))
            incdir = os.path.dirname(found_path if interp["lex_incdir"] else phys)
            c.append(("incdir", _join(incdir, op), None))
            for k, d, i in search:
                c.append((k, _join(d, op), i))
        else:
            for k, d, i in search:
                if k == "S":
                    c.append((k, _join(d, op), i))
        return c

    w.candidates = candidates

    def include(found_path, route, depth):
        if depth > 12:
            w.unknown = True
            return
        phys = os.path.realpath(found_path)
        u = units_by_phys.get(phys)
        if u is None:
            w.unknown = True
            return
        if u["protect"] != "none" and phys in seen:
            return
        seen.add(phys)
        w.contrib[u["id"]] += 1
        w.routes[u["id"]].append(route)
        cnt[u["name"]] += 1
        V[u["name"]] = u["id"] + 1
        for si, site in enumerate(u["sites"]):
            hit = None
            cands = candidates(site, found_path, phys)
            for k, path, idx in cands:
                if os.path.isfile(path):
                    hit = (k, path, idx)
                    break
            tu = units_by_phys.get(os.path.realpath(hit[1])) if hit else None
            w.log.append(dict(includer=u["id"], site=si, name=site["name"], kind=hit[0] if hit else None,
                              sidx=hit[2] if hit else None, unit=tu["id"] if tu else None,
                              path=found_path, phys=phys))
            if hit is None:
                w.missing.append((u["id"], si))
            else:
                include(hit[1], hit[0], depth + 1)
        if u["kind"] == "main":
            w.snapshot = {n: (V.get(n, 0), 1 if cnt[n] >= 2 else 0) for n in case["names"]}

    for f in run["files"]:
        path = _join(files_base, R(f["operand"]))
        if not os.path.isfile(path):
            w.unknown = True
            continue
        w.named.add(os.path.realpath(path))
    for f in run["files"]:
        path = _join(files_base, R(f["operand"]))
        if os.path.isfile(path):
            include(path, "cmdline", 0)
    return w


def ownership(case, w, root):
    """unit id -> 'must' | 'mustnot' | None (unspecified), for units that contribute under this walk"""
    out = {}
    wdp = os.path.realpath(w.wd)
    for u in case["units"]:
        uid = u["id"]
        if not w.contrib.get(uid):
            continue
        phys = os.path.realpath(os.path.join(root, u["path"]))
        in_wd = os.path.dirname(phys) == wdp
        routes = w.routes[uid]
        if phys in w.named:
            out[uid] = "must"
        elif all(r == "cwd" for r in routes) and in_wd:
            out[uid] = "must"
        elif all(r != "cwd" for r in routes) and not in_wd:
            out[uid] = "mustnot"
        else:
            out[uid] = None
    return out


# ---------------------------------------------------------------------------------------------
# running one tree
# ---------------------------------------------------------------------------------------------

MK = re.compile(r"\bmk_([a-z0-9]+)_(\d+)\b")
PV = re.compile(r"\bp([vt])_(\d+)_([a-z0-9]+)\s*=\s*(\d+)")


def _observe(case, run, root, out):
    b = _built()
    argv = [a.replace("@R", root).replace("@O", out) for a in run["argv"]]
    cwd = root if run["cwd"] == "." else os.path.join(root, run["cwd"])
    exe = b.parse_file if run["tool"] == "parse_file" else b.interrogate
    odb = os.path.join(out, "out.in")
    if os.path.exists(odb):
        os.unlink(odb)
    r = core.run([exe] + argv, timeout=30, cwd=cwd)
    if r.timed_out:
        r = core.run([exe] + argv, timeout=60, cwd=cwd)
    obs = dict(rc=r.rc, how=r.how(), err=r.err, markers=None, snapshot=None, own=None, argv=argv)
    if r.timed_out or r.died():
        return obs
    main_id = next(u["id"] for u in case["units"] if u["kind"] == "main")
    if run["tool"] == "parse_file":
        obs["markers"] = collections.Counter(int(m.group(2)) for m in MK.finditer(r.out))
        snap = {}
        for m in PV.finditer(r.out):
            if int(m.group(2)) == main_id:
                snap.setdefault(m.group(3), [0, 0])[0 if m.group(1) == "v" else 1] = int(m.group(4))
        obs["snapshot"] = {k: tuple(v) for k, v in snap.items()} if snap else None
    else:
        if r.rc != 0 or not os.path.exists(odb):
            return obs
        rd, d = tools.idbdump([odb])
        if d is None:
            obs["how"] = "idbdump:" + rd.how()
            obs["err"] = rd.err
            return obs
        snap = {}
        own = set()
        for t in d["types"]:
            if t["name"] == "Probe_%d" % main_id:
                for ev in t.get("enum_values") or []:
                    m = re.match(r"p([vt])_(\d+)_([a-z0-9]+)$", ev["name"])
                    if m:
                        snap.setdefault(m.group(3), [0, 0])[0 if m.group(1) == "v" else 1] = ev["value"]
            m = re.match(r"Own_([a-z0-9]+)_(\d+)$", t["name"])
            if m:
                own.add(int(m.group(2)))
        obs["snapshot"] = {k: tuple(v) for k, v in snap.items()} if snap else None
        obs["own"] = own
    return obs


def _matches(run, obs, w):
    if w.snapshot != obs["snapshot"]:
        return False
    if run["tool"] == "parse_file":
        return dict(obs["markers"]) == dict(w.contrib)
    return True


def _name_diffs(case, run, obs, w):
    """names whose observation differs from walk w -> description"""
    diffs = []
    unit = {u["id"]: u for u in case["units"]}
    es, os_ = w.snapshot or {}, obs["snapshot"] or {}
    for n in case["names"]:
        e, o = es.get(n, (0, 0)), os_.get(n, (0, 0))
        em = {k: v for k, v in w.contrib.items() if unit[k]["name"] == n}
        om = em
        if run["tool"] == "parse_file":
            om = {k: v for k, v in obs["markers"].items() if k in unit and unit[k]["name"] == n}
        if e != o or em != om:
            diffs.append(dict(name=n, exp_v=e[0], got_v=o[0], exp_t=e[1], got_t=o[1], exp_m=em, got_m=om))
    return diffs


def _interps_for(run):
    if run.get("srcdir"):
        return INTERPS
    return [i for i in INTERPS if i["wd_srcdir"] and not i["search_srcdir"]]


def _spell_of_dir(run, idx):
    return run["search"][idx]["spell"] if idx is not None else "-"


def judge_run(case, run, root, out):
    """-> (violations [(key, detail)], features set, counters dict, inconclusive or None)"""
    viol, feats, counters = [], set(), collections.Counter()
    obs = _observe(case, run, root, out)
    tool = run["tool"]
    walks = [(i, walk(case, run, root, i)) for i in _interps_for(run)]
    if any(w.unknown for _, w in walks):
        return viol, feats, counters, "generator produced a tree the reference cannot classify"
    primary = walks[0][1]
    unit = {u["id"]: u for u in case["units"]}
    counters["tool_runs"] += 1
    if obs["how"] == "timeout":
        return viol, feats, counters, "timeout"
    if obs["how"] != "exit:0":
        # the statement promises that an unfindable file is skipped; every generated command line names
        # existing files only, so any other ending is a failure to do what the statement says
        sig = obs["how"]
        if sig.startswith("exit:"):
            m = re.findall(r"(?m)^.*(?:error|Error).*$", obs["err"])
            kind = "error" if m else "exit"
            msg = re.sub(r"\S*/", "", m[0])[:60] if m else ""
            msg = re.sub(r"[0-9]+", "N", msg)
            msg = re.sub(r"(mk|Own|h|main|Probe|pv|pt)_?[A-Za-z0-9_]*", "ID", msg)
            sig = "%s,%s:%s" % (obs["how"], kind, msg.strip())
        nm = len(primary.missing)
        viol.append(("tool-failed:tool=%s,missing=%s,how=%s" % (tool, "yes" if nm else "no", sig),
                     dict(argv=obs["argv"], stderr=obs["err"][-1500:])))
        return viol, feats, counters, None

    matching = [(i, w) for i, w in walks if _matches(run, obs, w)]
    counters["sites_resolved"] += len(primary.log)
    for e in primary.log:
        s = unit[e["includer"]]["sites"][e["site"]]
        form = s["form"] + ("+noangles" if run["noangles"] and s["form"] == "angle" else "")
        feats.add("resolve:%s:%s:%s:%s:%s" % (tool, form, s["spell"], e["kind"] or "none",
                                             "nested" if unit[e["includer"]]["kind"] != "main" else "main"))
        if e["sidx"] is not None:
            feats.add("searchdir:%s:%s:%s" % (tool, run["search"][e["sidx"]]["kind"], run["search"][e["sidx"]]["spell"]))
    for f in run["files"]:
        feats.add("cmdfile:%s:%s" % (tool, f["spell"]))
    if run.get("srcdir"):
        feats.add("srcdir:%s" % run["srcdir"]["spell"])
    if run["opts_after_files"]:
        feats.add("opts-after-files:%s" % tool)

    if not matching:
        # closest interpretation names the site
        best = min(walks, key=lambda iw: len(_name_diffs(case, run, obs, iw[1])))
        w = best[1]
        diffs = _name_diffs(case, run, obs, w)
        d = diffs[0]
        name = d["name"]
        sites = [e for e in w.log if e["name"] == name]
        all_sites = [(u, s) for u in case["units"] for s in u["sites"] if s["name"] == name]
        if run["tool"] == "parse_file":
            twice = any(v > d["exp_m"].get(k, 0) and k in d["exp_m"] for k, v in d["got_m"].items()) \
                or (d["got_t"] == 1 and d["exp_t"] == 0 and set(d["got_m"]) == set(d["exp_m"]))
        else:
            twice = d["got_t"] == 1 and d["exp_t"] == 0 and d["got_v"] == d["exp_v"]
        if twice:
            us = [u for u in case["units"] if u["name"] == name]
            spells = sorted({s["spell"] for _, s in all_sites} | {("cmd:" + f["spell"]) for f in run["files"]
                                                                 if unit[f["unit"]]["name"] == name})
            key = "included-twice:tool=%s,protect=%s,spellings=%s" % (tool, us[0]["protect"] if us else "?", "+".join(spells))
        else:
            # which file did the tool take, and which step of the stated order would have produced it?
            if run["tool"] == "parse_file":
                got_units = sorted(set(d["got_m"]) - set(d["exp_m"])) or sorted(d["got_m"])
                got_unit = got_units[0] if d["got_m"] else None
                if set(d["got_m"]) == set(d["exp_m"]):
                    got_unit = d["got_v"] - 1 if d["got_v"] else None
            else:
                got_unit = d["got_v"] - 1 if d["got_v"] else None
            site_e = sites[0] if sites else None
            exp_kind, got_kind, dsp, form, spell, nested = "none", "none", "-", "?", "?", "?"
            if site_e is None and all_sites:
                # the site was never reached in the reference walk (its includer was not included)
                u0, s0 = all_sites[0]
                form, spell = s0["form"], s0["spell"]
                exp_kind = "unreached"
                got_kind = "some" if got_unit is not None else "none"
            elif site_e is not None:
                inc = unit[site_e["includer"]]
                s0 = inc["sites"][site_e["site"]]
                form, spell = s0["form"], s0["spell"]
                nested = "nested" if inc["kind"] != "main" else "main"
                exp_kind = site_e["kind"] or "none"
                if site_e["sidx"] is not None:
                    dsp = _spell_of_dir(run, site_e["sidx"])
                if got_unit is not None and got_unit in unit:
                    gp = os.path.realpath(os.path.join(root, unit[got_unit]["path"]))
                    got_kind = "other"
                    # candidates of the *full* quote order, so that e.g. an angle include satisfied from
                    # the working directory is named as such
                    s_q = dict(s0, form="quote")
                    for k, path, idx in w.candidates(s_q, site_e["path"], site_e["phys"]):
                        if os.path.isfile(path) and os.path.realpath(path) == gp:
                            got_kind = k
                            if idx is not None and dsp == "-":
                                dsp = _spell_of_dir(run, idx)
                            break
            if run["noangles"] and form == "angle":
                form = "angle+noangles"
            key = "wrong-file:tool=%s,form=%s,spell=%s,incl=%s,expected=%s,got=%s,dirspell=%s" % (
                tool, form, spell, nested, exp_kind, got_kind, dsp)
            if run["tool"] == "interrogate" or True:
                ns = sum(1 for s in run["search"] if s["kind"] == "S")
                if form.startswith("angle") and exp_kind == "none":
                    key += ",nS=%s" % ("0" if ns == 0 else "some")
            if run.get("srcdir"):
                key += ",srcdir=%s" % run["srcdir"]["spell"]
            if "incdir" in (exp_kind, got_kind) and nested == "main":
                key += ",filespell=%s" % run["files"][0]["spell"]
        viol.append((key, dict(argv=obs["argv"], cwd=run["cwd"], name=name, diff=_short(d), stderr=obs["err"][-600:])))
        return viol, feats, counters, None

    counters["runs_matching_reference"] += 1
    # --- missing files: warning + exit status (exit status already known to be 0) -------------
    miss_sets = [set(w.missing) for _, w in matching]
    missing = set.intersection(*miss_sets) if miss_sets else set()
    for uid, si in sorted(missing):
        s = unit[uid]["sites"][si]
        feats.add("missing:%s:%s:%s" % (tool, s["form"], s["spell"]))
        counters["missing_sites"] += 1
        if run["verbose"]:
            base = os.path.basename(s["operand"])
            lines = obs["err"].splitlines()
            ok = False
            for i, ln in enumerate(lines):
                if "warning" in ln.lower() and any(base in x for x in lines[i:i + 3]):
                    ok = True
                    break
            if not ok:
                viol.append(("missing-no-warning:tool=%s,form=%s" % (tool, s["form"]),
                             dict(argv=obs["argv"], operand=s["operand"], stderr=obs["err"][-600:])))
    # --- once-only, positive evidence -----------------------------------------------------------
    for _, w in matching[:1]:
        for u in case["units"]:
            if u["protect"] != "none" and w.contrib.get(u["id"]):
                n_sites = sum(1 for e in w.log if e["unit"] == u["id"]) + \
                    sum(1 for f in run["files"] if f["unit"] == u["id"])
                if n_sites >= 2:
                    sp = sorted({unit[e["includer"]]["sites"][e["site"]]["spell"] for e in w.log if e["unit"] == u["id"]})
                    feats.add("once:%s:%s:%s" % (tool, u["protect"], "+".join(sp)))
                    counters["once_only_files_reached_repeatedly"] += 1
    # --- ownership (interrogate only) -----------------------------------------------------------
    if tool == "interrogate" and obs["own"] is not None:
        owns = [ownership(case, w, root) for _, w in matching]
        for uid in sorted(owns[0]):
            classes = {o.get(uid, "absent") for o in owns}
            routes = sorted({r for _, w in matching for r in w.routes.get(uid, [])})
            if len(classes) != 1 or None in classes or "absent" in classes:
                counters["ownership_unspecified"] += 1
                continue
            cls = classes.pop()
            named = os.path.realpath(os.path.join(root, unit[uid]["path"])) in matching[0][1].named
            fsp = "-"
            for f in run["files"]:
                if f["unit"] == uid:
                    fsp = f["spell"]
            feats.add("own:%s:%s:%s" % (cls, "+".join(routes), fsp if named else "-"))
            counters["ownership_facts"] += 1
            have = uid in obs["own"]
            if cls == "must" and not have:
                viol.append(("not-owned:named=%s,first=%s,filespell=%s" % ("cmdline" if named else "no", routes[0], fsp),
                             dict(argv=obs["argv"], unit=unit[uid]["path"], routes=routes)))
            elif cls == "mustnot" and have:
                dsp = "-"
                for e in matching[0][1].log:
                    if e["unit"] == uid and e["sidx"] is not None:
                        dsp = _spell_of_dir(run, e["sidx"])
                viol.append(("owned-wrongly:route=%s,dirspell=%s" % ("+".join(routes), dsp),
                             dict(argv=obs["argv"], unit=unit[uid]["path"], routes=routes)))
    return viol, feats, counters, None


def _short(d):
    return {k: (dict(v) if isinstance(v, dict) else v) for k, v in d.items()}


def _run_tree_once(ctx, case, tag):
    d = ctx.casedir("%s-%s" % (case["id"], tag))
    shutil.rmtree(d, ignore_errors=True)
    root = os.path.join(d, "root")
    out = os.path.join(d, "out")
    os.makedirs(out)
    treegen.materialise(case, root)
    res = []
    try:
        for ri, run in enumerate(case["runs"]):
            res.append(judge_run(case, run, root, out))
    finally:
        shutil.rmtree(d, ignore_errors=True)
    return res


def _drop_name(case, name):
    c = json.loads(json.dumps(case))
    cmd_units = {f["unit"] for r in c["runs"] for f in r["files"]}
    c["units"] = [u for u in c["units"] if u["name"] != name or u["id"] in cmd_units]
    for u in c["units"]:
        u["sites"] = [s for s in u["sites"] if s["name"] != name]
    if not any(u["name"] == name for u in c["units"]):
        c["names"] = [n for n in c["names"] if n != name]
    return c


def _drop_search(case, idx):
    c = json.loads(json.dumps(case))
    run = c["runs"][0]
    toks = run["search"][idx]["tokens"]
    av = run["argv"]
    for i in range(len(av) - len(toks) + 1):
        if av[i:i + len(toks)] == toks:
            del av[i:i + len(toks)]
            break
    else:
        return None
    del run["search"][idx]
    return c


def _minimise(ctx, case, ri, key):
    """greedy reduction of a violating tree: one run, then drop names / search dirs / symlinks while the
    same key is reported"""
    budget = [14]

    def still(c, tag):
        if budget[0] <= 0:
            return False
        budget[0] -= 1
        try:
            rs = _run_tree_once(ctx, c, "min%d" % budget[0])
        except Exception:
            return False
        return any(k == key for v, _, _, _ in rs for k, _ in v)

    cur = json.loads(json.dumps(case))
    cur["runs"] = [cur["runs"][ri]]
    if not still(cur, "r"):
        return case
    for n in list(cur["names"]):
        if n.startswith("main"):
            continue
        c = _drop_name(cur, n)
        if still(c, n):
            cur = c
    i = 0
    while i < len(cur["runs"][0]["search"]):
        c = _drop_search(cur, i)
        if c is not None and still(c, "s%d" % i):
            cur = c
        else:
            i += 1
    return cur


def run_tree(ctx, case):
    res = core.CaseResult()
    rs = _run_tree_once(ctx, case, "x")
    first = True
    for ri, (viol, feats, counters, inc) in enumerate(rs):
        res.features |= feats
        for k, v in counters.items():
            res.count(k, v)
        if inc:
            res.inconclusive = inc
        seen = set()
        for key, detail in viol:
            if key in seen:
                continue
            seen.add(key)
            if first and not case.get("no_minimise"):
                first = False
                detail["minimal_case"] = _minimise(ctx, case, ri, key)
            res.violation(key, **detail)
    res.count("trees", 1)
    if case["id"].endswith("0") or case["id"].endswith("5"):
        r0 = case["runs"][0]
        res.sample = dict(id=case["id"], focus=case["focus"], files=[u["path"] for u in case["units"]],
                          symlinks=case["symlinks"], cwd=r0["cwd"], argv=r0["argv"],
                          main_sites=[s["form"] + ":" + s["operand"] for s in case["units"][0]["sites"]])
    return res


# ---------------------------------------------------------------------------------------------
# Filename harness
# ---------------------------------------------------------------------------------------------

FN_DIRS = ["@R", "@R/a", "@R/a/b", "@R/b/", "@R//a", "@R/a/./b", "@R/a/../b", "@R/a/b/a"]


def _fname_tree(root, variant):
    """depth 1: a/ b/ ; depth 2: a/a/ a/b/ b/a/ b/b(file) ; depth 3 under each dir: a/ b(file) ;
    depth 4: a(file).  The symlink variant replaces a/b/a by a symlink to ../../b/a."""
    def mk(p):
        os.makedirs(os.path.join(root, p), exist_ok=True)

    def fl(p):
        with open(os.path.join(root, p), "w") as f:
            f.write("x")
    for d in ("a/a", "a/b", "b/a"):
        mk(d)
        mk(d + "/a")
        fl(d + "/b")
        fl(d + "/a/a")
    fl("b/b")
    if variant == "symlink":
        shutil.rmtree(os.path.join(root, "a/b/a"))
        os.symlink("../../b/a", os.path.join(root, "a/b/a"))


def _norm(p):
    n = os.path.normpath(p)
    if n.startswith("//"):
        n = "/" + n.lstrip("/")
    return n


def _fname_records(root, paths):
    """run the harness over `paths` (already with @R expanded); -> (records, crashes)"""
    exe = _harness(HARNESS)
    cwd = os.path.join(root, "a", "b")
    dirs = [d.replace("@R", root) for d in FN_DIRS]
    recs, crashes = [], []
    todo = list(paths)
    guard = 0
    while todo and guard < 25:
        guard += 1
        r = core.run([exe, cwd] + dirs, input=("\n".join(todo) + "\n").encode(), timeout=300)
        lines = r.out.split("\n")
        done = 0
        for ln in lines:
            f = ln.split("\t")
            if len(f) == 9 + 2 * len(dirs) and done < len(todo) and f[0] == todo[done]:
                recs.append(f)
                done += 1
            elif ln:
                break
        if r.timed_out:
            raise core.HarnessError("fname_harness timed out")
        if done == len(todo) and r.rc == 0:
            break
        if done < len(todo):
            crashes.append((todo[done], r))
            todo = todo[done + 1:]
        else:
            break
    return recs, crashes


def _exists(cwd, p):
    return os.path.exists(p if p.startswith("/") else os.path.join(cwd, p))


def _real(cwd, p):
    return os.path.realpath(p if p.startswith("/") else os.path.join(cwd, p))


def _judge_fname(root, rec, variant):
    """-> list of categories violated by one harness record"""
    cwd = os.path.join(root, "a", "b")
    p, s1, s2, a1, a2, cr, c1, c2, cwdok = rec[:9]
    rel = rec[9:]
    out = []
    ex = _exists(cwd, p)
    sym = "-symlink" if variant == "symlink" else ""

    def same(q):
        return q != "<EMPTY>" and _exists(cwd, q) and _real(cwd, q) == _real(cwd, p)

    # standardize
    if s1 == "<EMPTY>":
        if ex:
            out.append("standardize-empty")
    else:
        if s2 != s1:
            out.append("not-idempotent:fn=standardize")
        if ex and not same(s1):
            out.append("denotation%s:fn=standardize" % sym)
    # make_absolute
    if a1 == "<EMPTY>":
        out.append("make_absolute-empty")
    else:
        if not a1.startswith("/"):
            out.append("make_absolute-not-absolute")
        if a2 != a1:
            out.append("not-idempotent:fn=make_absolute")
        if ex and not same(a1):
            out.append("denotation%s:fn=make_absolute" % sym)
    # make_canonical
    if c1 == "<EMPTY>":
        out.append("make_canonical-empty")
    else:
        if c2 != c1:
            out.append("not-idempotent:fn=make_canonical")
        if ex:
            if cr != "1":
                out.append("make_canonical-fails-on-existing")
            if not same(c1):
                out.append("denotation%s:fn=make_canonical" % sym)
            elif os.path.isfile(_real(cwd, p)) and c1 != _real(cwd, p):
                out.append("canonical-not-unique")
    if cwdok != "1":
        out.append("make_canonical-changes-cwd")
    # make_relative_to
    if p.startswith("/"):
        dirs = [d.replace("@R", root) for d in FN_DIRS]
        for i, d in enumerate(dirs):
            for j, ab in enumerate(("backups", "nobackups")):
                f = rel[2 * i + j]
                ok, _, result = f.partition(":")
                if ok != "1":
                    continue
                if result == "<EMPTY>":
                    out.append("relative-to-empty:%s" % ab)
                    continue
                if _norm(d + "/" + result) != _norm(p):
                    out.append("relative-to-wrong:%s" % ab)
                elif result.startswith("/"):
                    out.append("relative-to-absolute:%s" % ab)
                elif ab == "nobackups" and result.split("/")[0] == "..":
                    out.append("relative-to-backs-up:nobackups")
    return sorted(set(out))


def _shape(p, root):
    """abstract a (minimised) path string: scratch prefix -> R, names -> x"""
    s = p
    if s.startswith(root):
        s = "R" + s[len(root):]
    return "/".join("x" if c in ("a", "b") else c for c in s.split("/"))


def _fname_paths(case, root):
    spec = case["paths"]
    if spec["mode"] == "list":
        return [p.replace("@R", root) for p in spec["paths"]]
    if spec["mode"] == "exhaustive":
        base = treegen.path_strings(spec["maxlen"])
    else:
        rng = random.Random("fname:%s" % spec["seed"])
        base = treegen.sample_path_strings(rng, spec["n"], spec["minlen"], spec["maxlen"])
    base = [p for p in base if p != ""]
    allp = base + [root + "/" + p for p in base]
    k, n = spec.get("chunk", 0), spec.get("nchunks", 1)
    return allp[k::n]


def run_fname(ctx, case):
    res = core.CaseResult()
    variant = case["variant"]
    d = ctx.casedir(case["id"])
    shutil.rmtree(d, ignore_errors=True)
    root = os.path.join(d, "r")
    try:
        _fname_tree(root, variant)
        paths = _fname_paths(case, root)
        recs, crashes = _fname_records(root, paths)
        res.count("path_strings_evaluated", len(recs))
        cwd = os.path.join(root, "a", "b")
        failing = collections.defaultdict(list)    # category -> [path]
        for rec in recs:
            ex = _exists(cwd, rec[0])
            ncomp = rec[0][len(root) + 1:].count("/") + 1 if rec[0].startswith(root) else rec[0].count("/") + 1
            res.features.add("fname:%s:%s:%s:n=%d" % (variant, "abs" if rec[0].startswith("/") else "rel",
                                                      "exists" if ex else "absent", ncomp))
            if ex:
                res.count("existing_paths_checked_for_denotation")
            res.count("relative_to_true", sum(1 for f in rec[9:] if f.startswith("1:")))
            for cat in _judge_fname(root, rec, variant):
                failing[cat].append(rec[0])
        for p, r in crashes:
            key = "fname-crash:%s:%s" % (r.how(), "/".join(r.frames(2)))
            res.violation(key, path=_shape(p, root), how=r.how(), stderr=r.err[-800:])
        # lock-step minimisation: drop one component at a time while the category persists
        for cat, ps in sorted(failing.items()):
            res.count("failing:" + cat, len(ps))
            work = {p: p for p in ps[:400]}
            for _ in range(8):
                cands = {}
                for orig, cur in work.items():
                    pre = root + "/" if cur.startswith(root + "/") else ""
                    comps = cur[len(pre):].split("/")
                    for i in range(len(comps)):
                        c = "/".join(comps[:i] + comps[i + 1:])
                        if c:
                            cands.setdefault(pre + c, []).append(orig)
                if not cands:
                    break
                crecs, _ = _fname_records(root, sorted(cands))
                bad = {rec[0] for rec in crecs if cat in _judge_fname(root, rec, variant)}
                changed = False
                for orig, cur in list(work.items()):
                    pre = root + "/" if cur.startswith(root + "/") else ""
                    comps = cur[len(pre):].split("/")
                    for i in range(len(comps)):
                        c = pre + "/".join(comps[:i] + comps[i + 1:])
                        if c in bad and c != pre:
                            work[orig] = c
                            changed = True
                            break
                if not changed:
                    break
            shapes = collections.Counter(_shape(m, root) for m in work.values())
            for shape, n in sorted(shapes.items()):
                if cat.startswith("denotation-symlink"):
                    key = "lexical-dotdot-across-symlink:%s" % cat.split(":", 1)[1]
                    if ".." not in shape:
                        key = cat + ":shape=" + shape
                else:
                    key = "%s:shape=%s" % (cat, shape)
                ex = [o for o, m in work.items() if _shape(m, root) == shape][:3]
                detail = dict(category=cat, minimal=shape, count=n, examples=[_shape(e, root) for e in ex],
                              note="R = scratch tree root; harness cwd = R/a/b")
                if cat == "standardize-empty":
                    mm = next(m for m in work.values() if _shape(m, root) == shape)
                    r2 = core.run([_harness(HARNESS), "--twice-empty", cwd, mm], timeout=30)
                    detail["second_application"] = r2.how()
                res.violation(key, **detail)
        if case["id"].endswith("-0"):
            res.sample = dict(id=case["id"], variant=variant, n=len(recs),
                              first=[_shape(r[0], root) for r in recs[:4]],
                              record=dict(zip(["p", "standardize", "standardize2", "make_absolute", "make_absolute2",
                                               "canonical_ok", "make_canonical", "make_canonical2"],
                                              [_shape(x, root) for x in recs[min(7, len(recs) - 1)][:8]])) if recs else None)
    finally:
        shutil.rmtree(d, ignore_errors=True)
    return res


# ---------------------------------------------------------------------------------------------
# entry points
# ---------------------------------------------------------------------------------------------

def run_case(ctx, case):
    if case["kind"] == "tree":
        return run_tree(ctx, case)
    if case["kind"] == "fname":
        return run_fname(ctx, case)
    raise core.HarnessError("unknown case kind " + str(case.get("kind")))


def main(chk):
    chk.rule = ("tree cases: a generated directory tree (<=5 dirs + symlinks) x parse_file/interrogate command line; "
                "a feature = (tool, include form, operand spelling, step of the stated order that satisfied the site "
                "[cwd/incdir/I/S/none], main-or-nested includer), (search-dir kind x spelling), command-line file spelling, "
                "-srcdir spelling, ownership fact (class x route), once-only file reached repeatedly (protection x spellings), "
                "missing-file site -- all measured from the reference walk of runs that matched it; "
                "fname cases: path strings over {a,b,.,..,empty}; a feature = (variant, abs/rel, exists/absent, #components)")
    chk.assumptions = [
        "the kernel's path resolution (os.path.isfile/realpath of CPython) is the authority for which file a path denotes",
        "os.path.normpath is the authority for lexical equality in the make_relative_to check (symlink-free tree)",
        "what the statement leaves open (includer's directory of a file reached through a file symlink: as found vs resolved; "
        "with -srcdir: which directory is 'the working directory' and the base of relative -I/-S) is enumerated, and a run "
        "is a violation only when it matches no admissible interpretation",
        "ownership is judged only where both readings of 'found in the working directory' (found by the working-directory "
        "step / resides in the working directory) agree",
        "interrogate prints warnings only at verbosity >= 2 (-v); the missing-file warning is checked for parse_file and "
        "for interrogate runs with -v",
    ]
    ntrees = chk.pick(220, 2400)
    cases = []
    for i in range(ntrees):
        sub = "%d.%d" % (chk.seed, i)
        cases.append(treegen.gen_case(sub))
    # Filename harness: exhaustive up to 4 (quick) / 6 (thorough) components, plus a seeded sample of longer ones
    maxlen = chk.pick(4, 6)
    nchunks = chk.pick(2, 24)
    for k in range(nchunks):
        cases.append(dict(kind="fname", id="fn-plain-%d" % k, variant="plain",
                          paths=dict(mode="exhaustive", maxlen=maxlen, chunk=k, nchunks=nchunks)))
    for k in range(chk.pick(2, 4)):
        cases.append(dict(kind="fname", id="fn-sample-%d" % k, variant="plain",
                          paths=dict(mode="sample", seed="%d.%d" % (chk.seed, k), n=chk.pick(3200, 6000),
                                     minlen=maxlen + 1, maxlen=maxlen + 2)))
    for k in range(chk.pick(1, 4)):
        cases.append(dict(kind="fname", id="fn-symlink-%d" % k, variant="symlink",
                          paths=dict(mode="exhaustive", maxlen=chk.pick(4, 5), chunk=k, nchunks=chk.pick(1, 4))))
    chk.extra["trees"] = ntrees
    chk.extra["path_string_bound"] = maxlen
    chk.exhaustive = False
    chk.min_conclusive = 10
    chk.run_cases(__name__, cases)
    chk.extra["exhaustive_note"] = ("path strings over {a,b,.,..,empty} with <= %d components (relative and under the "
                                    "scratch root) are enumerated completely; trees are sampled" % maxlen)
