"""C20 - the query interface is total and name lookups are exact.

One history = one idbdrive process (the database is a process-wide singleton).  Case kinds:
  sweep   load one database, call EVERY interrogate_* function (signature table generated from
          interrogate_interface.h of the tree under test) x every index in [-2, next_index+2] u {INT_MIN, INT_MAX,
          +-2^30} x every position in [-1, maxcount+1] u {INT_MIN, INT_MAX}; the harness reports every
          non-neutral result; oracle = idb.py's independent parse: record value for valid (index, position),
          neutral (0/false/""/NULL) for everything else; enumeration counts = number of entries returned.
  lookup  load A, look up every stored name of every kind + mutated/absent names; load B into the same
          process; look up again (names of A and of B): name_of(lookup(n)) == n, identity for unique names,
          0 for absent names.
  unique  synthetic InterrogateModuleDefs with sorted unique-name tables of size 0..12: every present key,
          absent keys before / between each adjacent pair / after, names shorter than the 4-character library
          hash, unknown library hashes.
  fptr    1..8 synthetic module defs with function-pointer tables shorter/equal/longer than their index
          range and NULL slots; interrogate_wrapper_pointer / has_pointer over every module boundary +-2.
A call that kills the process is attributed through the harness's flushed "B" markers (or --trace for the
sweep), confirmed in a fresh process that makes only that call, and keyed <how>:fn=<name>,arg=<class>.
"""
import os
import random
import re

from vf import core, idb
from vf.gen import idbgen, ifacegen
from vf.props import c12 as _c12          # real-header materialisation (interrogate runs) is shared with C12

LEVEL = "exploration"
INT_MIN, INT_MAX = -2 ** 31, 2 ** 31 - 1
EXTREMES = (INT_MIN, -(1 << 30), 1 << 30, INT_MAX)

hx = ifacegen.hexs


def prepare(chk):
    core.build("asan")
    ifacegen.idbdrive_path()


def _drive(d, script, name="script", trace=False, nocatch=False, timeout=120, symbolize=True, small_stack=False):
    exe = ifacegen.idbdrive_path()
    sp = os.path.join(d, name)
    open(sp, "w").write(script)
    cmd = [exe] + (["--trace"] if trace else []) + [sp]
    if small_stack:
        cmd = ["sh", "-c", 'ulimit -s 1024; exec "$@"', "sh"] + cmd
    env = None if symbolize else {"ASAN_OPTIONS": core.SAN_ENV["ASAN_OPTIONS"] + ":symbolize=0"}
    return ifacegen.run(cmd, timeout=timeout, env=env)


def _ubsan_exit(r):
    """non-recoverable UBSan reports end the process with exit status 1 (no signal)."""
    return r.rc == 1 and "runtime error:" in r.err


def _dead(r):
    return r.died() or r.timed_out or r.asan_report() or _ubsan_exit(r)


def _how(r):
    if r.timed_out:
        return "hang"
    if r.uncaught():
        return "uncaught:" + r.uncaught()
    if _ubsan_exit(r) and not r.asan_report():
        m = re.search(r"runtime error: ([A-Za-z -]+)", r.err)
        words = (m.group(1).split() if m else ["?"])[:4]
        return "ubsan:" + "-".join(words)
    return r.how()


def _val(tok):
    v = ifacegen.unhex_value(tok)
    return v


def _materialize(ctx, src, d):
    x, db, minor = _c12._materialize(ctx, src, d)
    return x


# ---------------------------------------------------------------------------------------------------
# sweep
# ---------------------------------------------------------------------------------------------------

def _domain(lo, hi, pmax):
    idx = [INT_MIN, -(1 << 30)] + list(range(lo, hi + 1)) + [1 << 30, INT_MAX]
    pos = [INT_MIN] + list(range(-1, pmax + 1)) + [INT_MAX]
    return idx, pos


def _parse_sweep(out):
    got, totals = {}, {}
    for line in out.splitlines():
        t = line.split(" ")
        if t[0] == "S" and len(t) == 5:
            a = None if t[2] == "-" else int(t[2])
            b = None if t[3] == "-" else int(t[3])
            got[(t[1], a, b)] = _val(t[4])
        elif t[0] == "T" and len(t) == 4:
            totals[t[1]] = (int(t[2]), int(t[3]))
    return got, totals


def _argclass(q, fn, a, b):
    kind = idb.PER_RECORD[fn][0] if fn in idb.PER_RECORD else None
    if kind is not None and a not in q.idx[kind]:
        return "invalid-index"
    if b is not None:
        cnt = None
        for cfn, accs in idb.POSITIONAL.items():
            if fn in accs:
                cnt = q.expect(cfn, a)
        if cnt is None or not 0 <= b < cnt:
            return "invalid-position"
    if kind is None and fn not in idb.PER_RECORD:
        n = None
        for which, (cfn, afn) in idb.ENUMERATIONS.items():
            if fn == afn:
                n = len(q.enumeration(which))
        if n is not None and not 0 <= (a if a is not None else 0) < n:
            return "invalid-position"
    return "valid"


def _check_sweep(res, q, sigs, got, totals, idx, pos, only=None):
    """compare the non-neutral results of a sweep with the independent parse."""
    ncalls = 0
    nvalid = 0
    enum_acc = {afn: which for which, (cfn, afn) in idb.ENUMERATIONS.items()}
    enum_cnt = {cfn: which for which, (cfn, afn) in idb.ENUMERATIONS.items()}
    unmodelled = []
    for fn, ret, args in sigs:
        if only is not None and fn not in only:
            continue
        if args == "s" or ret == "v":
            continue
        dom = [(None, None)] if args == "" else [(a, None) for a in idx] if args == "i" else \
            [(a, b) for a in idx for b in pos]
        if fn in totals and totals[fn][0] != len(dom):
            raise core.HarnessError(f"sweep made {totals[fn][0]} calls of {fn}, expected {len(dom)}")
        if fn not in totals:
            raise core.HarnessError(f"sweep did not report {fn}")
        ncalls += len(dom)
        bad_keys = set()
        if fn in idb.PER_RECORD:
            kind = idb.PER_RECORD[fn][0]
            recs = q.idx[kind]
            for a, b in dom:
                g = got.get((fn, a, b))
                if a in recs:
                    e = q.expect(fn, a, b)
                    if e is idb.UNSPECIFIED:
                        continue
                    if not idb.neutral(e):
                        nvalid += 1
                else:
                    e = None
                if idb.neutral(e):
                    if g is not None and not idb.neutral(g):
                        bad_keys.add(("non-neutral", _argclass(q, fn, a, b), a, b, repr(g)))
                else:
                    ge = g
                    if isinstance(e, bool):
                        ge = bool(g) if g is not None else False
                    if ge != e:
                        bad_keys.add(("wrong-value" if g is not None else "missing-value", "valid", a, b,
                                      "%r != %r" % (g, e)))
        elif fn in enum_cnt:
            e = len(q.enumeration(enum_cnt[fn]))
            g = got.get((fn, None, None), 0)
            if g != e:
                bad_keys.add(("wrong-count", "none", None, None, "%r != %r" % (g, e)))
        elif fn in enum_acc:
            exp = q.enumeration(enum_acc[fn])
            ret_vals = []
            for a, b in dom:
                g = got.get((fn, a, b))
                if 0 <= a < len(exp):
                    ret_vals.append(g or 0)
                    nvalid += 1
                elif g is not None and not idb.neutral(g):
                    bad_keys.add(("non-neutral", "invalid-position", a, b, repr(g)))
            if sorted(ret_vals) != exp:
                bad_keys.add(("wrong-enumeration", "valid", None, None, "%r != %r" % (sorted(ret_vals)[:8], exp[:8])))
            # count == number of entries the accessor actually returns
            cfn = idb.ENUMERATIONS[enum_acc[fn]][0]
            cnt = got.get((cfn, None, None), 0)
            if cnt != sum(1 for v in ret_vals if v):
                bad_keys.add(("count-differs-from-enumeration", "valid", None, None,
                              "%r != %r" % (cnt, sum(1 for v in ret_vals if v))))
        elif fn == "interrogate_error_flag":
            if got.get((fn, None, None)):
                bad_keys.add(("error-flag-set", "none", None, None, "1"))
        elif fn in ("interrogate_wrapper_has_pointer", "interrogate_wrapper_pointer"):
            for a, b in dom:       # no module def registered in this history
                if got.get((fn, a, b)) is not None:
                    bad_keys.add(("non-neutral", "invalid-index", a, b, repr(got.get((fn, a, b)))))
        else:
            # a function the model does not know: only the neutral contract for indices that are no record at all
            unmodelled.append(fn)
            allrec = set()
            for k in idb.KINDS:
                allrec.update(q.idx[k])
            for a, b in dom:
                g = got.get((fn, a, b))
                if a is not None and a not in allrec and g is not None and not idb.neutral(g):
                    bad_keys.add(("non-neutral", "invalid-index", a, b, repr(g)))
        seen = set()
        for cat, cls, a, b, detail in sorted(bad_keys, key=repr):
            k = "%s:fn=%s,arg=%s" % (cat, fn, cls)
            if k in seen:
                continue
            seen.add(k)
            res.violation(k, index=a, position=b, detail=detail)
        if not bad_keys:
            res.features.add("total:" + fn)
    # positional families: number_of_x equals the number of positions that answer
    res.count("calls", ncalls)
    res.count("valid_answers_compared", nvalid)
    if unmodelled:
        res.count("unmodelled_functions", len(unmodelled))
    return unmodelled


def _bisect_crash(ctx, res, d, base, sweepcmd, q, label, fnfilter=None):
    """the sweep process died: find the call with --trace, confirm it alone in a fresh process, key it."""
    r = _drive(d, base + sweepcmd + (" " + fnfilter if fnfilter else "") + "\n", name="trace", trace=True,
               timeout=600, symbolize=False)
    last = None
    for line in r.out.splitlines():
        if line.startswith("B "):
            last = line.split(" ")
    if last is None or len(last) != 4:
        raise core.HarnessError("sweep died but --trace shows no call: " + r.err[-500:])
    fn = last[1]
    a = None if last[2] == "-" else int(last[2])
    b = None if last[3] == "-" else int(last[3])
    only = sweepcmd + " " + fn + ("" if a is None else " %d" % a) + ("" if b is None else " %d" % b)
    r2 = _drive(d, base + only + "\n", name="only", timeout=30)
    if r2.timed_out:
        r2 = _drive(d, base + only + "\n", name="only", timeout=60)
    if _dead(r2):
        res.violation("%s:fn=%s,arg=%s" % (_how(r2), fn, _argclass(q, fn, a, b)), index=a, position=b,
                      frames=r2.frames(3), got=r2.err[-1200:], witness=label)
    else:
        res.count("crash_not_reproduced")
    return fn


def case_sweep(ctx, case, res):
    d = ctx.casedir(case["id"])
    x = _materialize(ctx, case["src"], d)
    if x is None:
        res.inconclusive = "interrogate failed on the real header"
        return
    try:
        pdb = idb.parse(x)
    except idb.FormatError:
        res.inconclusive = "reference reader rejects the file"
        return
    if not idb.is_closed(pdb):
        res.inconclusive = "file lists constructors it does not define"
        return
    ldb = idb.loaded(pdb)
    q = idb.Query(ldb)
    f = os.path.join(d, "db.in")
    open(f, "wb").write(x)
    maxcount = 0
    for cfn in idb.POSITIONAL:
        kind = idb.PER_RECORD[cfn][0]
        for i in q.idx[kind]:
            maxcount = max(maxcount, q.expect(cfn, i))
    lo, hi, pmax = -2, ldb.next_index() + 2, maxcount + 1
    idx, pos = _domain(lo, hi, pmax)
    sigs = ifacegen.interface()
    base = "load %s\nforce\n" % hx(f)
    sweepcmd = "sweep %d %d %d" % (lo, hi, pmax)
    r = _drive(d, base + sweepcmd + "\n", timeout=300)
    label = _c12._src_label(case["src"])
    if r.ubsan_arith():
        res.count("ubsan_arith_reports", r.ubsan_arith())
    if _dead(r) or r.rc != 0:
        if r.rc == 3:
            raise core.HarnessError("idbdrive: " + r.err[-500:])
        # attribute, then sweep the functions one by one so the rest is still judged
        crashed = _bisect_crash(ctx, res, d, base, sweepcmd, q, label)
        got, totals = {}, {}
        for fn, ret, args in sigs:
            if args == "s" or ret == "v" or fn == crashed:
                continue
            r1 = _drive(d, base + sweepcmd + " " + fn + "\n", name="one", timeout=120, symbolize=False)
            if _dead(r1) or r1.rc != 0:
                _bisect_crash(ctx, res, d, base, sweepcmd, q, label, fnfilter=fn)
                continue
            g1, t1 = _parse_sweep(r1.out)
            got.update(g1)
            totals.update(t1)
        _check_sweep(res, q, sigs, got, totals, idx, pos, only=set(totals))
        return
    if "E 0" not in r.out.splitlines()[:3]:
        res.inconclusive = "database did not load cleanly"
        return
    got, totals = _parse_sweep(r.out)
    unmodelled = _check_sweep(res, q, sigs, got, totals, idx, pos)
    res.features.add("swept:" + label)
    res.count("functions_swept", len(totals))
    res.sample = {"source": case["src"], "index_range": [lo, hi], "max_position": pmax,
                  "calls": sum(t[0] for t in totals.values()), "non_neutral_answers": len(got),
                  "unmodelled": unmodelled}


# ---------------------------------------------------------------------------------------------------
# by-name lookups over a two-file history
# ---------------------------------------------------------------------------------------------------

NAME_OF = {
    "interrogate_get_manifest_by_name": "interrogate_manifest_name",
    "interrogate_get_element_by_name": "interrogate_element_name",
    "interrogate_get_element_by_scoped_name": "interrogate_element_scoped_name",
    "interrogate_get_type_by_name": "interrogate_type_name",
    "interrogate_get_type_by_scoped_name": "interrogate_type_scoped_name",
    "interrogate_get_type_by_true_name": "interrogate_type_true_name",
}


def _mutations(rng, name):
    out = [name[:-1], name + b"x", name.swapcase(), b" " + name, name + b" ", name[1:], name * 2,
           name[:len(name) // 2], name + b"\xff", b"\xc3\xa9" + name]
    if name:
        i = rng.randrange(len(name))
        out.append(name[:i] + bytes([(name[i] % 255) + 1]) + name[i + 1:])
    return [m for m in out if b"\0" not in m]


GENERIC_ABSENT = [b"", b"a", b"ab", b"abc", b"zzzz", b"no such name", b"\xff\xfe", b"A" * 10000, b"0", b"-1",
                  b"caf\xc3\xa9", b"\n", b" "]


def _run_script_resilient(d, setup_for, cmds, small_stack=False, max_restarts=40):
    """run `cmds` (list of (tag, line)); when the process dies inside a command (flushed B marker without
    result), remember how, and carry on after it in a new process (setup replayed by setup_for(i)).
    -> results {i: value-token}, deaths {i: Result}"""
    results, deaths = {}, {}
    start = 0
    restarts = 0
    while start < len(cmds) and restarts <= max_restarts:
        setup = setup_for(start)
        nsetup = len(setup)
        script = "\n".join(setup + [c for _, c in cmds[start:]]) + "\n"
        r = _drive(d, script, name="s%d" % restarts, symbolize=False, small_stack=small_stack, timeout=120)
        if r.rc == 3:
            raise core.HarnessError("idbdrive: " + r.err[-500:])
        begun = None
        meta = []
        for line in r.out.splitlines():
            t = line.split(" ")
            if t[0] == "B" and len(t) == 2:
                begun = int(t[1]) - nsetup - 1 + start
            elif t[0] == "R":
                if begun is None:
                    raise core.HarnessError("R line without B line")
                results[begun] = t[-1]
                begun = None
            elif t[0] in ("M", "E", "L"):
                meta.append(t)
        if _dead(r):
            if begun is None:
                raise core.HarnessError("idbdrive died outside a call: " + r.err[-600:])
            deaths[begun] = r
            start = begun + 1
            restarts += 1
            continue
        if r.rc != 0:
            raise core.HarnessError("idbdrive rc=%s: %s" % (r.rc, r.err[-400:]))
        break
    return results, deaths


def case_lookup(ctx, case, res):
    d = ctx.casedir(case["id"])
    xa = _materialize(ctx, case["a"], d)
    xb = _materialize(ctx, case["b"], d)
    if xa is None or xb is None:
        res.inconclusive = "interrogate failed on the real header"
        return
    pa, pb = idb.parse(xa), idb.parse(xb)
    if not (idb.is_closed(pa) and idb.is_closed(pb)):
        res.inconclusive = "file lists constructors it does not define"
        return
    la = idb.loaded(pa)
    lb = idb.loaded(pb, first_index=la.next_index())
    # loading B collapses a type of B into a type of A with the same true name: keep the histories where the
    # independent model needs no merge rule
    ta = {idb._cstr(t.true_name) for t in la.types if t.true_name}
    if any(t.name and idb._cstr(t.true_name) in ta for t in lb.types):
        res.inconclusive = "type true names of the two files collide (merge rule is C13's subject)"
        return
    fa, fb = os.path.join(d, "a.in"), os.path.join(d, "b.in")
    open(fa, "wb").write(xa)
    open(fb, "wb").write(xb)
    qa, qb = idb.Query(la), idb.Query(lb)
    rng = random.Random(case["seed"])
    sigs = {n: (r, a) for n, r, a in ifacegen.interface()}
    cmds = []     # (tag, line); tag = (phase, fn, name)

    def names_for(fn, phase):
        m = dict((k, set(v)) for k, v in qa.names(fn).items())
        if phase == 2:
            for k, v in qb.names(fn).items():
                m.setdefault(k, set()).update(v)
        return m

    for phase in (1, 2):
        if phase == 2:
            cmds.append((("load",), "load %s" % hx(fb)))
            cmds.append((("force",), "force"))
        for fn in idb.LOOKUPS:
            if fn not in sigs:
                continue
            present = names_for(fn, phase)
            probe = list(present)
            stored = list(present)
            rng.shuffle(stored)
            for n in stored[:case.get("mutate", 12)]:
                probe += _mutations(rng, n)
            probe += GENERIC_ABSENT
            if phase == 1:
                probe += list(qb.names(fn))          # names only the not-yet-loaded file has
            seen = set()
            for n in probe:
                if n in seen or b"\0" in n:
                    continue
                seen.add(n)
                cmds.append(((phase, fn, n), "calls %s %s" % (fn, hx(n))))

    def setup_for(i):
        s = ["load %s" % hx(fa), "force"]
        # a restart after the second load must replay it
        if any(t == ("load",) for t, _ in cmds[:i]):
            s += ["load %s" % hx(fb), "force"]
        return s

    results, deaths = _run_script_resilient(d, setup_for, cmds)
    for i, r in deaths.items():
        tag = cmds[i][0]
        if len(tag) == 3:
            res.violation("%s:fn=%s,arg=%s" % (_how(r), tag[1], "name"), name=tag[2].decode("latin-1")[:60])
    # verify: second pass asks name_of(result)
    follow = []
    verdicts = []
    for i, (tag, line) in enumerate(cmds):
        if len(tag) != 3 or i not in results:
            continue
        phase, fn, n = tag
        present = names_for(fn, phase)
        got = _val(results[i])
        res.count("lookups")
        if n in present:
            if got not in present[n]:
                res.violation("lookup-misses-present-name:fn=%s" % fn if not got else
                              "lookup-wrong-entity:fn=%s" % fn, name=n.decode("latin-1")[:60], got=got,
                              expected=sorted(present[n])[:5], phase=phase)
            else:
                res.features.add("lookup:%s:%s" % (fn, "unique" if len(present[n]) == 1 else "shared-name"))
                if phase == 2 and got in qb.idx[idb.LOOKUPS[fn][0]]:
                    res.features.add("lookup-after-second-load:" + fn)
                follow.append((fn, n, got, phase))
        else:
            if got:
                res.violation("lookup-finds-absent-name:fn=%s" % fn, name=n.decode("latin-1")[:60], got=got)
            else:
                res.features.add("lookup-absent:%s" % fn)
    # name_of(lookup(n)) == n, asked of the library itself in the final state (both files loaded)
    script = ["load %s" % hx(fa), "force", "load %s" % hx(fb), "force"]
    asked = []
    for fn, n, got, phase in follow:
        script.append("call %s %d" % (NAME_OF[fn], got))
        asked.append((fn, n, got))
    r = _drive(d, "\n".join(script) + "\n", name="nameof", symbolize=False)
    if r.rc != 0 or _dead(r):
        raise core.HarnessError("name_of pass failed: " + r.err[-400:])
    vals = [l.split(" ")[-1] for l in r.out.splitlines() if l.startswith("R ")]
    if len(vals) != len(asked):
        raise core.HarnessError("name_of pass: result count mismatch")
    for (fn, n, got), v in zip(asked, vals):
        back = _val(v) or b""
        res.count("name_of_checked")
        if back != n:
            res.violation("name-of-lookup-differs:fn=%s" % fn, name=n.decode("latin-1")[:60],
                          got=back.decode("latin-1")[:60])
    res.sample = {"a": case["a"], "b": case["b"], "lookups": len(cmds)}


# ---------------------------------------------------------------------------------------------------
# unique-name tables
# ---------------------------------------------------------------------------------------------------

def _table(rng, k, style):
    """k distinct wrapper-hash names, sorted bytewise (the order the generated tables have)."""
    names = set()
    while len(names) < k:
        if style == "numeric":
            names.add(b"k%03d" % (rng.randrange(1, 99) * 10))
        elif style == "prefixes":
            base = rng.choice((b"ab", b"abc", b"abcd", b"b", b"ba", b"a"))
            names.add(base + bytes(rng.choice(b"abc") for _ in range(rng.randrange(0, 3))))
        else:
            names.add(bytes(rng.choice(b"ABCXYZabcxyz059_") for _ in range(rng.randrange(1, 7))))
    return sorted(names)


def _between(a, b):
    """a byte string strictly between a and b (a < b) if one is easy to build, else None."""
    for cand in (a + b"\x01", a + b"0", a + b"a", a + b"~"):
        if a < cand < b:
            return cand
    return None


def case_unique(ctx, case, res):
    d = ctx.casedir(case["id"])
    rng = random.Random(case["seed"])
    k = case["size"]
    names = _table(rng, k, case["style"])
    offs = list(range(k))
    rng.shuffle(offs)                       # index_offset is independent of the name order
    hashname = case.get("hash", "Lq7_").encode()
    nidx = max(k, 1) + rng.randrange(0, 3)
    pre = case.get("modules_before", 0)
    setup = []
    for j in range(pre):                    # other modules first, so first_index is not 1
        setup.append("module %s %s %s - 0 0 %d 0 1 %s 0" % (hx(b"other%d" % j), hx(b"Zz%02d" % j), hx(b"m"),
                                                            rng.randrange(1, 6), hx(b"only")))
    setup.append("module %s %s %s - 0 0 %d 0 %d %s" % (
        hx(b"libu"), hx(hashname), hx(b"modu"), nidx, k,
        " ".join("%s %d" % (hx(n), o) for n, o in zip(names, offs))))
    # where does our module start?  request_module assigns consecutive ranges from 1
    # (read back from the harness's "M" line to stay independent of that rule)
    cmds = []
    fn = "interrogate_get_wrapper_by_unique_name"
    for n, o in zip(names, offs):
        cmds.append((("present", n, o), "calls %s %s" % (fn, hx(hashname + n))))
    absent = []
    if names:
        lo = names[0]
        for cand in (b"", lo[:-1], b"!", b"\x01"):
            if cand < lo and cand not in names:
                absent.append(("absent-less", cand))
                break
        for a, b in zip(names, names[1:]):
            c = _between(a, b)
            if c is not None:
                absent.append(("absent-between", c))
        absent.append(("absent-greater", names[-1] + b"z"))
        absent.append(("absent-greater", b"\xff\xff"))
    else:
        absent += [("absent-empty-table", b""), ("absent-empty-table", b"abc")]
    for cls, n in absent:
        cmds.append(((cls, n, None), "calls %s %s" % (fn, hx(hashname + n))))
    for s in (b"", b"L", b"Lq", b"Lq7"):
        cmds.append((("shorter-than-4", s, None), "calls %s %s" % (fn, hx(s))))
    for s in (b"XXXX", b"XXXXabc", b"lq7_" + (names[0] if names else b"x"), b"\xff\xff\xff\xff\xff"):
        cmds.append((("unknown-library-hash", s, None), "calls %s %s" % (fn, hx(s))))
    rng.shuffle(cmds)

    results, deaths = _run_script_resilient(d, lambda i: setup, cmds, small_stack=True)
    # first_index of our module
    r0 = _drive(d, "\n".join(setup) + "\n", name="m", symbolize=False)
    first = None
    for line in r0.out.splitlines():
        t = line.split()
        if t[0] == "M" and int(t[1]) == pre:
            first = int(t[2])
    if first is None:
        raise core.HarnessError("no M line for the module: " + r0.err[-300:])
    confirmed = set()
    for i, r in sorted(deaths.items()):
        cls, n, o = cmds[i][0]
        how = _how(r)
        key = "%s:fn=%s,arg=%s" % (how, fn, cls)
        if key in confirmed:
            res.count("further_crashing_lookups")
            continue
        # confirm in a fresh process that makes only this call (normal stack size)
        r2 = _drive(d, "\n".join(setup + [cmds[i][1]]) + "\n", name="confirm", timeout=60)
        if r2.timed_out:
            r2 = _drive(d, "\n".join(setup + [cmds[i][1]]) + "\n", name="confirm", timeout=120)
        if _dead(r2):
            key = "%s:fn=%s,arg=%s" % (_how(r2), fn, cls)
            confirmed.add(key)
            res.violation(key, table_size=k, lookup_key=n.decode("latin-1"), table=[x.decode("latin-1") for x in names],
                          frames=r2.frames(3))
        else:
            res.count("crash_not_reproduced")
    for i, (tag, line) in enumerate(cmds):
        if i not in results:
            continue
        cls, n, o = tag
        got = _val(results[i])
        res.count("unique_name_lookups")
        if cls == "present":
            if got != first + o:
                res.violation("unique-name-lookup-wrong:fn=%s,arg=present" % fn, table_size=k, got=got,
                              expected=first + o, lookup_key=n.decode("latin-1"))
            else:
                res.features.add("unique:size=%d:present" % k)
        else:
            if got:
                res.violation("unique-name-lookup-finds-absent:fn=%s,arg=%s" % (fn, cls), table_size=k, got=got,
                              lookup_key=n.decode("latin-1"))
            else:
                res.features.add("unique:size=%d:%s" % (k, cls))
    res.sample = {"table": [n.decode("latin-1") for n in names], "offsets": offs, "lookups": len(cmds)}


# ---------------------------------------------------------------------------------------------------
# function-pointer tables
# ---------------------------------------------------------------------------------------------------

def case_fptr(ctx, case, res):
    d = ctx.casedir(case["id"])
    rng = random.Random(case["seed"])
    mods = []
    for j in range(case["modules"]):
        nidx = rng.choice((0, 1, 1, 2, 3, 5, 9))
        nf = rng.choice((0, nidx, nidx, max(0, nidx - 1), nidx + 2))
        nulls = sorted(rng.sample(range(nf), min(nf, rng.choice((0, 0, 1, 2))))) if nf else []
        mods.append((nidx, nf, nulls))
    setup = []
    for j, (nidx, nf, nulls) in enumerate(mods):
        setup.append("module %s %s %s - 0 0 %d %d 0 %s" % (hx(b"lib%d" % j), hx(b"H%03d" % j), hx(b"m"), nidx, nf,
                                                           " ".join("!%d" % n for n in nulls)))
    r0 = _drive(d, "\n".join(setup) + "\n", name="m", symbolize=False)
    if r0.rc != 0:
        raise core.HarnessError("module setup failed: " + r0.err[-300:])
    ranges = {}
    for line in r0.out.splitlines():
        t = line.split()
        if t[0] == "M":
            ranges[int(t[1])] = (int(t[2]), int(t[3]))
    # the ranges the library assigned must be consecutive and disjoint for modules that have indices
    # (that is request_module's documented contract; it is what makes the expectation below well defined)
    nxt = 1
    for j, (nidx, nf, nulls) in enumerate(mods):
        if nidx > 0:
            if ranges[j] != (nxt, nxt + nidx):
                res.violation("module-range-wrong:fn=interrogate_request_module", got=ranges[j],
                              expected=(nxt, nxt + nidx))
                return
            nxt += nidx
    probes = set(EXTREMES) | {-2, -1, 0, nxt, nxt + 1, nxt + 2}
    for j, (nidx, nf, nulls) in enumerate(mods):
        if nidx > 0:
            a, b = ranges[j]
            for w in range(a - 2, b + 3):
                probes.add(w)
            for w in range(a, a + nf + 2):
                probes.add(w)
    probes = sorted(probes)

    def expect(w):
        for j, (nidx, nf, nulls) in enumerate(mods):
            if nidx > 0 and ranges[j][0] <= w < ranges[j][1]:
                mi = w - ranges[j][0]
                if 0 <= mi < nf and mi not in nulls:
                    return 0x100000 * (j + 1) + 16 * mi
                return 0
        return 0

    cmds = []
    for w in probes:
        cmds.append((("p", w), "call interrogate_wrapper_pointer %d" % w))
        cmds.append((("h", w), "call interrogate_wrapper_has_pointer %d" % w))
    results, deaths = _run_script_resilient(d, lambda i: setup, cmds)
    for i, r in deaths.items():
        kind, w = cmds[i][0]
        fn = "interrogate_wrapper_pointer" if kind == "p" else "interrogate_wrapper_has_pointer"
        cls = "module-index" if expect(w) else "invalid-index"
        res.violation("%s:fn=%s,arg=%s" % (_how(r), fn, cls), index=w, modules=mods)
    for i, (tag, line) in enumerate(cmds):
        if i not in results:
            continue
        kind, w = tag
        got = _val(results[i])
        e = expect(w)
        res.count("fptr_calls")
        if kind == "p":
            g = got[1] if isinstance(got, tuple) else 0
            if g != e:
                cls = "module-index" if e else "invalid-index"
                res.violation(("wrong-pointer" if e and g else "missing-pointer" if e else "non-neutral") +
                              ":fn=interrogate_wrapper_pointer,arg=" + cls, index=w, got=hex(g), expected=hex(e),
                              modules=mods, ranges=ranges)
            else:
                res.features.add("fptr:modules=%d:%s" % (len(mods), "pointer" if e else "null"))
        else:
            if bool(got) != bool(e):
                res.violation("has-pointer-wrong:fn=interrogate_wrapper_has_pointer,arg=" +
                              ("module-index" if e else "invalid-index"), index=w, got=got, modules=mods)
    res.sample = {"modules": [{"indices": a, "fptrs": b, "null_slots": c} for a, b, c in mods],
                  "probed_indices": len(probes)}


def run_case(ctx, case):
    res = core.CaseResult()
    k = case["kind"]
    if k == "sweep":
        case_sweep(ctx, case, res)
    elif k == "lookup":
        case_lookup(ctx, case, res)
    elif k == "unique":
        case_unique(ctx, case, res)
    elif k == "fptr":
        case_fptr(ctx, case, res)
    else:
        raise core.HarnessError("unknown case kind " + str(k))
    return res


def main(chk):
    chk.rule = ("sweep: every function of interrogate_interface.h x every index in [-2,next_index+2] u {INT_MIN,INT_MAX,"
                "+-2^30} x every position in [-1,maxcount+1] u {INT_MIN,INT_MAX} on idbgen and interrogate-written "
                "databases, compared with the independent parse (idb.py); lookup: every stored name of every kind and "
                "mutated/absent names over a two-file load history; unique: module defs with unique-name tables of "
                "every size 0..12, every present key and absent keys before/between/after; fptr: 1..8 module defs. "
                "A distinct non-trivial signature is: an interface function whose whole sweep on a database agreed "
                "with the parse (total:<fn>), a swept source class, a lookup function x {unique, shared name, absent, "
                "after second load}, a (table size, key class) pair, a (module count, pointer/null) pair.")
    chk.assumptions = [
        "vf/idb.py (independent reader) is the authority for what a database file contains and which indices are "
        "records of which kind after a load into an empty database",
        "neutral values are 0, false, the empty string and NULL (a NULL const char* counts as an empty string)",
        "interrogate_type_array_size of a non-array type is not determined by the file (unspecified, not judged)",
        "UBSan arithmetic reports (e.g. INT_MIN - first_index) are counted, not judged: the statement speaks of "
        "crashes and returned values",
    ]
    rng = chk.rng
    cases = []
    n = 0

    def add(c):
        nonlocal n
        n += 1
        c["id"] = "%s%d" % (c["kind"][0], n)
        cases.append(c)

    def syn(p):
        return {"syn": {"seed": rng.randrange(1 << 30), "params": p}}

    # sweeps
    nsweep = chk.pick(120, 3000)
    params = idbgen.catalogue(rng, nsweep, minors=(3, 3, 3, 2, 1, 0))
    for p in params:
        p.pop("alt_names", None)
        if p.get("size") == "medium" and chk.quick():
            p["size"] = "small"
        add({"kind": "sweep", "src": syn(p)})
    if not chk.quick():
        for i in range(12):
            add({"kind": "sweep", "src": syn(dict(size="large", strings=("mixed", "hostile", "plain")[i % 3],
                                                  flags="random", dangling=0.1 if i % 2 else 0.0))})
    reals = [("item_assignment", 1), ("rich1", 0)] if chk.quick() else \
        [(h, o) for h in _c12.HEADERS for o in range(4)]
    for h, o in reals:
        add({"kind": "sweep", "src": {"real": {"header": h, "opts": _c12.BACKENDS[o]}}})
    # lookups
    for i in range(chk.pick(60, 1000)):
        pa = dict(size=rng.choice(("small", "medium")), strings=rng.choice(("mixed", "hostile", "plain")),
                  flags="random", dup_names=rng.choice((0.0, 0.2, 0.5)))
        # the second file gets plain (random-identifier) names so that its type names do not collide with the first
        # file's: collapsing same-named types across files is C13's subject, not modelled here
        pb = dict(size=rng.choice(("tiny", "small")), strings="plain", flags="random", dup_names=0.2)
        add({"kind": "lookup", "a": syn(pa), "b": syn(pb), "seed": rng.randrange(1 << 30), "mutate": chk.pick(8, 40)})
    # an interrogate-written file first, a synthetic one second (two real files always share the built-in types,
    # whose collapsing is C13's subject)
    add({"kind": "lookup", "a": {"real": {"header": "rich1", "opts": _c12.BACKENDS[1]}},
         "b": syn(dict(size="small", strings="plain", flags="random", dup_names=0.2)),
         "seed": rng.randrange(1 << 30), "mutate": 10})
    # unique-name tables: every size 0..12
    for k in range(0, 13):
        for style in (("numeric", "prefixes") if chk.quick() else
                      ("numeric", "prefixes", "random", "numeric", "prefixes", "random")):
            add({"kind": "unique", "size": k, "style": style, "seed": rng.randrange(1 << 30),
                 "modules_before": rng.choice((0, 0, 1, 3))})
    # fptr tables
    for m in ((1, 2, 3, 5, 8) if chk.quick() else (1, 1, 2, 2, 3, 3, 4, 5, 6, 7, 8, 8, 12, 16)):
        add({"kind": "fptr", "modules": m, "seed": rng.randrange(1 << 30)})
    chk.extra["interface_functions"] = len(ifacegen.interface())
    chk.run_cases(__name__, cases)
