"""C12 - database files round-trip exactly and older 3.x files stay readable.

Oracles (all against the independent reader/writer vf/idb.py, never against the library itself):
  * byte equality of `InterrogateDatabase::write(read(x))` with what idb.py says a loader must present
    (for files interrogate wrote and for canonical synthetic files that is x itself);
  * every query-interface answer (idbdump) equals idb.py's parse of x, field by field;
  * files written in 3.0/3.1/3.2 load with 0 for the fields those formats lack;
  * every byte-prefix of a valid file is either rejected through the error flag with NO observable entity
    (state digest equal to that of a database that never saw the file) or - only trailing whitespace lost -
    accepted whole; never a crash;
  * other major / newer minor / mismatching file_identifier: error flag, and the state is "nothing" (for the
    identifier mismatch "nothing or everything": the statement only forbids half-merging).
"""
import json
import os
import re

from vf import core, tools, idb
from vf.gen import idbgen, ifacegen

LEVEL = "exploration"

# ---------------------------------------------------------------------------------------------------
# inputs interrogate itself turns into databases
# ---------------------------------------------------------------------------------------------------

KEYWORD_DEFS = ["-DPUBLISHED=__published", "-DBEGIN_PUBLISH=__begin_publish", "-DEND_PUBLISH=__end_publish",
                "-DMAKE_SEQ=__make_seq", "-DMAKE_PROPERTY=__make_property", "-DMAKE_PROPERTY2=__make_property2",
                "-DMAKE_SEQ_PROPERTY=__make_seq_property", "-DMAKE_MAP_PROPERTY=__make_map_property",
                "-DMAKE_MAP_KEYS_SEQ=__make_map_keys_seq"]

RICH1 = r'''
#ifndef RICH1_H
#define RICH1_H
BEGIN_PUBLISH
#define RICH_VERSION 42
#define RICH_NAME "a \"quoted\" name"
#define RICH_FLOAT 1.5
#define RICH_EXPR (1 << 4)
#define RICH_NEG -7
#define RICH_EMPTY
END_PUBLISH

// A global comment with "quotes", a tab	and non-ASCII: caf\xc3\xa9 e-acute u-umlaut
enum Color { red, green = 5, blue };

/// scoped enum
enum class Mode : int {
  // first value
  off = 0,
  /* second value */
  on = 1,
};

typedef int my_int;
typedef struct OldStyle { int x; } OldStyleAlias;

namespace ns {
  class Base {
  PUBLISHED:
    Base();
    virtual ~Base();
    virtual int get_id() const;
    // static method
    static Base *make(int a = 3, double b = 1.5, const char *s = "hi there");
    int _value;
  };

  /**
   * Derived class.
   *   Indented line.
   */
  class Derived final : public Base {
  PUBLISHED:
    Derived(int x);
    Derived(const Derived &copy);
    explicit Derived(const Base &b);
    int get_num_items() const;
    int get_item(int n) const;
    void set_item(int n, int v);
    bool has_item(int n) const;
    void clear_item(int n);
    void insert_item(int n, int v);
    void remove_item(int n);
    MAKE_SEQ(get_items, get_num_items, get_item);
    MAKE_SEQ_PROPERTY(items, get_num_items, get_item, set_item, remove_item, insert_item);
    int get_thing() const;
    void set_thing(int v);
    bool has_thing() const;
    void clear_thing();
    MAKE_PROPERTY2(thing, has_thing, get_thing, set_thing, clear_thing);
    int get_val(const char *key) const;
    void set_val(const char *key, int v);
    bool has_val(const char *key) const;
    void clear_val(const char *key);
    int get_num_vals() const;
    const char *get_val_key(int n) const;
    MAKE_MAP_PROPERTY(vals, has_val, get_val, set_val, clear_val);
    MAKE_MAP_KEYS_SEQ(vals, get_num_vals, get_val_key);
    operator int () const;
    Derived operator - () const;
    Derived operator + (const Derived &o) const;
    int operator [] (int n) const;
    int &operator [] (int n);
    class Inner {
    PUBLISHED:
      enum InnerEnum { ie_a, ie_b };
      int z;
    };
    int arr[4];
    static int s_count;
    const float ro = 1.0f;
  };
  union U { int i; float f; };
}

struct Multi : public ns::Base, public OldStyle {
PUBLISHED:
  Multi();
  int m;
};

BEGIN_PUBLISH
int global_func(int a, ns::Derived *d, const ns::Base &b, my_int q = 7);
void global_void();
extern int global_var;
extern const char *global_str;
unsigned long long big(unsigned char c, short s, long l, long long ll, unsigned int u, float f, double dd, bool bb);
END_PUBLISH
#endif
'''

RICH2 = r'''
#ifndef RICH2_H
#define RICH2_H
template<class T> class Box {
PUBLISHED:
  Box();
  T get() const;
  void set(const T &v);
  MAKE_PROPERTY(value, get, set);
private:
  T _v;
};
typedef Box<int> IntBox;
typedef Box<double> DoubleBox;

class Shape {
PUBLISHED:
  virtual ~Shape();
  virtual double area() const = 0;
  enum Kind { K_round = 1, K_square = 2, K_other = -1 };
  Kind get_kind() const;
};
class Circle : public Shape {
PUBLISHED:
  explicit Circle(double r);
  virtual double area() const;
  // multi-line
  // comment   with   runs of blanks
  double get_radius() const;
  void set_radius(double r);
  MAKE_PROPERTY(radius, get_radius, set_radius);
};
class Square : public virtual Shape {
PUBLISHED:
  Square(double s = 1.0);
  virtual double area() const;
  bool operator == (const Square &o) const;
  bool operator < (const Square &o) const;
  Square &operator += (double d);
};
class Both : public Circle, public Square {
PUBLISHED:
  Both();
  virtual double area() const;
};
struct Pod { int a; float b[3]; const char *s; };
BEGIN_PUBLISH
IntBox *make_box(int v);
double total(const Shape *a, const Shape &b, Pod p);
extern Pod g_pod;
#define TWO 2
#define STR "s"
END_PUBLISH
#endif
'''

HEADERS = {
    "item_assignment": ("repo", "tests/interrogatedb/item_assignment.h"),
    "nested_struct": ("repo", "tests/interrogatedb/nested_struct.h"),
    "static_class_member": ("repo", "tests/interrogatedb/static_class_member.h"),
    "rich1": ("text", RICH1),
    "rich2": ("text", RICH2),
}
BACKENDS = [
    ["-c", "-fnames", "-unique-names"],
    ["-python-native"],
    ["-python", "-fnames"],
    ["-c", "-python-native", "-fnames", "-string", "-refcount", "-assert", "-promiscuous"],
    ["-python-native", "-nomangle", "-true-names"],
    [],
]


SLOTS = ("getter", "setter", "has_function", "clear_function", "del_function", "length_function",
         "insert_function", "getkey_function")


def _populate_elements(db, seed):
    """every optional function slot of every element refers to a function of the file (distinct where possible)
    and every has_* flag is set; at least two elements exist.  Deterministic in (db, seed)."""
    import random
    rng = random.Random("full-elements:%s" % (seed,))
    fns = [f.index for f in db.functions]
    if not fns or not db.elements:
        return
    for e in db.elements:
        picks = [rng.choice(fns) for _ in SLOTS]
        for slot, v in zip(SLOTS, picks):
            setattr(e, slot, v)
        e.flags |= (idb.EF.has_getter | idb.EF.has_setter | idb.EF.has_has_function | idb.EF.has_clear_function |
                    idb.EF.has_del_function | idb.EF.has_insert_function | idb.EF.has_getkey_function)


def _materialize(ctx, src, d):
    """source spec -> (file bytes, idb.Database or None, minor).  Everything needed is inside `src`."""
    if "file" in src:          # literal file content (latin-1) - used by finding witnesses, independent of generators
        data = src["file"]["latin1"].encode("latin-1")
        return data, None, src["file"].get("minor", 3)
    if "syn" in src:
        s = src["syn"]
        db = idbgen.generate(s["seed"], **s["params"])
        minor = s["params"].get("minor", 3)
        if s.get("full_elements"):
            _populate_elements(db, s["seed"])
        return idb.serialize(db, minor=minor), db, minor
    if "real" in src:
        r = src["real"]
        b = core.build("asan")
        kind, body = HEADERS[r["header"]]
        if kind == "repo":
            hdr = os.path.join(b.src, body)
        else:
            hdr = os.path.join(d, r["header"] + ".h")
            open(hdr, "w").write(body)
        res, paths = tools.interrogate(b, [hdr], d, opts=r["opts"], name=r["header"], defs=tools.CPP_DEFS + KEYWORD_DEFS)
        if res.rc != 0 or not os.path.exists(paths["od"]):
            return None, None, 3
        data = open(paths["od"], "rb").read()
        return data, None, 3
    raise core.HarnessError("bad source spec")


# ---------------------------------------------------------------------------------------------------
# idbdump JSON  <->  interface function names
# ---------------------------------------------------------------------------------------------------

def _jb(v):
    """JSON value of idbdump -> python value comparable with idb.Query (str -> bytes)."""
    if isinstance(v, str):
        return v.encode("latin-1")
    return v


SCALARS = {
    "types": {k: "interrogate_type_" + k for k in (
        "name scoped_name true_name is_global is_deprecated is_nested outer_class has_comment comment has_module_name "
        "module_name has_library_name library_name is_atomic atomic_token is_unsigned is_signed is_long is_longlong "
        "is_short is_wrapped is_pointer is_const is_typedef wrapped_type is_array array_size is_enum is_scoped_enum "
        "is_struct is_class is_union is_fully_defined is_unpublished is_final has_destructor "
        "destructor_is_inherited").split()},
    "functions": {k: "interrogate_function_" + k for k in (
        "name scoped_name has_comment comment prototype is_method class is_unary_op is_operator_typecast "
        "is_constructor is_destructor is_virtual has_module_name module_name has_library_name library_name").split()},
    "wrappers": {"name": "interrogate_wrapper_name", "function": "interrogate_wrapper_function",
                 "callable_by_name": "interrogate_wrapper_is_callable_by_name",
                 "copy_constructor": "interrogate_wrapper_is_copy_constructor",
                 "coerce_constructor": "interrogate_wrapper_is_coerce_constructor",
                 "extension": "interrogate_wrapper_is_extension", "deprecated": "interrogate_wrapper_is_deprecated",
                 "has_comment": "interrogate_wrapper_has_comment", "comment": "interrogate_wrapper_comment",
                 "has_return_value": "interrogate_wrapper_has_return_value",
                 "return_type": "interrogate_wrapper_return_type",
                 "caller_manages": "interrogate_wrapper_caller_manages_return_value",
                 "return_value_destructor": "interrogate_wrapper_return_value_destructor",
                 "unique_name": "interrogate_wrapper_unique_name"},
    "elements": {k: "interrogate_element_" + k for k in (
        "name scoped_name has_comment comment type has_getter getter has_setter setter has_has_function has_function "
        "has_clear_function clear_function has_del_function del_function has_insert_function insert_function "
        "has_getkey_function getkey_function length_function is_sequence is_mapping").split()},
    "make_seqs": {k: "interrogate_make_seq_" + k for k in (
        "seq_name scoped_name has_comment comment num_name element_name num_getter element_getter").split()},
    "manifests": {"name": "interrogate_manifest_name", "definition": "interrogate_manifest_definition",
                  "has_type": "interrogate_manifest_has_type", "type": "interrogate_manifest_get_type",
                  "has_getter": "interrogate_manifest_has_getter", "getter": "interrogate_manifest_getter",
                  "has_int_value": "interrogate_manifest_has_int_value",
                  "int_value": "interrogate_manifest_get_int_value"},
}
SCALARS["types"]["destructor"] = "interrogate_type_get_destructor"
# list-valued dump keys: key -> (count function, {subkey or None: accessor})
LISTS = {
    "types": {
        "constructors": ("interrogate_type_number_of_constructors", {None: "interrogate_type_get_constructor"}),
        "elements": ("interrogate_type_number_of_elements", {None: "interrogate_type_get_element"}),
        "methods": ("interrogate_type_number_of_methods", {None: "interrogate_type_get_method"}),
        "make_seqs": ("interrogate_type_number_of_make_seqs", {None: "interrogate_type_get_make_seq"}),
        "casts": ("interrogate_type_number_of_casts", {None: "interrogate_type_get_cast"}),
        "nested_types": ("interrogate_type_number_of_nested_types", {None: "interrogate_type_get_nested_type"}),
        "enum_values": ("interrogate_type_number_of_enum_values", {
            "name": "interrogate_type_enum_value_name", "scoped_name": "interrogate_type_enum_value_scoped_name",
            "comment": "interrogate_type_enum_value_comment", "value": "interrogate_type_enum_value"}),
        "derivations": ("interrogate_type_number_of_derivations", {
            "base": "interrogate_type_get_derivation", "has_upcast": "interrogate_type_derivation_has_upcast",
            "upcast": "interrogate_type_get_upcast",
            "downcast_is_impossible": "interrogate_type_derivation_downcast_is_impossible",
            "has_downcast": "interrogate_type_derivation_has_downcast", "downcast": "interrogate_type_get_downcast"}),
    },
    "functions": {
        "c_wrappers": ("interrogate_function_number_of_c_wrappers", {None: "interrogate_function_c_wrapper"}),
        "python_wrappers": ("interrogate_function_number_of_python_wrappers",
                            {None: "interrogate_function_python_wrapper"}),
    },
    "wrappers": {
        "params": ("interrogate_wrapper_number_of_parameters", {
            "type": "interrogate_wrapper_parameter_type", "has_name": "interrogate_wrapper_parameter_has_name",
            "name": "interrogate_wrapper_parameter_name", "is_this": "interrogate_wrapper_parameter_is_this",
            "is_optional": "interrogate_wrapper_parameter_is_optional"}),
    },
}
ENUM_KEYS = {"all_types": "types", "global_types": "global_types", "all_functions": "functions",
             "global_functions": "global_functions", "globals": "globals", "manifest_list": "manifests"}
IGNORED_KEYS = {"index", "has_pointer"}


def _same(exp, got):
    if exp is idb.UNSPECIFIED:
        return True
    if idb.neutral(exp):
        return idb.neutral(got)
    if isinstance(exp, bool) or isinstance(got, bool):
        return bool(exp) == bool(got)
    return exp == got


def compare_dump(dump, q):
    """yield (record-kind, key) for every answer of the query interface that differs from the parse."""
    bad = []
    for jkey, which in ENUM_KEYS.items():
        if sorted(dump[jkey]) != q.enumeration(which):
            bad.append(("enumeration", jkey))
    for kind in ("types", "functions", "wrappers", "elements", "make_seqs", "manifests"):
        sing = idb.SINGULAR[kind]
        seen = set()
        for ent in dump[kind]:
            i = ent["index"]
            seen.add(i)
            for k, v in ent.items():
                if k in IGNORED_KEYS:
                    if k == "has_pointer" and v:
                        bad.append((sing, k))
                    continue
                if k in SCALARS[kind]:
                    if not _same(q.expect(SCALARS[kind][k], i), _jb(v)):
                        bad.append((sing, k))
                elif k in LISTS.get(kind, {}):
                    cntfn, subs = LISTS[kind][k]
                    n = q.expect(cntfn, i) or 0
                    if n != len(v):
                        bad.append((sing, k + ".count"))
                        continue
                    for pos, item in enumerate(v):
                        for sk, fn in subs.items():
                            got = _jb(item if sk is None else item[sk])
                            if not _same(q.expect(fn, i, pos), got):
                                bad.append((sing, k if sk is None else k + "." + sk))
                else:
                    raise core.HarnessError(f"idbdump key {kind}.{k} has no interface mapping in c12.py")
        # everything the file defines and the interface enumerates must have been dumped
        if kind in ("types", "functions", "manifests"):
            for i in q.idx[kind]:
                if i not in seen:
                    bad.append((sing, "missing-entity"))
    return bad


def first_field_diffs(exp_db, got_db):
    """(record, field) pairs in which two parsed databases differ."""
    out = []
    for h in ("file_identifier", "major", "minor", "library_name", "library_hash_name", "module_name"):
        if getattr(exp_db, h) != getattr(got_db, h):
            out.append(("header", h))
    for kind in idb.KINDS:
        a, b = exp_db.by_index(kind), got_db.by_index(kind)
        sing = idb.SINGULAR[kind]
        if sorted(a) != sorted(b):
            out.append((sing, "index-set"))
        for i in a:
            if i in b:
                for f in a[i].fields():
                    if getattr(a[i], f) != getattr(b[i], f, None):
                        out.append((sing, f))
    return sorted(set(out))


STRING_CLASSES = [("empty", lambda s: s == b""), ("space", lambda s: b" " in s), ("newline", lambda s: b"\n" in s),
                  ("quote", lambda s: b'"' in s or b"'" in s), ("leading-digit", lambda s: s[:1].isdigit()),
                  ("highbyte", lambda s: any(c >= 0x80 for c in s)), ("byte-ff", lambda s: b"\xff" in s),
                  ("control", lambda s: any(c < 0x20 and c not in (9, 10, 13) for c in s)),
                  ("edge-ws", lambda s: s != s.strip() and s.strip() != b"")]


def string_features(db):
    """(record kind, field, string class) triples present in the database (measured, for evidence)."""
    out = set()

    def walk(kind, r):
        for f in r.fields():
            v = getattr(r, f)
            if isinstance(v, bytes):
                for cname, pred in STRING_CLASSES:
                    if pred(v):
                        out.add(f"str:{kind}.{f}:{cname}")
            elif isinstance(v, list):
                for x in v:
                    if isinstance(x, idb.Rec):
                        walk(kind, x)
                    elif isinstance(x, bytes):
                        for cname, pred in STRING_CLASSES:
                            if pred(x):
                                out.add(f"str:{kind}.{f}:{cname}")
    for kind, r in db.all_records():
        walk(idb.SINGULAR[kind], r)
    return out


# ---------------------------------------------------------------------------------------------------
# cases
# ---------------------------------------------------------------------------------------------------

def _src_label(src):
    if "file" in src:
        return "file:" + src["file"].get("label", "literal")
    if "syn" in src:
        p = src["syn"]["params"]
        return "syn:minor=%s:strings=%s:flags=%s" % (p.get("minor", 3), p.get("strings", "mixed"), p.get("flags", "random"))
    return "real:%s:%s" % (src["real"]["header"], "".join(src["real"]["opts"]) or "-")


def _ubsan_exit(r):
    """non-recoverable UBSan reports end the process with exit status 1 (no signal)."""
    return r.rc == 1 and "runtime error:" in r.err and not r.asan_report()


def _crash_key(r):
    fr = r.frames(3)
    top = fr[0] if fr else "?"
    how = ("uncaught:" + r.uncaught()) if r.uncaught() else r.how()
    if _ubsan_exit(r):
        m = re.search(r"runtime error: ([A-Za-z -]+)", r.err)
        how = "ubsan:" + "-".join((m.group(1).split() if m else ["?"])[:4])
    return "crash:%s@%s" % (how, top)


def case_roundtrip(ctx, case, res):
    d = ctx.casedir(case["id"])
    x, db, minor = _materialize(ctx, case["src"], d)
    if x is None:
        res.inconclusive = "interrogate failed on the real header"
        return
    # the reference must itself round-trip the file, otherwise it is no authority for it
    try:
        pdb = idb.parse(x)
    except idb.FormatError as ex:
        res.inconclusive = "reference reader rejects the file: %s" % ex
        return
    minor = pdb.minor
    if idb.serialize(pdb, minor=minor) != x or (db is not None and pdb != idb.with_minor_defaults(db, minor)):
        res.inconclusive = "reference writer does not reproduce the file"
        return
    if not idb.is_closed(pdb):
        res.inconclusive = "file lists constructors/destructors it does not define"
        return
    expected_db = idb.loaded(pdb)
    expected = idb.serialize(expected_db)
    if "real" in case["src"] and expected != x:
        # what interrogate writes is already in canonical order: a fact about the real files, checked not assumed
        res.violation("roundtrip-bytes-differ:real-file-not-canonical", witness=_src_label(case["src"]))
    f = os.path.join(d, "x.in")
    open(f, "wb").write(x)
    r, dump = tools.idbdump([f], rewrite=f + ".rw")
    res.count("files_loaded")
    if r.timed_out:
        res.inconclusive = "watchdog"
        return
    if r.died() or r.asan_report() or dump is None:
        res.violation(_crash_key(r), witness=_src_label(case["src"]), got=r.err[-1500:])
        return
    if dump["error_flag"] or dump["error_flag_after"]:
        res.violation("valid-file-rejected:minor=%d" % minor, witness=_src_label(case["src"]))
        return
    y = open(f + ".rw", "rb").read() if os.path.exists(f + ".rw") else b""
    ok = True
    if y != expected:
        ok = False
        try:
            ydb = idb.parse(y)
            diffs = first_field_diffs(expected_db, ydb)
            if not diffs:
                res.violation("roundtrip-bytes-differ:layout", witness=_src_label(case["src"]))
            for rec, fld in diffs:
                res.violation("roundtrip-bytes-differ:field=%s.%s" % (rec, fld), witness=_src_label(case["src"]),
                              minor=minor)
        except idb.FormatError as ex:
            res.violation("roundtrip-bytes-differ:rewritten-file-unreadable", witness=_src_label(case["src"]),
                          got=str(ex))
    res.count("bytes_compared", len(expected))
    q = idb.Query(expected_db)
    bad = compare_dump(dump, q)
    nfields = sum(len(e) for k in SCALARS for e in dump[k])
    res.count("query_answers_compared", nfields)
    for rec, key in sorted(set(bad)):
        ok = False
        res.violation("dump-differs:field=%s.%s" % (rec, key), witness=_src_label(case["src"]), minor=minor)
    # second generation: what the library wrote must itself read back to the same bytes and answers
    if ok and y != x:
        f2 = os.path.join(d, "y.in")
        open(f2, "wb").write(y)
        r2, dump2 = tools.idbdump([f2], rewrite=f2 + ".rw")
        y2 = open(f2 + ".rw", "rb").read() if os.path.exists(f2 + ".rw") else b""
        if r2.died() or dump2 is None:
            res.violation(_crash_key(r2), witness="second generation of " + _src_label(case["src"]))
        elif y2 != y:
            res.violation("roundtrip-bytes-differ:second-generation", witness=_src_label(case["src"]))
        elif dump2 != dump:
            res.violation("dump-differs:second-generation", witness=_src_label(case["src"]))
        res.count("second_generation_checked")
    if ok:
        res.features.add(_src_label(case["src"]))
        res.features.update(string_features(pdb))
        if minor < 3 and pdb.elements:
            res.features.add("old-minor-defaults:3.%d" % minor)
        if not idb.is_canonical(pdb):
            res.features.add("reindexed-on-load")
        for kind in idb.KINDS:
            if getattr(pdb, kind):
                res.features.add("kind:" + kind)
    res.sample = {"source": case["src"], "bytes": len(x), "head": x[:160].decode("latin-1")}


PROBE_ALARM = 4      # seconds one load may take inside the harness (normally ~1 ms); longer = "hang", not judged


def _drive(script, d, timeout=300, symbolize=False):
    exe = ifacegen.idbdrive_path()
    sp = os.path.join(d, "script")
    open(sp, "w").write(script)
    env = None if symbolize else {"ASAN_OPTIONS": core.SAN_ENV["ASAN_OPTIONS"] + ":symbolize=0"}
    return ifacegen.run([exe, "--alarm", str(PROBE_ALARM), sp], timeout=timeout, env=env)


def _probe_lines(out):
    """-> ({label: (flag|'THREW', digest|type)}, label announced but never answered or None)"""
    res = {}
    last = None
    for line in out.splitlines():
        t = line.split()
        if not t:
            continue
        if t[0] == "B" and len(t) == 2:
            last = t[1]
        elif t[0] == "P" and len(t) >= 4:
            if t[2] == "THREW":
                res[t[1]] = ("THREW", t[3])
            else:
                res[t[1]] = (int(t[2]), t[3])
    return res, (last if last is not None and last not in res else None)


def _run_probes(d, lines, max_hangs=6, on_hang=None):
    """run probe/prefixes commands; when the process dies inside a probe, record it as DIED and carry on with the
    remaining ones in a new process.  lines: list of (label-list, command-line-builder(labels)).
    A hang costs seconds and C12 does not judge it: after one, on_hang(label) names further labels to give up
    (recorded as SKIPPED; hangs cluster inside one record), and after max_hangs all remaining ones are given up."""
    results = {}
    pending = list(lines)
    hangs = 0
    for _ in range(400):
        if hangs >= max_hangs:
            for labels, build in pending:
                for l in labels:
                    results.setdefault(l, ("SKIPPED", None))
            break
        script = []
        for labels, build in pending:
            todo = [l for l in labels if l not in results]
            if todo:
                script.append(build(todo))
        if not script:
            break
        r = _drive("\n".join(script) + "\n", d)
        got, culprit = _probe_lines(r.out)
        results.update(got)
        if r.timed_out and culprit is None:
            raise core.HarnessError("idbdrive watchdog outside a probe")
        if r.rc == 0 and not r.died() and culprit is None:
            continue
        if culprit is None:
            raise core.HarnessError("idbdrive failed outside a probe: rc=%s %s" % (r.rc, r.err[-600:]))
        hung = r.timed_out or r.sig == 14 or r.rc == -14
        hangs += 1 if hung else 0
        results[culprit] = ("HANG" if hung else "DIED", None)
        if hung and on_hang is not None:
            for l in on_hang(culprit):
                results.setdefault(l, ("SKIPPED", None))
    return results


def _confirm_crash(ctx, case, res, d, data, label, what, ident=0):
    """a crash / escaped exception seen in the long-running harness counts only if a FRESH process that does
    nothing but load this one file shows it again (exceptions are then left uncaught, so the report carries
    the stack of the throw)."""
    f = os.path.join(d, "crash-%s.in" % label)
    open(f, "wb").write(data)
    exe = ifacegen.idbdrive_path()
    sp = os.path.join(d, "crash-%s.script" % label)
    open(sp, "w").write("probe x %s %d 4 1\n" % (ifacegen.hexs(f), ident))
    r = ifacegen.run([exe, "--nocatch", "--alarm", str(PROBE_ALARM * 2), sp], timeout=60)
    if r.timed_out or r.sig == 14 or r.rc == -14:
        # the fresh process ran into the watchdog instead (the unset count can also be huge): a hang, not judged
        res.count("prefix_hang_unjudged")
        return
    if r.died() or r.asan_report() or _ubsan_exit(r):
        res.violation(_crash_key(r), witness=what, prefix_len=len(data), got=r.err[-1500:])
    else:
        res.count("crash_not_reproduced")


def case_prefix(ctx, case, res):
    d = ctx.casedir(case["id"])
    x, db, minor = _materialize(ctx, case["src"], d)
    if x is None:
        res.inconclusive = "interrogate failed on the real header"
        return
    try:
        pdb = idb.parse(x)
    except idb.FormatError as ex:
        res.inconclusive = "reference reader rejects the file"
        return
    hi = pdb.next_index() + 2
    f = os.path.join(d, "full.in")
    open(f, "wb").write(x)
    lengths = [L for L in case["lengths"] if 0 <= L <= len(x)]
    hx = ifacegen.hexs
    lab = [str(L) for L in lengths]
    pr = _run_probes(d, [
        (["none"], lambda t: "probe none - 0 %d 1" % hi),
        (["full"], lambda t: "probe full %s 0 %d 1" % (hx(f), hi)),
        (lab, lambda t: "prefixes %s %s %d 1 %s" % (hx(f), hx(d), hi, " ".join(t))),
    ], on_hang=lambda label: _same_record(pdb, lengths, label))
    if pr["none"][0] != 0:
        raise core.HarnessError("baseline probe failed: %r" % (pr["none"],))
    h0 = pr["none"][1]
    if pr["full"][0] in ("DIED", "THREW"):
        _confirm_crash(ctx, case, res, d, x, "full", "complete file")
        return
    if pr["full"][0] != 0:
        res.violation("valid-file-rejected:minor=%d" % minor, witness=_src_label(case["src"]), got=repr(pr["full"]))
        return
    hf = pr["full"][1]
    if hf == h0 and any(getattr(pdb, k) for k in ("types", "functions", "manifests")):
        raise core.HarnessError("state digest does not distinguish a loaded file from none")
    crashes = 0
    for L in lengths:
        got = pr.get(str(L))
        if got is None:
            raise core.HarnessError("no result for prefix %d" % L)
        ws_only = x[L:].strip(b" \t\r\n\v\f") == b""
        res.count("prefixes_checked")
        flag, h = got
        if flag in ("DIED", "THREW"):
            crashes += 1
            if crashes <= 2:
                _confirm_crash(ctx, case, res, d, x[:L], str(L), "prefix")
            else:
                res.count("further_crashing_prefixes")
            continue
        if flag == "HANG":
            res.count("prefix_hang_unjudged")
            continue
        if flag == "SKIPPED":
            res.count("prefixes_skipped_after_hangs")
            res.count("prefixes_checked", -1)
            continue
        if flag == 1 and h == h0:
            res.features.add("prefix:rejected-clean" + (":ws-only-lost" if ws_only else ""))
            res.features.add("prefix-cut-in:" + _where(pdb, L))
        elif flag == 0 and h == hf and ws_only:
            res.features.add("prefix:accepted-whole:ws-only-lost")
        elif flag == 1 and h == hf:
            res.violation("prefix-flagged-but-merged", prefix_len=L, witness=_src_label(case["src"]))
        elif flag == 1:
            res.violation("prefix-partial-merge", prefix_len=L, witness=_src_label(case["src"]),
                          cut_in=_where(pdb, L))
        elif h == hf:
            res.violation("prefix-accepted", prefix_len=L, witness=_src_label(case["src"]), cut_in=_where(pdb, L))
        else:
            res.violation("prefix-accepted-differs", prefix_len=L, witness=_src_label(case["src"]),
                          cut_in=_where(pdb, L))
    res.sample = {"source": case["src"], "file_bytes": len(x), "prefix_lengths": lengths[:12]}


def _same_record(pdb, lengths, label):
    """labels of the prefix lengths just after `label` within the same record: hangs come in runs (every cut
    inside one field leaves the same garbage), so the next few bytes are given up rather than paid 4 s each."""
    if not label.isdigit():
        return []
    L = int(label)
    nxt = min((o for o in pdb.offsets if o > L), default=L)
    return [str(x) for x in lengths if L < x < min(nxt, L + 16)]


def _where(pdb, L):
    """which section of the file a cut at byte L falls into (feature alphabet for evidence/keys)."""
    offs = pdb.offsets
    if L < offs[0]:
        return "header"
    bounds = []
    p = 1
    for kind in idb.KINDS:
        n = len(getattr(pdb, kind))
        end = offs[p + n]
        bounds.append((kind, end))
        p += n + 1
    for kind, end in bounds:
        if L <= end:
            return kind
    return "tail"


VARIANTS = ["major2", "major4", "major0", "major33", "minor4", "minor10", "ident-mismatch", "ident-match",
            "ident-unchecked"]


def case_header(ctx, case, res):
    d = ctx.casedir(case["id"])
    x, db, minor = _materialize(ctx, case["src"], d)
    if x is None:
        res.inconclusive = "interrogate failed on the real header"
        return
    pdb = idb.parse(x)
    if pdb.file_identifier in (0, 2 ** 31 - 1):
        pdb.file_identifier = 4242        # 0 means "do not check" on the module-def side
    hi = pdb.next_index() + 2
    hx = ifacegen.hexs
    files = {}
    lines = ["probe none - 0 %d 1" % hi]
    good = idb.serialize(pdb, minor=3)
    open(os.path.join(d, "good.in"), "wb").write(good)
    lines.append("probe full %s 0 %d 1" % (hx(os.path.join(d, "good.in")), hi))
    for v in case["variants"]:
        ident = 0
        if v.startswith("major"):
            data = idb.serialize(pdb, minor=3, major=int(v[5:]))
        elif v.startswith("minor"):
            data = idb.serialize(pdb, minor=3)
            data = data.replace(b"\n3 3\n", b"\n3 %d\n" % int(v[5:]), 1)
        else:
            data = good
            ident = {"ident-mismatch": pdb.file_identifier + 1, "ident-match": pdb.file_identifier,
                     "ident-unchecked": 0}[v]
        p = os.path.join(d, v + ".in")
        open(p, "wb").write(data)
        files[v] = data
        lines.append("probe %s %s %d %d 1" % (v, hx(p), ident, hi))
    pr = _run_probes(d, [([ln.split()[1]], (lambda ln: (lambda t: ln))(ln)) for ln in lines])
    if pr["none"][0] != 0:
        raise core.HarnessError("baseline probe failed: %r" % (pr["none"],))
    h0, hf = pr["none"][1], pr["full"][1]
    for v in case["variants"]:
        flag, h = pr.get(v, (None, None))
        res.count("header_variants_checked")
        if flag in ("DIED", "HANG", "THREW", "SKIPPED"):
            if flag in ("DIED", "THREW"):
                _confirm_crash(ctx, case, res, d, files[v], v, "header-variant")
            continue
        if v in ("ident-match", "ident-unchecked"):
            if flag != 0 or h != hf:
                res.violation("ident-match-rejected" if flag else "ident-match-differs", variant=v)
            else:
                res.features.add("variant:%s:accepted" % v)
        elif v == "ident-mismatch":
            if flag != 1:
                res.violation("ident-mismatch-unreported", witness=_src_label(case["src"]))
            elif h not in (h0, hf):
                res.violation("ident-mismatch-partial-merge", witness=_src_label(case["src"]))
            else:
                res.features.add("variant:ident-mismatch:flagged:" + ("nothing-merged" if h == h0 else "all-merged"))
        else:
            cls = "major=other" if v.startswith("major") else "minor=newer"
            if flag != 1:
                res.violation("version-accepted:" + cls, variant=v, witness=_src_label(case["src"]))
            elif h != h0:
                res.violation("version-flagged-but-merged:" + cls, variant=v, witness=_src_label(case["src"]))
            else:
                res.features.add("variant:%s:rejected-clean" % v)
    res.sample = {"source": case["src"], "variants": case["variants"]}


def _sub_dump(dump, lo, hi):
    """the part of an idbdump JSON whose entities have indices in [lo, hi)."""
    out = {}
    for k, v in dump.items():
        if k in ENUM_KEYS:
            out[k] = [i for i in v if lo <= i < hi]
        elif k in SCALARS:
            out[k] = [e for e in v if lo <= e["index"] < hi]
        else:
            out[k] = v
    return out


def case_mixed(ctx, case, res):
    """one process loads two or three files of (possibly) different minor formats, one after the other; every
    file's entities must answer as its own independent parse says (old-minor defaults included) and the error
    flag must stay clear."""
    d = ctx.casedir(case["id"])
    files = []
    for k, src in enumerate(case["srcs"]):
        # two files may not define a type of the same true name (collapsing is C13's subject): bump the seed
        for attempt in range(20):
            s2 = json.loads(json.dumps(src))
            s2["syn"]["seed"] = src["syn"]["seed"] + 7919 * attempt
            x, db, minor = _materialize(ctx, s2, d)
            pdb = idb.parse(x)
            seen = {idb._cstr(t.true_name) for _, p, _ in files for t in p.types if t.true_name}
            if not any(idb._cstr(t.true_name) in seen for t in pdb.types):
                break
        else:
            res.inconclusive = "could not avoid type-name collisions between the files"
            return
        if idb.serialize(pdb, minor=minor) != x or pdb != idb.with_minor_defaults(db, minor) or not idb.is_closed(pdb):
            res.inconclusive = "reference writer does not reproduce the file"
            return
        files.append((x, pdb, minor))
    hx = ifacegen.hexs
    lines = []
    paths = []
    for k, (x, pdb, minor) in enumerate(files):
        f = os.path.join(d, "f%d.in" % k)
        open(f, "wb").write(x)
        paths.append(f)
        lines += ["load " + hx(f), "force"]
    out = os.path.join(d, "dump.json")
    lines += ["dump " + hx(out), "err"]
    r = _drive("\n".join(lines) + "\n", d, symbolize=True)
    minors = [m for _, _, m in files]
    label = "minors=" + ">".join("3.%d" % m for m in minors)
    if r.timed_out:
        res.inconclusive = "watchdog"
        return
    if r.died() or r.asan_report() or _ubsan_exit(r):
        res.violation("mixed-minors-" + _crash_key(r), witness=label, got=r.err[-1200:])
        return
    if r.rc != 0:
        raise core.HarnessError("idbdrive mixed run failed: " + r.err[-600:])
    flags = [int(l.split()[1]) for l in r.out.splitlines() if l.startswith("E ")]
    if len(flags) != len(files) + 1:
        raise core.HarnessError("idbdrive mixed run: unexpected log")
    for k, fl in enumerate(flags[:len(files)]):
        if fl:
            res.violation("mixed-minors-valid-file-rejected:%s" % _mixed_class(minors, k), witness=label,
                          file_number=k + 1, stderr=r.err[-300:])
            return
    try:
        dump = json.load(open(out))
    except (OSError, ValueError) as ex:
        raise core.HarnessError("idbdrive dump unreadable: %s" % ex)
    first = 1
    ok = True
    for k, (x, pdb, minor) in enumerate(files):
        ldb = idb.loaded(pdb, first_index=first)
        n = sum(len(getattr(pdb, kind)) for kind in idb.KINDS)
        q = idb.Query(ldb)
        bad = compare_dump(_sub_dump(dump, first, first + n), q)
        res.count("query_answers_compared", sum(len(e) for kk in SCALARS for e in dump[kk]
                                                  if first <= e["index"] < first + n))
        for rec, key in sorted(set(bad)):
            ok = False
            res.violation("mixed-minors-dump-differs:field=%s.%s" % (rec, key), witness=label, file_number=k + 1,
                          cls=_mixed_class(minors, k))
        first += n
    res.count("files_loaded", len(files))
    if ok:
        res.features.add("mixed:" + label)
        if any(p.elements for _, p, _ in files[1:]):
            res.features.add("mixed:elements-in-later-file:" + label)
    res.sample = {"minors": minors, "sources": case["srcs"]}


def _mixed_class(minors, k):
    """finite key alphabet: how the k-th file's minor relates to the first file's."""
    if k == 0:
        return "first-file"
    return "later-file-" + ("older" if minors[k] < minors[0] else "newer" if minors[k] > minors[0] else "same") + "-minor"


def run_case(ctx, case):
    res = core.CaseResult()
    kind = case["kind"]
    if kind == "mixed":
        case_mixed(ctx, case, res)
        return res
    if kind == "roundtrip":
        case_roundtrip(ctx, case, res)
    elif kind == "prefix":
        case_prefix(ctx, case, res)
    elif kind == "header":
        case_header(ctx, case, res)
    else:
        raise core.HarnessError("unknown case kind " + str(kind))
    return res


def prepare(chk):
    core.build("asan")
    tools.idbdump_path()
    ifacegen.idbdrive_path()


def _prefix_lengths(x, pdb, mode):
    if mode == "all":
        return list(range(0, len(x) + 1))
    s = set()
    for o in pdb.offsets:
        for dlt in (-2, -1, 0, 1, 2):
            if 0 <= o + dlt <= len(x):
                s.add(o + dlt)
    s.update((0, 1, 2, len(x), len(x) - 1))
    return sorted(v for v in s if 0 <= v <= len(x))


def main(chk):
    chk.rule = ("cases = (a) .in files written by interrogate for 5 headers x several back-end option sets, (b) idbgen "
                "synthetic databases (hostile strings in every string field, flag patterns random/one-bit/all/zero, "
                "optional fields, sparse indices) written by the independent writer in each minor 3.0-3.3, (c) byte "
                "prefixes of such files (all prefixes of small files, record boundaries +-2 of larger ones), (d) header "
                "variants (other major, newer minor, file_identifier vs module def).  A distinct non-trivial signature "
                "is one of: a source class (header x options | minor x string mode x flag mode) that round-tripped, a "
                "(record kind, field, string class) triple present in a file that round-tripped byte-exactly, a record "
                "kind present, an old-minor default observed, a prefix outcome class x section of the cut, a header "
                "variant outcome, a sequence of minor formats loaded into one process whose every file answered as its "
                "own parse.")
    chk.assumptions = [
        "vf/idb.py (written from the on-disk format, sharing no code with libinterrogatedb) is the authority for "
        "what a file contains; a file it cannot reproduce byte-for-byte itself is inconclusive, never a violation",
        "a freshly loaded file is re-indexed wrappers, functions, types, manifests, elements, make_seqs in ascending "
        "old-index order from 1 (documented in InterrogateDatabase::remap_indices); functions a type lists as "
        "constructor/destructor get the corresponding flag (documented in read_new)",
        "strings containing NUL and corruption other than truncation/version/identifier are out of scope",
    ]
    rng = chk.rng
    cases = []
    n = 0

    def add(c):
        nonlocal n
        n += 1
        c["id"] = "%s%d" % (c["kind"][0], n)
        cases.append(c)

    # (a) real files
    names = list(HEADERS)
    real = []
    for hn in names:
        opts = BACKENDS[:2] if chk.quick() else BACKENDS
        if chk.quick() and hn.startswith("rich"):
            opts = BACKENDS[:4]
        for o in opts:
            real.append({"real": {"header": hn, "opts": o}})
    for s in real:
        add({"kind": "roundtrip", "src": s})
    # (b) synthetic
    nsyn = chk.pick(200, 3000)
    params = idbgen.catalogue(rng, nsyn)
    syn = []
    for i, p in enumerate(params):
        if p["minor"] < 3 and rng.random() < 0.5:
            p["ctor_flags"] = False
        s = {"syn": {"seed": rng.randrange(1 << 30), "params": p}}
        syn.append(s)
        add({"kind": "roundtrip", "src": s})
    # (c) prefixes
    b = core.build("asan")
    budget = chk.pick(5000, 60000)
    chunk = 250
    plan = []     # (src, mode)
    tiny = [s for s in syn if s["syn"]["params"].get("size") == "tiny" and not s["syn"]["params"].get("alt_names")]
    small = [s for s in syn if s["syn"]["params"].get("size") in ("small", "medium")
             and not s["syn"]["params"].get("alt_names")]
    rng.shuffle(tiny)
    rng.shuffle(small)
    plan += [(s, "all") for s in tiny[:chk.pick(2, 30)]]
    plan += [({"real": {"header": "item_assignment", "opts": BACKENDS[1]}}, "all")]
    plan += [(s, "boundaries") for s in small[:chk.pick(4, 60)]]
    plan += [({"real": {"header": "rich1", "opts": BACKENDS[0]}}, "boundaries"),
             ({"real": {"header": "nested_struct", "opts": BACKENDS[1]}}, "boundaries" if chk.quick() else "all")]
    if not chk.quick():
        plan += [({"real": {"header": h, "opts": o}}, "boundaries") for h in names for o in BACKENDS[:3]]
    used = 0
    scratch = os.path.join(chk.work, "plan")
    os.makedirs(scratch, exist_ok=True)
    for src, mode in plan:
        if used >= budget:
            break
        x, _, _ = _materialize(chk.ctx(), src, scratch)
        if x is None:
            continue
        try:
            pdb = idb.parse(x)
        except idb.FormatError:
            continue
        ls = _prefix_lengths(x, pdb, mode)
        if len(ls) > budget - used:
            ls = sorted(rng.sample(ls, budget - used))
        used += len(ls)
        for i in range(0, len(ls), chunk):
            add({"kind": "prefix", "src": src, "lengths": ls[i:i + chunk]})
    # (d) header variants
    hsrc = [syn[i] for i in range(0, min(len(syn), chk.pick(8, 60)))] + real[:chk.pick(2, 10)]
    for s in hsrc:
        add({"kind": "header", "src": s, "variants": VARIANTS})
    # (e) histories: several files of different minor formats in ONE process (all ordered pairs, some triples)
    def mixsrc(m):
        return {"syn": {"seed": rng.randrange(1 << 30), "full_elements": True,
                        "params": {"size": [3, 4, 5, 1, 3, 1], "jitter": False, "strings": rng.choice(("plain", "mixed")),
                                   "flags": "random", "minor": m}}}
    nmixed = 0
    for rep in range(chk.pick(1, 8)):
        for a in range(4):
            for b in range(4):
                add({"kind": "mixed", "srcs": [mixsrc(a), mixsrc(b)]})
                nmixed += 1
    for _ in range(chk.pick(8, 64)):
        add({"kind": "mixed", "srcs": [mixsrc(rng.randrange(4)) for _ in range(3)]})
        nmixed += 1
    chk.extra["planned"] = {"mixed_minor_histories": nmixed,"real_files": len(real), "synthetic_files": len(syn), "prefixes": used,
                            "header_variant_cases": len(hsrc)}
    chk.run_cases(__name__, cases)
