"""C04 -- only the published API of the files named on the command line is exported.

Workload: vf/gen/visgen.py (headers / include trees / .N files in which every
entity carries a unique tagged name).  Oracle: must / must-not / unspecified
per entity, derived from the generator's ground truth by the rule in the
property statement; observation: every name reachable through the query
interface (tools.idbdump) plus every identifier in the -oc file.
"""
import json
import os
import random
import re
import shutil

from vf import core, tools
from vf.gen import visgen

LEVEL = "exploration"

BACKENDS = {"c": ["-c", "-fnames"], "pn": ["-python-native"], "py": ["-python", "-fnames"]}
MODES = {"default": [], "promisc": ["-promiscuous"]}

PLACE_PRIORITY = ["db-function", "db-element", "db-type", "db-enumvalue", "db-manifest", "db-prototype",
                  "db-wrapper", "db-scope", "db-typeref", "db-typestub", "db-other", "oc"]
# record kinds that merely *name* a type (needed for referential closure) -- not an export of the type
STUB_PLACES = {"db-typestub", "db-typeref", "db-scope"}
TYPE_KINDS = ("class", "nclass", "enum", "nenum", "typedef")
MUST_PLACE = {"func": "db-function", "method": "db-function", "smethod": "db-function",
              "var": "db-element", "dmember": "db-element", "sdmember": "db-element",
              "macro": "db-manifest", "enum": "db-type", "nenum": "db-type", "nclass": "db-type",
              "class": "db-type", "enumval": "db-enumvalue", "param": None}


def prepare(chk):
    core.build("asan")
    tools.idbdump_path()


# ---------------------------------------------------------------------------
# materialising a model
# ---------------------------------------------------------------------------

def materialize(model, root, keep=None):
    """write the model's files under root; keep: set of (file id, chunk idx) to keep (None = all).
    -> (cwd, cmdline args, include options for interrogate, include options for g++)"""
    for d in ("w/sub", "src", "inc1", "sys1", "vis"):
        os.makedirs(os.path.join(root, d), exist_ok=True)
    with open(os.path.join(root, "vis", "vis.h"), "w") as f:
        f.write(visgen.VIS_H)
    for fr in model["files"]:
        k = None if keep is None else {ci for (fi, ci) in keep if fi == fr["id"]}
        with open(os.path.join(root, fr["path"]), "w") as f:
            f.write(visgen.file_text(fr, k))
    for p, txt in model["nfiles"].items():
        with open(os.path.join(root, p), "w") as f:
            f.write(txt)
    byid = {fr["id"]: fr for fr in model["files"]}
    args = [byid[i]["cmdarg"].replace("{ROOT}", root) for i in model["cmdline"]]
    incs = ["-S" + os.path.join(root, "vis"), "-I" + os.path.join(root, "inc1"), "-S" + os.path.join(root, "sys1")]
    ginc = ["-I" + os.path.join(root, d) for d in ("vis", "w", "inc1", "sys1")]
    return os.path.join(root, "w"), args, incs, ginc


def reference_accepts(model, root, ginc):
    """g++ -fsyntax-only on a TU that includes every command-line file (keywords macro'd away)."""
    byid = {fr["id"]: fr for fr in model["files"]}
    tu = os.path.join(root, "tu.cxx")
    with open(tu, "w") as f:
        for i in model["cmdline"]:
            f.write('#include "%s"\n' % os.path.join(root, byid[i]["path"]))
    r = tools.gxx(["-fsyntax-only", "-w"] + ginc + [tu], timeout=120)
    return r


# ---------------------------------------------------------------------------
# oracle: must / mustnot / unspec from the generator's facts
# ---------------------------------------------------------------------------

ODD_CTX = ("straddle", "region-in-nonpublic", "label-in-cregion")


# the two contexts in which the listed region findings give members an access that differs from C++'s
DISTORT_CTX = ("straddle", "region-in-nonpublic")


def odd_ctx(ents, n, which=ODD_CTX):
    """the odd-interleaving context an entity sits in: its own or that of an enclosing class"""
    e = ents.get(n)
    while e:
        if (e.get("ctx") or "") in which:
            return e["ctx"]
        if e["kind"] == "enumval" and e.get("of"):
            e = ents.get(e["of"])
        else:
            e = ents.get(e.get("owner")) if e.get("owner") else None
    return ""



def compute_status(model, mode, ents=None):
    """-> (status: name -> 'must'|'mustnot'|'unspec', referenced: set of type names that live entities refer to).

    Every entity first gets a verdict from its own facts; verdicts that depend on whether some enclosing or
    namespace-scope type is *referred to* by an exported signature / base list / typedef are resolved by a
    fixpoint over the reference graph."""
    ents = model["ents"] if ents is None else ents
    allents = model["ents"]
    files = {fr["id"]: fr for fr in model["files"]}
    minv = 0 if mode == "default" else 1

    def chain(n, e):
        """enclosing types, nearest first"""
        out = []
        cur = e
        if e["kind"] == "enumval" and e.get("of"):
            out.append(e["of"])
            cur = allents[e["of"]]
        while cur.get("owner"):
            out.append(cur["owner"])
            cur = allents[cur["owner"]]
        return out

    st = {}
    deps = {}           # name -> list of groups; the entity may appear only if every group has a referenced member
    for n, e in ents.items():
        k = e["kind"]
        if e.get("judge") is False:
            st[n] = "unspec"
            continue
        ownvis = e["ownvis"]
        if k == "typedef" and not e["owner"]:
            ownvis = 0       # "typedefs to exported structs are exported regardless of section" (scan_typedef_type)
        if e["amb"] and mode == "default" and not e["excl"] and ownvis <= 1:
            st[n] = "unspec"     # public member after a label-straddling END_PUBLISH: published or not is not settled
            continue
        if e["excl"] or ownvis > minv:
            st[n] = "mustnot"
            continue
        C = chain(n, e)
        CE = [allents[x] for x in C]
        if any(x.get("tmpl_self") and not x.get("inst") for x in CE):
            st[n] = "mustnot"            # inside an uninstantiated template
            continue
        in_inst = bool(e.get("inst")) or any(x.get("inst") for x in CE)
        if any(x["kind"] == "nclass" and x["ownvis"] >= 2 and x["ownvis"] > minv for x in CE):
            st[n] = "mustnot"            # inside a protected/private nested class
            continue
        groups = []
        bad = [i for i, x in enumerate(CE) if x["kind"] == "nclass" and x["ownvis"] > minv]
        if bad:
            # inside a nested class declared merely `public`: "a struct type is unpublished only if all of its
            # members are unpublished" -- it is defined (with its published members) once something refers to it
            groups.append(C[:bad[-1] + 1])
        tg = [i for i, x in enumerate(CE) if x.get("igt_target")]
        if tg:
            if tg[0] == 0:
                st[n] = "mustnot"        # direct member of an ignoretype'd class
                continue
            groups.append(C[:tg[0]])     # inside a nested type of an ignoretype'd class: its own type decides
        f = files[e["file"]]
        if not f["local"] and not e["forced"]:
            if k == "enumval" and e.get("of"):
                groups.append([e["of"]])     # "types from other files appear only when ... refers to them"
            else:
                st[n] = "mustnot"
                continue
        if e["ns"]:
            top = C[-1] if C else (n if k in ("class", "enum") else None)
            if top is None:
                st[n] = "mustnot"        # namespace-scope functions/variables cannot be referred to by a signature
                continue
            groups.append([top])
        # verdict if nothing stands in the way
        if (e["amb"] and mode == "default") or (e["forced"] and not f["local"]) or k == "typedef":
            v = "unspec"
        elif k == "class":
            if mode == "promisc" or e.get("region"):
                v = "must"
            elif any(mv <= minv for mv in e.get("member_vis", [])):
                v = "unspec"             # "a struct is listed as a type when any member is exported"
            else:
                v = "mustnot"
        elif k in MUST_PLACE:
            v = "must"
        else:
            v = "unspec"
        if in_inst and v == "must":
            v = "unspec"                 # member of a template instantiated by a typedef ("picks up most ...")
        if v == "must" and any(odd_ctx(allents, r) for r in e["refs"]):
            v = "unspec"                 # its signature names a type whose access the listed region findings distort
        if groups and v != "mustnot":
            deps[n] = groups
            st[n] = "mustnot"            # until the fixpoint says its types are referred to
        else:
            st[n] = v

    def live(n, e):
        if st[n] != "mustnot":
            return True
        if e["ownvis"] <= minv and e["excl"] == ["privtype"] and e["kind"] == "dmember":
            return True                  # listed as an element (without accessors); its type gets a stub
        if e["kind"] == "typedef" and not e["owner"] and not e["ns"]:
            return True                  # "a typedef counts as a declaration" of its struct, whatever file it is in
        return bool(odd_ctx(allents, n))     # what the tool makes of these is a listed finding, not settled

    referenced = set()
    while True:
        ref = set()
        for n, e in ents.items():
            if live(n, e):
                ref.update(e["refs"])
        todo = list(ref)
        while todo:
            r = todo.pop()
            er = allents.get(r)
            if not er:
                continue
            more = []
            if er.get("owner"):
                more.append(er["owner"])         # a nested type drags its outer classes along
            if er["kind"] in ("class", "nclass", "typedef"):
                more.extend(er["refs"])          # a class its base-class list, a typedef its target
            for m in more:
                if m not in ref:
                    ref.add(m)
                    todo.append(m)
        changed = False
        for n, groups in deps.items():
            if st[n] == "mustnot" and all(any(x in ref for x in g) for g in groups):
                st[n] = "unspec"
                changed = True
        referenced = ref
        if not changed:
            break
    return st, referenced


# ---------------------------------------------------------------------------
# observation
# ---------------------------------------------------------------------------

def toks(s):
    return visgen.TOKEN_RE.findall(s) if s else []


def observe(db, octext):
    occ = {}

    def put(t, place):
        occ.setdefault(t, set()).add(place)

    def rec_fields(rec, primary, place, skip=("comment",)):
        prim = set(toks(rec.get(primary)))
        for t in prim:
            put(t, place)
        for k, v in rec.items():
            if k == primary or k in skip:
                continue
            if isinstance(v, str):
                for t in toks(v):
                    if t not in prim:
                        put(t, "db-prototype" if k == "prototype" else "db-scope")

    for t in db["types"]:
        real = not (t["is_atomic"] or t["is_array"] or (t["is_wrapped"] and not t["is_typedef"]))
        prim = set(toks(t.get("name")))
        for x in prim:
            put(x, ("db-type" if t["is_fully_defined"] else "db-typestub") if real else "db-typeref")
        for k in ("scoped_name", "true_name"):
            for x in toks(t.get(k)):
                if x not in prim:
                    put(x, "db-scope" if real else "db-typeref")
        for ev in t["enum_values"]:
            p2 = set(toks(ev.get("name")))
            for x in p2:
                put(x, "db-enumvalue")
            for x in toks(ev.get("scoped_name")):
                if x not in p2:
                    put(x, "db-scope")
    for f in db["functions"]:
        rec_fields(f, "name", "db-function")
    for w in db["wrappers"]:
        for x in toks(w.get("name")) + toks(w.get("unique_name")):
            put(x, "db-wrapper")
        for p in w["params"]:
            for x in toks(p.get("name")):
                put(x, "db-wrapper")
    for e in db["elements"]:
        rec_fields(e, "name", "db-element")
    for m in db["manifests"]:
        for x in toks(m.get("name")):
            put(x, "db-manifest")
        for x in toks(m.get("definition")):
            put(x, "db-other")
    for m in db["make_seqs"]:
        for k, v in m.items():
            if isinstance(v, str) and k != "comment":
                for x in toks(v):
                    put(x, "db-other")
    for x in set(toks(octext)):
        put(x, "oc")
    return occ


def judge(model, mode, backend, occ, ents=None):
    """-> (violations [(key, detail)], features set, counters dict)"""
    ents = model["ents"] if ents is None else ents
    st, referenced = compute_status(model, mode, ents)
    viol = []
    feats = set()
    cnt = {"must_checked": 0, "mustnot_checked": 0, "unspecified_ignored": 0}
    unknown = [t for t in occ if t not in model["ents"]]
    if unknown:
        raise core.HarnessError("tagged names not in the model: " + ", ".join(sorted(unknown)[:5]))
    for n, e in ents.items():
        s = st[n]
        places = occ.get(n, set())
        k, tag = e["kind"], e["tag"]
        # context for the key: a distorting region context of the entity itself, else of a type its signature names
        dcx = odd_ctx(model["ents"], n, DISTORT_CTX)
        if not dcx:
            for r in e["refs"]:
                dcx = dcx or odd_ctx(model["ents"], r, DISTORT_CTX)
        cx = dcx or e.get("ctx") or ""
        if e.get("via_alias") and cx not in DISTORT_CTX:
            cx = (cx + "+alias") if cx else "alias"      # the signature reaches a type through a typedef/using alias
        sig = f"{tag},{k}" + (f",{cx}" if cx else "")
        cnt[f"judged_tag_{tag}"] = cnt.get(f"judged_tag_{tag}", 0) + 1
        if s == "unspec":
            cnt["unspecified_ignored"] += 1
            continue
        if s == "mustnot":
            cnt["mustnot_checked"] += 1
            feats.add(f"absent:{sig}:{mode}")
            if not places:
                continue
            if k in TYPE_KINDS and n in referenced:
                continue             # a type another exported signature / base list / typedef refers to
            pl = set(places)
            if k in TYPE_KINDS:
                pl -= STUB_PLACES
                if not pl:
                    continue
            if k == "dmember" and e["excl"] == ["privtype"]:
                # listed as an element without accessors: the statement's "signature" does not classify it
                pl.discard("db-element")
                if not pl:
                    continue
            place = [p for p in PLACE_PRIORITY if p in pl][0]
            key = f"leak:any,any,any,{cx}" if cx in DISTORT_CTX else f"leak:{tag},any,any,{cx}" if cx == "kwmacro" \
                else f"leak:{tag},{k},{place}" + (f",{cx}" if cx else "")
            viol.append((key,
                         dict(entity=n, mode=mode, backend=backend, places=sorted(places), facts=_facts(e))))
        else:
            cnt["must_checked"] += 1
            want = MUST_PLACE.get(k)
            ok = bool(places & {p for p in places if p.startswith("db-")}) if want is None else (want in places)
            if ok:
                feats.add(f"present:{sig}:{mode}")
            else:
                key = f"missing:any,any,{cx}" if cx in DISTORT_CTX else f"missing:{tag},{k}" + (f",{cx}" if cx else "")
                viol.append((key, dict(entity=n, mode=mode, backend=backend, places=sorted(places), facts=_facts(e))))
                continue
            if e.get("simple") and k in ("func", "method", "smethod") and backend in ("c", "pn"):
                if "oc" in places:
                    feats.add(f"wrapped:{sig}:{mode}:{backend}")
                else:
                    viol.append((f"missing:{tag},{k},oc" + (f",{cx}" if cx else ""),
                                 dict(entity=n, mode=mode, backend=backend, places=sorted(places), facts=_facts(e))))
    return viol, feats, cnt


def _facts(e):
    return {k: e[k] for k in ("ownvis", "vis", "amb", "excl", "cexcl", "forced", "ns", "owner", "file", "ctx") if k in e}


# ---------------------------------------------------------------------------
# one execution
# ---------------------------------------------------------------------------

def run_tool(b, model, root, mode, backend, tag="o"):
    """files are already materialised under root.  -> ("ok", occ) | ("fail", Result)"""
    cwd = os.path.join(root, "w")
    args, incs = _args(model, root)
    outdir = os.path.join(root, f"{tag}-{mode}")
    os.makedirs(outdir, exist_ok=True)
    r, p = tools.interrogate(b, args, outdir, opts=BACKENDS[backend] + MODES[mode], incs=incs, cwd=cwd, timeout=60)
    if r.timed_out:
        r = tools.interrogate(b, args, outdir, opts=BACKENDS[backend] + MODES[mode], incs=incs, cwd=cwd,
                              timeout=120)[0]
    if r.rc != 0 or r.died() or r.timed_out or not os.path.exists(p["od"]):
        return "fail", r
    rr, db = tools.idbdump([p["od"]])
    if db is None:
        return "fail", rr
    try:
        octext = open(p["oc"], errors="replace").read()
    except OSError:
        octext = ""
    return "ok", observe(db, octext)


def _args(model, root):
    byid = {fr["id"]: fr for fr in model["files"]}
    args = [byid[i]["cmdarg"].replace("{ROOT}", root) for i in model["cmdline"]]
    incs = ["-S" + os.path.join(root, "vis"), "-I" + os.path.join(root, "inc1"), "-S" + os.path.join(root, "sys1")]
    return args, incs


def effective_ents(model, keep):
    """the entities that exist when only the chunks in `keep` are kept; a macro defined several times takes the
    facts of its last surviving definition"""
    out = {}
    for n, v in model["ents"].items():
        if v.get("defs"):
            defs = [d for d in v["defs"] if d["chunk"] is None or tuple(d["chunk"]) in keep]
            if not defs:
                continue
            d = defs[-1]
            v = dict(v, file=d["file"], ownvis=d["ownvis"], vis=d["ownvis"], chunk=d["chunk"], tag=d["tag"], defs=defs)
            out[n] = v
        elif v.get("chunk") is None or tuple(v["chunk"]) in keep:
            out[n] = v
    return out


def minimise(b, model, root, mode, backend, key, entity):
    """ddmin over the top-level chunks of all files while `key` is still produced for `entity`."""
    allchunks = [(fr["id"], i) for fr in model["files"] for i in range(len(fr["chunks"]))]
    e = model["ents"][entity]
    fixed = {tuple(e["chunk"])} if e.get("chunk") else set()
    items = [c for c in allchunks if c not in fixed]
    n = [0]

    def fails(sub):
        n[0] += 1
        keep = set(sub) | fixed
        mroot = os.path.join(root, f"min{n[0]}")
        try:
            _, _, _, ginc = materialize(model, mroot, keep)
            if reference_accepts(model, mroot, ginc).rc != 0:
                return False
            how, occ = run_tool(b, model, mroot, mode, backend, tag="m")
            if how != "ok":
                return False
            ents = effective_ents(model, keep)
            occ = {k: v for k, v in occ.items() if k in ents}
            viol, _, _ = judge(model, mode, backend, occ, ents)
            return any(kk == key and d["entity"] == entity for kk, d in viol)
        except core.HarnessError:
            return False
        finally:
            shutil.rmtree(mroot, ignore_errors=True)

    kept = core.ddmin(items, fails, max_tests=40) if items else []
    for it in list(kept):          # ddmin never tries the empty complement
        trial = [x for x in kept if x != it]
        if len(kept) <= 6 and fails(trial):
            kept = trial
    keep = set(map(tuple, kept)) | fixed
    files = {}
    for fr in model["files"]:
        k = {ci for (fi, ci) in keep if fi == fr["id"]}
        if k or fr["id"] in model["cmdline"]:
            files[fr["path"]] = visgen.file_text(fr, k)
    red = dict(model)
    red["files"] = []
    for fr in model["files"]:
        fr2 = dict(fr)
        kk = sorted(ci for (fi, ci) in keep if fi == fr["id"])
        remap = {old: new for new, old in enumerate(kk)}
        fr2["chunks"] = [fr["chunks"][i] for i in kk]
        fr2["_remap"] = remap
        red["files"].append(fr2)
    def rm(ch):
        return None if ch is None else [ch[0], red["files"][ch[0]]["_remap"][ch[1]]]

    ents = {}
    for nme, v in effective_ents(model, keep).items():
        v2 = dict(v, chunk=rm(v.get("chunk")))
        if v.get("defs"):
            v2["defs"] = [dict(d, chunk=rm(d["chunk"])) for d in v["defs"]]
        ents[nme] = v2
    for fr2 in red["files"]:
        fr2.pop("_remap", None)
    red["ents"] = ents
    return files, red


def _min_budget(ctx, key, per_key=2, total=16):
    """minimisation is only worth it for the first few witnesses of a key in one run (shared across workers
    through marker files in the run's scratch directory)"""
    d = os.path.join(ctx.work, "minimised")
    os.makedirs(d, exist_ok=True)
    have = os.listdir(d)
    slug = re.sub(r"[^A-Za-z0-9]+", "_", key)
    if len(have) >= total or sum(1 for h in have if h.startswith(slug + ".")) >= per_key:
        return False
    try:
        open(os.path.join(d, f"{slug}.{os.getpid()}.{len(have)}"), "x").close()
    except OSError:
        return False
    return True


def run_case(ctx, case):
    res = core.CaseResult()
    b = core.build("asan")
    model = case.get("model") or visgen.generate(case["seed"], case.get("params"))
    backend = case.get("backend", "c")
    root = ctx.casedir(case.get("id", "x"))
    shutil.rmtree(root, ignore_errors=True)
    os.makedirs(root)
    _, _, _, ginc = materialize(model, root)
    g = reference_accepts(model, root, ginc)
    if g.rc != 0:
        res.inconclusive = "rejected_by_reference"
        res.count("rejected_by_reference")
        res.sample = None
        if os.environ.get("C04_DEBUG"):
            res.violation("debug:gxx-reject", err=g.err[-1500:])
        return res
    res.count("headers")
    res.count("entities", len(model["ents"]))
    for f in model.get("features", []):
        res.features.add("gen:" + f)
    seen = set()
    for mode in case.get("modes", ["default", "promisc"]):
        how, occ = run_tool(b, model, root, mode, backend, tag="o")
        if how != "ok":
            res.inconclusive = "interrogate-failed:" + occ.how()
            res.count("interrogate_failed")
            if os.environ.get("C04_DEBUG"):
                res.violation("debug:interrogate-fail", err=occ.err[-1500:], mode=mode)
            continue
        res.count("tool_runs")
        viol, feats, cnt = judge(model, mode, backend, occ)
        res.features |= feats
        for k, v in cnt.items():
            res.count(k, v)
        for key, det in viol:
            if key in seen:
                continue
            seen.add(key)
            if len(seen) <= 2 and not case.get("model") and not case.get("nomin") and _min_budget(ctx, key):
                files, red = minimise(b, model, root, mode, backend, key, det["entity"])
                det["witness_files"] = files
                det["witness_nfiles"] = model["nfiles"]
                det["reduced_case"] = dict(id="w", model=red, backend=backend, modes=[mode])
            res.violation(key, **det)
    if res.sample is None:
        mainf = [fr for fr in model["files"] if fr["id"] == model["cmdline"][-1]][0]
        res.sample = dict(seed=case.get("seed"), params=case.get("params"), backend=backend,
                          cmdline=[fr["cmdarg"] for fr in model["files"] if fr["cmdarg"]],
                          main_file_head=visgen.file_text(mainf)[:1200], nfiles=model["nfiles"])
    shutil.rmtree(root, ignore_errors=True)
    return res


def make_cases(chk):
    rng = random.Random(f"C04:{chk.seed}:{chk.tier}")
    n = chk.pick(1800, 6000)
    cases = []
    for i in range(n):
        tree = rng.random() < 0.4
        params = dict(tree=tree, nfile=rng.random() < 0.5, odd=(0.4 if rng.random() < 0.25 else 0.0),
                      kwmacro=rng.random() < 0.08, size=round(rng.uniform(0.6, 1.3) * (0.7 if tree else 1.0), 2))
        be = "c" if i % 2 == 0 else "pn"
        if not chk.quick() and i % 10 == 9:
            be = "py"
        cases.append(dict(id=i, seed=rng.randrange(1 << 40), params=params, backend=be))
    return cases


def main(chk):
    chk.rule = ("visgen header (+ include tree over cwd / sibling / -I / -S and .N command file) with every entity "
                "uniquely tagged; each header is run without and with -promiscuous under one back-end (-c / "
                "-python-native alternating); a case is conclusive when g++ -fsyntax-only accepts the header and "
                "interrogate exits 0; distinct = distinct (verdict-kind, tag, entity-kind, context, mode[, back-end]) "
                "signatures the monitor actually judged: absent:<must-not name looked for and not found>, "
                "present:<must name found in its database record kind>, wrapped:<must function found in -oc>, "
                "plus generator features (gen:*) of accepted headers")
    chk.assumptions = [
        "g++ 12 -fsyntax-only (PUBLISHED=public, BEGIN/END_PUBLISH empty) is the authority for validity and C++ access",
        "published = after `PUBLISHED:` or lexically inside BEGIN_PUBLISH..END_PUBLISH (a `public:` label inside an "
        "open region counts as published); public members after a label-straddling END_PUBLISH are ambiguous",
        "tools.idbdump shows everything reachable through the extern \"C\" query interface",
        "facts the statement does not classify are ignored: type stubs referred to by exported signatures/base "
        "lists/typedefs, typedef names, friends, static globals, function-like macros, forcetype'd published members, "
        "element records (without accessors) of members whose type is private",
    ]
    chk.min_conclusive = chk.pick(1200, 4000)
    chk.run_cases(__name__, make_cases(chk))
    chk.extra["entities_generated"] = chk.counters.get("entities", 0)
    # Appendix D: one row per gate -- how many classified names (must / must-not / unspecified) carried each tag
    chk.extra["judged_per_tag"] = {k[len("judged_tag_"):]: v for k, v in sorted(chk.counters.items())
                                   if k.startswith("judged_tag_")}
    need = {"ignoreinvolved reached through an alias": lambda f: f.startswith("absent:ign_involved,") and "alias:" in f,
            "private type reached through an alias": lambda f: f.startswith("absent:privtype,") and "alias:" in f,
            "exported signature through an alias": lambda f: f.startswith("present:") and "alias:" in f,
            "macro identically re-#defined into an exported place": lambda f: f.startswith("present:") and "redef-same:" in f,
            "T&& method of a typedef-instantiated template": lambda f: f.startswith("absent:rvref,method,inst-template"),
            "ignoreinvolved argument of an instantiated template":
                lambda f: f.startswith("absent:ign_involved,") and "inst-template" in f,
            "macro re-#defined into a non-exported place": lambda f: f.startswith("absent:") and ",macro,redef-" in f}
    chk.extra["family_rows"] = {k: sum(1 for f in chk.features if fn(f)) for k, fn in need.items()}
    missing_rows = [t for t in visgen.TAGS if t != "unspec" and not chk.extra["judged_per_tag"].get(t)]
    missing_rows += [k for k, v in chk.extra["family_rows"].items() if not v]
    if missing_rows:
        raise core.HarnessError("workload did not exercise the gates of tags: " + ", ".join(missing_rows))
