"""C13 — loading several libraries yields one consistent, order-independent database.

Workload: modules of k <= 4 libraries (modgen: shared atomic/pointer types, classes defined in one library and
only referred to by others through bases and parameters) loaded through the public request interface in every
order, with by-name lookups interleaved before, between and after the loads (idbdrive: one history = one process).
Oracles:
  * order independence: the final database, canonicalised into an index-free graph, is the same for every history;
  * union: it equals the disjoint union of the single-file databases with types identified by true name (the fully
    defined definition wins, global = OR; library attribution compared where exactly one file defines the type);
  * freshness: every name stored in a file is found by the by-name lookups after that file was requested, also when
    a lookup was already answered before;
  * module ranges handed out by interrogate_request_module are disjoint, increasing in load order, and cover every
    index the merged database uses.
"""
import itertools
import json
import os
import random
import shutil

from vf import core, tools
from vf.gen import modgen, ifacegen

LEVEL = "exploration"


# ---- canonical, index-free view of an idbdump JSON
def canon(dump):
    T = {t["index"]: t for t in dump["types"]}
    F = {f["index"]: f for f in dump["functions"]}
    W = {w["index"]: w for w in dump["wrappers"]}
    E = {e["index"]: e for e in dump["elements"]}
    S = {s["index"]: s for s in dump["make_seqs"]}
    M = {m["index"]: m for m in dump["manifests"]}

    def tk(i):
        t = T.get(i)
        return None if (t is None or i == 0) else "T:" + t["true_name"]

    dangling = []

    def fk(i):
        f = F.get(i)
        if f is None and i != 0:
            dangling.append(("function", i))
        if f is None or i == 0:
            return None
        return "F:" + f["library_name"] + ":" + f["scoped_name"] + ":" + f["prototype"]

    def wk(i):
        w = W.get(i)
        if w is None or i == 0:
            return None
        return "W:" + str(fk(w["function"])) + ":" + ",".join(str(tk(p["type"])) for p in w["params"])

    def ek(i):
        e = E.get(i)
        return None if (e is None or i == 0) else "E:" + e["scoped_name"]

    out = {}
    for i, t in T.items():
        r = dict(t)
        r.pop("index")
        r["outer_class"] = tk(t["outer_class"])
        r["wrapped_type"] = tk(t["wrapped_type"])
        r["constructors"] = sorted(map(str, map(fk, t["constructors"])))
        r["destructor"] = fk(t["destructor"])
        r["elements"] = sorted(map(str, map(ek, t["elements"])))
        r["methods"] = sorted(map(str, map(fk, t["methods"])))
        r["make_seqs"] = sorted(str(S[s]["scoped_name"]) if s in S else "?" for s in t["make_seqs"])
        r["casts"] = sorted(map(str, map(fk, t["casts"])))
        r["nested_types"] = sorted(map(str, map(tk, t["nested_types"])))
        r["derivations"] = sorted((dict(d, base=tk(d["base"]), upcast=fk(d["upcast"]), downcast=fk(d["downcast"]))
                                   for d in t["derivations"]), key=lambda d: str(d["base"]))
        out[tk(i)] = r
    for i, f in F.items():
        r = dict(f)
        r.pop("index")
        r["class"] = tk(f["class"])
        r["c_wrappers"] = sorted(map(str, map(wk, f["c_wrappers"])))
        r["python_wrappers"] = sorted(map(str, map(wk, f["python_wrappers"])))
        out[fk(i)] = r
    for i, w in W.items():
        r = dict(w)
        r.pop("index")
        r["function"] = fk(w["function"])
        r["return_type"] = tk(w["return_type"])
        r["return_value_destructor"] = fk(w["return_value_destructor"])
        r["params"] = [dict(p, type=tk(p["type"])) for p in w["params"]]
        out[wk(i)] = r
    for i, e in E.items():
        r = dict(e)
        r.pop("index")
        r["type"] = tk(e["type"])
        for k in ("getter", "setter", "has_function", "clear_function", "del_function", "insert_function",
                  "getkey_function", "length_function"):
            r[k] = fk(e[k])
        out[ek(i)] = r
    for i, m in M.items():
        r = dict(m)
        r.pop("index")
        r["type"] = tk(m["type"])
        r["getter"] = fk(m["getter"])
        out["M:" + m["name"]] = r
    for i, s in S.items():
        r = dict(s)
        r.pop("index")
        r["num_getter"] = fk(s["num_getter"])
        r["element_getter"] = fk(s["element_getter"])
        out["S:" + s["scoped_name"]] = r
    glob = dict(global_types=sorted(map(str, map(tk, dump["global_types"]))),
                all_types=sorted(map(str, map(tk, dump["all_types"]))),
                all_functions=sorted(map(str, map(fk, dump["all_functions"]))),
                global_functions=sorted(map(str, map(fk, dump["global_functions"]))),
                globals=sorted(map(str, map(ek, dump["globals"]))),
                manifests=sorted(M[m]["name"] for m in dump["manifest_list"] if m in M))
    out["__enumerations__"] = glob
    canon.dangling = dangling
    return out


canon.dangling = []


def first_diff(a, b):
    for k in sorted(set(a) | set(b)):
        if k not in a:
            return ("extra-record", k.split(":")[0], k)
        if k not in b:
            return ("missing-record", k.split(":")[0], k)
        if a[k] != b[k]:
            if isinstance(a[k], dict):
                for f in sorted(a[k]):
                    if a[k].get(f) != b[k].get(f):
                        return ("field-differs", k.split(":")[0] + "." + f, k, a[k].get(f), b[k].get(f))
            return ("record-differs", k.split(":")[0], k)
    return None


def union_model(singles):
    """disjoint union of single-file canonical graphs; types identified by true name.  Which definition's record
    survives: the only fully defined one; among several fully defined ones the only one that is global in its own
    file (InterrogateType::merge_with: "if both types are fully defined, whichever type is marked global wins" --
    this makes the outcome independent of the load order, so it is compared); with several or no global fully
    defined definitions (or no fully defined one at all) the survivor depends on the order and is left open."""
    out = {}
    multi = set()
    recs = {}
    for c in singles:
        for k, r in c.items():
            if k == "__enumerations__":
                continue
            if k.startswith("T:"):
                recs.setdefault(k, []).append(r)
            elif k in out and out[k] != r:
                multi.add(k)
            else:
                out[k] = r
    for k, rs in recs.items():
        g = any(r["is_global"] for r in rs)
        D = [r for r in rs if r["is_fully_defined"]]
        if len(rs) == 1:
            win = rs[0]
        elif len(D) == 1:
            win = D[0]
        elif not D:
            multi.add(k)
            win = rs[0]
        else:
            G = [r for r in D if r["is_global"]]
            if len(G) == 1:
                win = G[0]
                union_model.decided_by_global += 1
            else:
                multi.add(k)
                win = D[0]
        out[k] = dict(win, is_global=g)
    return out, multi


union_model.decided_by_global = 0


def run_script(lines, cwd):
    exe = ifacegen.idbdrive_path()
    r = core.run([exe, "-"], input=("\n".join(lines) + "\n").encode(), timeout=120, cwd=cwd)
    return r


def names_of(dump):
    out = []
    for t in dump["types"]:
        if t["name"]:
            out.append(("interrogate_get_type_by_true_name", t["true_name"], "interrogate_type_true_name"))
        if t["scoped_name"]:
            out.append(("interrogate_get_type_by_scoped_name", t["scoped_name"], "interrogate_type_scoped_name"))
        if t["name"]:
            out.append(("interrogate_get_type_by_name", t["name"], "interrogate_type_name"))
    for m in dump["manifests"]:
        out.append(("interrogate_get_manifest_by_name", m["name"], "interrogate_manifest_name"))
    for e in dump["elements"]:
        if e["scoped_name"]:
            out.append(("interrogate_get_element_by_scoped_name", e["scoped_name"], "interrogate_element_scoped_name"))
    return out


def run_case(ctx, case):
    res = core.CaseResult()
    b = core.build("asan")
    root = ctx.casedir(case["id"])
    k = case["k"]
    edges = {tuple(e): "base" for e in case["edges"]}
    libs = modgen.write_module(root, k, edges, cross_params=True, chains=True)
    ins = []
    for L in libs:
        incs = ["-I" + x["dir"] for x in libs if x is not L] + ["-S" + os.path.join(root, "sys")]
        r, p = tools.interrogate(b, [os.path.join(L["dir"], h) for h in L["headers"]], L["dir"],
                                 opts=case.get("opts", ["-python-native", "-string"]), name=L["name"], module="mod", incs=incs)
        if r.rc != 0 or r.died():
            res.inconclusive = "interrogate failed: " + r.how()
            shutil.rmtree(root, ignore_errors=True)
            return res
        ins.append(p["od"])
    # single-file references
    singles, sdumps = [], []
    for f in ins:
        r, d = tools.idbdump([f])
        if d is None:
            res.inconclusive = "single-file load failed"
            shutil.rmtree(root, ignore_errors=True)
            return res
        sdumps.append(d)
        singles.append(canon(d))
    union_model.decided_by_global = 0
    model, multi = union_model(singles)
    res.count("types_fully_defined_in_several_files_decided_by_global_flag", union_model.decided_by_global)
    rng = random.Random(case["seed"])
    ref = None
    rcase = dict(case)
    for hi, perm in enumerate(case["perms"]):
        # one history: loads in this order with lookups interleaved
        style = case["styles"][hi % len(case["styles"])]
        lines = []
        probes = []     # (line number of result, fn, name, namefn, must_find)
        seen_names = []
        if style in ("lookup-first", "all"):
            # a lookup answered before anything is loaded must not freeze the name caches
            lines.append("calls interrogate_get_type_by_true_name " + ifacegen.hexs("R0"))
        for pos, li in enumerate(perm):
            if case.get("ranges"):
                # like a compiled-in module definition: it announces how many indices the file uses
                from vf import idb
                nx = idb.parse(open(ins[li], "rb").read()).next_index()
                lines.append("module %s %s %s %s 0 1 %d 0 0" % (ifacegen.hexs(libs[li]["name"]), ifacegen.hexs("h%d" % li),
                                                                  ifacegen.hexs("mod"), ifacegen.hexs(ins[li]), nx))
            else:
                lines.append("load " + ifacegen.hexs(ins[li]))
            nm = names_of(sdumps[li])
            seen_names += nm
            if style in ("between", "all") or pos == len(perm) - 1:
                sample = nm if len(nm) < 40 else rng.sample(nm, 40)
                for fn, name, namefn in sample:
                    lines.append("calls %s %s" % (fn, ifacegen.hexs(name)))
                    probes.append((fn, name, namefn))
        out = os.path.join(root, "final%d.json" % hi)
        if case.get("ranges"):
            lines.append("ranges")
        lines.append("dump " + ifacegen.hexs(out))
        r = run_script(lines, root)
        res.count("histories")
        res.features.add(f"k={k},edges={len(edges)},style={style}")
        if r.died() or r.timed_out or r.rc != 0:
            res.violation("history-crashed:" + r.how(), perm=perm, err=r.err[-500:], replay_case=rcase)
            continue
        # freshness: every probe must have found a record
        rl = [l for l in r.out.splitlines() if l.startswith("R ")]
        found = 0
        skip = 1 if style in ("lookup-first", "all") else 0
        for (fn, name, namefn), line in zip(probes, rl[skip:]):
            val = line.rsplit("=", 1)[1].strip()
            res.count("lookups_checked")
            if val in ("0", "n"):
                res.violation(f"lookup-misses-loaded-name:{fn.replace('interrogate_get_', '')},style={style}", name=name,
                              perm=perm, replay_case=rcase)
            else:
                found += 1
        try:
            d = json.load(open(out))
        except Exception:
            res.violation("history-produced-no-dump", perm=perm, err=r.err[-300:], replay_case=rcase)
            continue
        if d["error_flag_after"]:
            res.violation("error-flag-set-after-good-loads", perm=perm, replay_case=rcase)
        c = canon(d)
        if canon.dangling:
            # "every cross reference is carried over to the merged indices": a function reference of the merged
            # database that names no function record
            res.violation("dangling-function-reference-after-merge", refs=canon.dangling[:5], perm=perm, replay_case=rcase)
        if case.get("ranges"):
            ml = [l.split() for l in r.out.splitlines() if l.startswith("G ")]
            rngs = [(int(x[2]), int(x[3])) for x in ml]
            res.count("module_ranges_checked", len(rngs))
            for (a1, b1), (a2, b2) in zip(rngs, rngs[1:]):
                if not (a1 < b1 <= a2 < b2):
                    res.violation("module-ranges-overlap-or-unordered", ranges=rngs, perm=perm, replay_case=rcase)
                    break
            used = [t["index"] for t in d["types"]] + [f["index"] for f in d["functions"]] + [w["index"] for w in d["wrappers"]]
            for i in used:
                if not any(a <= i < bb for a, bb in rngs):
                    res.violation("index-outside-every-module-range", index=i, ranges=rngs, replay_case=rcase)
                    break
        # order independence
        if ref is None:
            ref = (perm, c)
            # union against the single-file references
            cm = {kk: v for kk, v in c.items() if kk != "__enumerations__" and kk not in multi}
            mm = {kk: v for kk, v in model.items() if kk not in multi}
            df = first_diff(cm, mm)
            res.count("records_compared_with_union", len(mm))
            if df:
                res.violation(f"union-mismatch:{df[0]}:{df[1]}", detail=[str(x)[:200] for x in df], perm=perm,
                              replay_case=rcase)
        else:
            # attribution of a type that several files define fully (or none does) is left open by the statement
            def strip(g):
                o = {}
                for kk, v in g.items():
                    if kk in multi:
                        v = {f: x for f, x in v.items() if f not in ("library_name", "module_name", "has_library_name",
                                                                        "has_module_name")}
                    o[kk] = v
                return o
            df = first_diff(strip(c), strip(ref[1]))
            res.count("history_pairs_compared")
            if df:
                res.violation(f"order-dependent:{df[0]}:{df[1]}", detail=[str(x)[:200] for x in df], perm=perm,
                              ref_perm=ref[0], replay_case=rcase)
    res.sample = dict(k=k, edges=case["edges"], histories=len(case["perms"]), records=len(model))
    shutil.rmtree(root, ignore_errors=True)
    return res


def main(chk):
    chk.rule = ("case = (k libraries, cross-library inheritance/parameter graph, set of load orders, lookup interleaving style); "
                "k <= 3: every permutation x every style; k = 4: every permutation, styles sampled; distinct = "
                "(k, |edges|, style) histories whose final database was canonicalised and compared")
    chk.assumptions = ["single-file loads through the same library are the reference for the union (differential single vs. multi)",
                       "types fully defined in several files or in none are excluded from the attribution comparison (statement leaves it open)",
                       "list-valued fields are compared as sets (enumeration order is not classified)"]
    ifacegen.idbdrive_path()
    tools.idbdump_path()
    rng = chk.rng
    cases = []
    cid = 0
    styles = ["after", "between", "lookup-first", "all"]
    for k in (2, 3, 4):
        n = {2: chk.pick(12, 40), 3: chk.pick(40, 300), 4: chk.pick(14, 150)}[k]
        for i in range(n):
            pairs = [(a, c) for a in range(k) for c in range(k) if a != c]
            edges = [p for p in pairs if rng.random() < rng.choice([0.3, 0.5])]
            if not edges:
                edges = [rng.choice(pairs)]
            perms = [list(p) for p in itertools.permutations(range(k))]
            cid += 1
            cases.append(dict(id=cid, k=k, edges=edges, perms=perms, styles=styles if k < 4 else rng.sample(styles, 2),
                              seed=rng.randrange(1 << 30), ranges=(i % 3 == 0),
                              opts=rng.choice([["-python-native", "-string"], ["-c", "-fnames", "-string"]])))
    chk.run_cases(__name__, cases)
